#!/venv/bin/python
"""usage: tools/agent_prompt.py <Cxx> <d|r>   -> prints the prompt for an independent sub-agent and prepares its worktree.
d = breaking changes (round d), r = behaviour-preserving refactorings (must-stay-silent corpus).
The sub-agent sees the property record only - nothing from /verif."""
import json, os, subprocess, sys
pid, kind = sys.argv[1], sys.argv[2]
rec = next(json.loads(l) for l in open("/verif/properties.jsonl") if json.loads(l)["id"] == pid)
wt = "/tmp/wt/%s-%s" % (kind, pid)
out = "/tmp/wt/out"
os.makedirs(out, exist_ok=True)
if not os.path.isdir(wt):
    subprocess.check_call(["git", "-C", "/repo", "worktree", "add", "--detach", wt, "HEAD"], stdout=subprocess.DEVNULL, stderr=subprocess.DEVNULL)
common = f"""You are helping to test a verification effort for the open-source Python library joblib (parallel map, on-disk memoization, numpy-aware pickling).
You have your OWN scratch git worktree of the library at {wt} (interpreter: /venv/bin/python 3.12; numpy is NOT installed; there is no network).
Work ONLY inside {wt} and write deliverables ONLY under {out}. Never read or touch /repo or /verif. Never commit, never use `git stash` (it is shared between worktrees). Do not leave processes running; run at most one pytest at a time and always with `timeout`.

The property (this record is all you are told about what is being verified):
{json.dumps(rec, indent=1)}
"""
if kind == "s":
    kind_label = "s"
if kind == "f":
    body = f"""
TASK: produce 3 independent changes to the library source ({wt}/joblib/**, never the tests) that each BREAK this property while the package still imports and the existing test-suite still passes.

Each change must
 * be realistic: it must look like a plausible clean-up / optimisation / robustness fix / feature tweak that a maintainer could merge; no comment or name may give it away; 3-30 changed lines;
 * keep every existing statement's PURPOSE recognisable: do not simply delete a statement or negate a test - change WHAT is computed, WHERE it is stored, WHEN it is evaluated or WHICH object it belongs to;
 * need something SPECIFIC to manifest, not something ordinary use (or the existing tests) exposes at once;
 * follow this round's style (one of each; where a style does not fit this property - e.g. no concurrency is involved - replace it by "a memoised / precomputed / default value that goes stale or is shared between things that must not share it"):
     change 1: needs a particular INTERLEAVING or a CRASH / FAULT AT A PARTICULAR POINT: a check-then-act window, state read or published outside the critical section that used to cover it, a lock or `try` whose scope moved by one statement, two steps of a publication re-ordered, an exception raised by a callee between two statements that must both happen, a signal / worker death / full disk / vanished file at one precise moment;
     change 2: needs a MULTI-STEP HISTORY: only the second (or third) use goes wrong - reuse of the same object after an error, after a timeout, after `clear()` / `reduce_size()` / re-configuration / resize / re-open / seek-back, state left over from the previous operation, an object pickled and un-pickled in between, an old on-disk layout read by new code;
     change 3: needs an UNUSUAL INPUT or CONFIGURATION, and lives in a function that is NOT the most obvious one of the mechanism (a helper, a sibling class, a compatibility branch, another file of the anchors): an empty / singleton / exactly-at-the-boundary size, a rarely used parameter combination, a subclass or alternative backend, a name that collides with an internal one, negative or zero or huge numbers, an alias instead of a copy, a wrong sibling attribute (`_aborted`/`_aborting`, `offset`/`_pos`, `n_jobs`/`_n_jobs` ...).
 Prefer sites that a reviewer focused on the central function of the mechanism would NOT look at.

Deliver for change K (K=1,2,3) the directory {out}/{pid}-f-K/ containing
 * patch.diff  - `git diff` taken in {wt}; must apply with `git apply` to the clean HEAD of the worktree;
 * demo.py     - a small deterministic program: exit code 0 when the property holds (clean tree), non-zero when it is broken (with your change). Force the needed interleaving / crash / fault with monkeypatching, threading.Event, fault injection, subprocesses - no sleeping-and-hoping. Must finish in < 60 s. It is run as `cd <tree> && PYTHONPATH=<tree> /venv/bin/python demo.py` so it must import joblib from the current directory;
 * notes.md    - first line: `{pid}-f-K: <one-line summary>`; then what you changed, why it breaks the property, what it needs to manifest, which test modules you ran and their result.
Verify yourself, for each change: (1) demo exits 0 on the clean tree (save your diff with `git diff > file`, `git checkout -- .`, run, `git apply file` - never `git stash`), (2) demo exits non-zero with the change, (3) the test modules that exercise the files you touched pass with the change: `cd {wt} && timeout 1700 /venv/bin/python -m pytest -q -p no:cacheprovider --basetemp={wt}/.bt --timeout=600 joblib/test/test_<module>.py` (test_parallel.py takes a few minutes; run it only if you touched parallel.py / _parallel_backends.py / externals/loky). A change that makes an existing test fail is useless - rework it.
Reset the worktree (`git checkout -- . && git clean -fdq -e .bt`) after each change. Work quickly: aim to be done within 35 minutes. Finish with a short report: the ids delivered, one line each."""
elif kind == "e":
    body = f"""
TASK: produce 3 independent changes to the library source ({wt}/joblib/**, never the tests) that each BREAK this property while the package still imports and the existing test-suite still passes.

Each change must
 * be realistic: it must look like a plausible clean-up / optimisation / bug-fix slip that a maintainer could merge; no comment or name may give it away;
 * need something SPECIFIC to manifest - a particular interleaving, a crash or fault at a particular point, a multi-step sequence of operations, an unusual input or configuration - not something ordinary use (or the existing tests) exposes at once;
 * follow this round's style (one of each):
     change 1: a REFACTORING THAT IS ALMOST BEHAVIOUR-PRESERVING - extract a helper / inline one, hoist an expression or an attribute read into a local (so that it is read EARLIER than before: before a lock is taken, before a call that changes it, once instead of per iteration), merge two guards, turn early returns into a result variable, move a statement out of (or into) a `with`/`try`/loop, replace a loop by a comprehension ... - where exactly one path, ordering or evaluation time is no longer the same and that breaks the property. It must read like a pure clean-up;
     change 2: an ERROR-PATH / LIFECYCLE slip: something that is released, reset, flushed, unregistered, re-raised or restored on the normal path but no longer on an exceptional / early-exit / retry / second-use path (or the other way round), in a function that is NOT the most obvious one of the mechanism;
     change 3: a BOUNDARY or STATE-CONFUSION slip: an off-by-one at a size / count boundary, an empty or singleton input, `<` vs `<=`, a flag or counter that has a close sibling (`_aborted`/`_aborting`, `n_dispatched_tasks`/`n_dispatched_batches`, `offset`/`_pos` ...) consulted or updated instead of the right one - on a path the tests do not reach.

Deliver for change K (K=1,2,3) the directory {out}/{pid}-e-K/ containing
 * patch.diff  - `git diff` taken in {wt}; must apply with `git apply` to the clean HEAD of the worktree;
 * demo.py     - a small deterministic program: exit code 0 when the property holds (clean tree), non-zero when it is broken (with your change). Force the needed interleaving / crash / fault with monkeypatching, threading.Event, fault injection, subprocesses - no sleeping-and-hoping. Must finish in < 60 s. It is run as `cd <tree> && PYTHONPATH=<tree> /venv/bin/python demo.py` so it must import joblib from the current directory;
 * notes.md    - first line: `{pid}-e-K: <one-line summary>`; then what you changed, why it breaks the property, what it needs to manifest, which test modules you ran and their result.
Verify yourself, for each change: (1) demo exits 0 on the clean tree (save your diff with `git diff > file`, `git checkout -- .`, run, `git apply file` - never `git stash`), (2) demo exits non-zero with the change, (3) the test modules that exercise the files you touched pass with the change: `cd {wt} && timeout 1700 /venv/bin/python -m pytest -q -p no:cacheprovider --basetemp={wt}/.bt --timeout=600 joblib/test/test_<module>.py` (test_parallel.py takes a few minutes). A change that makes an existing test fail is useless - rework it.
Reset the worktree (`git checkout -- . && git clean -fdq -e .bt`) after each change. Finish with a short report: the ids delivered, one line each."""
elif kind == "d":
    body = f"""
TASK: produce 3 independent changes to the library source ({wt}/joblib/**, never the tests) that each BREAK this property while the package still imports and the existing test-suite still passes.

Each change must
 * be realistic: it must look like a plausible optimisation / clean-up / bug-fix slip that a maintainer could merge; no comment or name may give it away;
 * need something SPECIFIC to manifest - a particular interleaving, a crash or fault at a particular point, a multi-step sequence of operations, an unusual input or configuration - not something ordinary use (or the existing tests) exposes at once;
 * follow this round's style (one of each):
     change 1: ADDS new code (a small cache, a fast path, an early exit, an "optimisation", an extra retry, a new helper, a new default) rather than deleting or negating an existing statement;
     change 2: a value-level slip (wrong variable / attribute of the wrong object, off-by-one, wrong unit, wrong default, stale value, wrong operand order, wrong exception type) located in a helper or callee that is NOT the most obvious function of the mechanism - prefer a different file than the first anchor if the property has several;
     change 3: TWO cooperating edits in two different functions (or files), each harmless alone; check that each half alone keeps your demo passing, and say so in the notes.

Deliver for change K (K=1,2,3) the directory {out}/{pid}-d-K/ containing
 * patch.diff  - `git diff` taken in {wt}; must apply with `git apply` to the clean HEAD of the worktree;
 * demo.py     - a small deterministic program: exit code 0 when the property holds (clean tree), non-zero when it is broken (with your change). Force the needed interleaving / crash / fault with monkeypatching, threading.Event, fault injection, subprocesses - no sleeping-and-hoping. Must finish in < 60 s. It is run as `cd <tree> && PYTHONPATH=<tree> /venv/bin/python demo.py` so it must import joblib from the current directory;
 * notes.md    - first line: `{pid}-d-K: <one-line summary>`; then what you changed, why it breaks the property, what it needs to manifest, which test modules you ran and their result.
Verify yourself, for each change: (1) demo exits 0 on the clean tree (`git diff > /tmp/wt/.../saved.diff; git checkout -- .` - never `git stash`: the stash is shared by all worktrees), (2) demo exits non-zero with the change, (3) the test modules that exercise the files you touched pass with the change: `cd {wt} && timeout 1700 /venv/bin/python -m pytest -q -p no:cacheprovider --basetemp={wt}/.bt --timeout=600 joblib/test/test_<module>.py` (test_parallel.py takes a few minutes). A change that makes an existing test fail is useless - rework it.
Reset the worktree (`git checkout -- . && git clean -fdq -e .bt`) after each change. Finish with a short report: the ids delivered, one line each."""
else:
    tag = kind
    body = f"""
TASK: produce 4 independent BEHAVIOUR-PRESERVING refactorings of the library code that implements the mechanisms this property depends on (the functions named under "anchors"/"mechanism"). The property - and every other observable behaviour - must STILL HOLD after each of them. They are used to make sure that a verifier of this property does not raise false alarms on harmless edits.

Do the kind of clean-up maintainers really do, 5-40 changed lines each, inside the anchored functions/classes, e.g.: extract part of a method into a new private helper (or inline a helper), turn an if/elif chain into early returns (or back), swap the branches of an if with the test negated, loop <-> comprehension, re-order independent statements, hoist a repeated expression into a local, introduce a local alias for an attribute, rename locals / private helpers / private attributes consistently, `x += n` <-> `x = x + n`, merge nested `with`/`if`, split a long condition into named booleans, replace a lambda by a def, add logging/debug statements, docstrings or type hints, change string formatting of messages, equivalent standard-library call (`os.path.join` <-> f-string is NOT equivalent; `dict(a, **b)` <-> `{{**a, **b}}` is). Use a different kind of refactoring for each of the four, and touch different functions where the property has several anchors.
Do NOT change behaviour: same results, same exceptions, same ordering of side effects on shared state / files / locks, same public API.

Deliver for refactoring K (K=1..4) the directory {out}/{pid}-{kind}-K/ containing
 * patch.diff - `git diff` taken in {wt}; applies with `git apply` to the clean HEAD;
 * notes.md   - first line: `{pid}-{kind}-K: <one-line summary>`; then what kind of refactoring, which functions, why behaviour is unchanged, which test modules you ran.
Verify: the package imports and the test modules exercising the touched files pass: `cd {wt} && timeout 1700 /venv/bin/python -m pytest -q -p no:cacheprovider --basetemp={wt}/.bt --timeout=600 joblib/test/test_<module>.py`.
Reset the worktree (`git checkout -- . && git clean -fdq -e .bt`) after each. Finish with a short report: the ids delivered, one line each."""
print(common + body)
