#!/venv/bin/python
"""usage: tools/keep_seed.py <seed dir under /tmp/wt/out> [property ...]
Copies a confirmed seeded change to /verif/seeded/<id>/ (patch.diff, demo.py, meta.json).
Requires verify.log (tools/verify_seed.sh) with demo_clean=0, demo_changed!=0 and passing tests;
applies the patch to /repo, runs the quick checks of the given properties (default: the seed's own),
records which clauses fire, and undoes the patch."""
import json, os, re, shutil, subprocess, sys
src = sys.argv[1].rstrip("/")
sid = os.path.basename(src)
prop = sid.split("-")[0]
props = sys.argv[2:] or [prop]
log = open(os.path.join(src, "verify.log")).read()
m = re.search(r"RESULT demo_clean=(\d+) demo_changed=(\d+) tests: (.*)", log)
assert m, "no RESULT line"
clean, changed, tests = int(m.group(1)), int(m.group(2)), m.group(3).strip()
ok = clean == 0 and changed != 0 and "passed" in tests and "failed" not in tests
if not ok:
    print("NOT CONFIRMED:", sid, m.group(0)); sys.exit(1)
wt = "/tmp/wt/keep-%d" % os.getpid()
subprocess.check_call(["git", "-C", "/repo", "worktree", "add", "--detach", wt, "HEAD"], stdout=subprocess.DEVNULL, stderr=subprocess.DEVNULL)
caught = {}
try:
    subprocess.check_call(["git", "-C", wt, "apply", os.path.join(src, "patch.diff")])
    for p in props:
        r = subprocess.run(["./check", p, "--no-evidence", "--repo", wt], cwd="/verif", capture_output=True, text=True)
        cl = sorted(set(re.findall(r"clause=(\S+)", r.stdout)))
        caught[p] = {"exit": r.returncode, "clauses": cl}
finally:
    subprocess.call(["git", "-C", "/repo", "worktree", "remove", "--force", wt])
dst = os.path.join("/verif/seeded", sid)
os.makedirs(dst, exist_ok=True)
shutil.copy(os.path.join(src, "patch.diff"), dst)
shutil.copy(os.path.join(src, "demo.py"), dst)
notes = open(os.path.join(src, "notes.md")).read() if os.path.exists(os.path.join(src, "notes.md")) else ""
meta = {
    "id": sid, "property": prop,
    "origin": "independent sub-agent given only the property text and its own scratch worktree",
    "what_it_needs_to_manifest_and_notes": notes.strip(),
    "confirmed_by_me": {"demo_exit_on_clean_tree": clean, "demo_exit_with_change": changed, "existing_tests_with_change": tests,
                        "how": "tools/verify_seed.sh in a scratch worktree of /repo HEAD (%s)" % subprocess.check_output(["git", "-C", "/repo", "log", "--format=%h", "-1"]).decode().strip()},
    "checks": caught,
    "detected": any(v["exit"] == 1 for v in caught.values()),
}
json.dump(meta, open(os.path.join(dst, "meta.json"), "w"), indent=1)
print(sid, "kept; detected=%s" % meta["detected"], {k: v["clauses"] for k, v in caught.items()})
