#!/bin/sh
# verify every /tmp/wt/out/<seed> that has no verify.log yet (sequentially)
for d in /tmp/wt/out/*-[de]-*/; do
  d=${d%/}; [ -f "$d/patch.diff" ] || continue; [ -f "$d/verify.log" ] && continue
  case $(basename "$d") in
    C01*|C04*|C09*|C16*|C17*|C15*) t="joblib/test/test_parallel.py joblib/test/test_config.py";;
    C02*|C05*|C06*|C11*|C12*|C18*) t="joblib/test/test_memory.py joblib/test/test_store_backends.py joblib/test/test_disk.py joblib/test/test_func_inspect.py joblib/test/test_hashing.py";;
    C07*) t="joblib/test/test_func_inspect.py joblib/test/test_memory.py";;
    C08*) t="joblib/test/test_hashing.py joblib/test/test_memory.py";;
    C03*|C13*|C14*|C19*) t="joblib/test/test_numpy_pickle.py joblib/test/test_numpy_pickle_utils.py joblib/test/test_numpy_pickle_compat.py joblib/test/test_memory.py";;
    C10*|C20*) t="joblib/test/test_parallel.py joblib/test/test_memmapping.py";;
    *) t="";;
  esac
  echo "=== $(basename $d)"; /verif/tools/verify_seed.sh "$d" $t
done
