#!/venv/bin/python
"""Show what the checks say about one variant of tools/mutation_scan.py: tools/mut_one.py <relpath> <lineno> [del|negate]"""
import ast, os, sys
HERE = os.path.dirname(os.path.dirname(os.path.abspath(__file__)))
sys.path.insert(0, HERE); sys.path.insert(0, os.path.join(HERE, "tools"))
import mutation_scan as ms
from sa.cli import run_property
from sa.refactor_fuzz import FILE_PROPS, functions
rel, lineno = sys.argv[1], int(sys.argv[2]); kind = sys.argv[3] if len(sys.argv) > 3 else "del"
src = open(os.path.join("/repo", rel)).read()
for q, fn in functions(ast.parse(src)):
    for k, st in ms.sites(fn, kind):
        if ms.site_line(k, st) == lineno:
            new = ms.make(src, kind, st)
            for p in FILE_PROPS[rel]:
                code, ctx = run_property(p, "/repo", "quick", overrides={rel: new}, quiet=False, write_evidence=False, known=[])
                print("==", p, code)
