#!/venv/bin/python
"""Regenerate MANIFEST.json from the rule modules present under sa/rules.

Properties without a rule module are listed under not_applicable with the
reason recorded in NOT_CLAIMED below.
"""
import json
import os
import sys

HERE = os.path.dirname(os.path.dirname(os.path.abspath(__file__)))
sys.path.insert(0, HERE)
from sa.rules import ALL, load  # noqa: E402

NOT_CLAIMED = {}
DEFAULT_REASON = "no static clause built yet for this property (work in progress; see DESIGN.md section 5)"

baseline = json.load(open("/root/.vp/BASELINE.json"))["cmd"] if os.path.exists("/root/.vp/BASELINE.json") else \
    "cd /repo && /venv/bin/python -m pytest -ra -q -p no:cacheprovider --timeout=900 --continue-on-collection-errors --junitxml=<file>"

checks, na = [], []
for pid in ALL:
    m = load(pid)
    if m is None or getattr(m, "NOT_APPLICABLE", None):
        na.append({"property_id": pid, "reason": getattr(m, "NOT_APPLICABLE", None) or NOT_CLAIMED.get(pid, DEFAULT_REASON)})
        continue
    checks.append({
        "property_id": pid,
        "quick_cmd": "./check %s --tier quick" % pid,
        "thorough_cmd": "./check %s --tier thorough" % pid,
        "evidence_file": "/verif/evidence/%s.json" % pid,
        "replay_cmd_template": "./check %s --replay {path}" % pid,
        "engine": "sa",
        "level_claimed": {
            "category": "other",
            "text": getattr(m, "LEVEL_TEXT", None) or (
                "Static analysis of the current source (ast + hand-built CFG, dominator-style path queries, call "
                "resolution, lock sets). Decides named structural clauses that are necessary conditions of the "
                "property and hold on every path of the code; it does NOT decide the behaviour itself. " + m.EXPLANATION +
                " Plus <id>.TOTAL: every function of the property's anchor files is executable on every path (no undefined name, no local read without a reaching binding, no attribute or return value lost w.r.t. the pinned tree)."),
            "design_ref": "DESIGN.md section 5, %s" % pid,
        },
        "level_note": "Trusted: CPython's ast module, the statement-level CFG construction in sa/cfg.py, the hand-confirmed "
                      "attribute-type table in sa/resolve.py, and per-clause assumptions: " + "; ".join(m.ASSUMPTIONS),
        "technique": getattr(m, "TECHNIQUE", "static analysis: AST/CFG path rules (must-precede, must-follow, lock-set, who-may-call, table agreement, guard facts with polarity, finite fact tables folded over the code's own tests) on a semantically normalised tree + reaching-definitions / return-totality over the anchor files"),
    })

man = {
    "version": 1,
    "setup_cmd": "true",
    "hooks": {
        "guard": "JOBLIB_VERIF",
        "enable": "no hooks: the analysers only read /repo's source files; nothing in /repo is instrumented",
        "baseline_off_cmd": baseline,
        "source_commits": [],
        "add_only": True,
    },
    "engines": [{
        "name": "sa",
        "path": "/verif/sa",
        "serves_properties": [c["property_id"] for c in checks],
        "kind_free_text": "repository-specific static analysers over Python ast (stdlib only): loader with semantic normalisation towards the "
                          "pinned shapes (new helpers inlined, new locals propagated, branch orientation), statement CFG with "
                          "reachability-based dominance queries and atomic guard facts, finite fact tables folded over the code's own "
                          "tests, intra-package call resolution, lock-set and dataflow helpers, one rule module per property",
    }],
    "checks": checks,
    "not_applicable": na,
    "notes": "All checks are static: they parse /repo/joblib on every run and never import or execute it. Exit 0 = all clauses "
             "discharged; exit 1 + VIOLATION line = a specific construct breaks a clause; exit 2 + ANALYSIS-ERROR = an anchored "
             "mechanism can no longer be recognised (never a silent pass). Known findings: /verif/known_findings.json.",
}
with open(os.path.join(HERE, "MANIFEST.json"), "w") as f:
    json.dump(man, f, indent=1)
print("MANIFEST.json: %d checks, %d not_applicable" % (len(checks), len(na)))
