#!/bin/sh
# Re-runs every kept seed (and, with "all", every seed under /tmp/wt/out) against the checks of its property;
# prints the ones that are NOT reported as a violation (exit 1).
dirs="/verif/seeded/*/"
[ "$1" = "all" ] && dirs="$dirs /tmp/wt/out/*/"
n=0; bad=0
for d in $dirs; do
  d=${d%/}; [ -f "$d/patch.diff" ] || continue
  id=$(basename "$d"); p=${id%%-*}
  r=$(/verif/tools/try_seed.sh "$d" "$p" | grep -E "^== " | head -1)
  n=$((n+1))
  case "$r" in *"exit=1"*) ;; *) echo "NOT DETECTED: $id ($r)"; bad=$((bad+1));; esac
done
echo "seeds regress: $n seeds, $bad not detected"
