#!/bin/sh
# Re-runs every kept seed (and, with "all", every seed under /tmp/wt/out) against the checks of its property, 8 at a
# time (each in its own scratch worktree); prints the ones that are NOT reported as a violation (exit 1).
dirs="/verif/seeded/*/"
[ "$1" = "all" ] && dirs="$dirs /tmp/wt/out/*/"
one() {
  d=${1%/}; [ -f "$d/patch.diff" ] || exit 0
  id=$(basename "$d"); p=${id%%-*}
  r=$(/verif/tools/try_seed.sh "$d" "$p" | grep -E "^== " | head -1)
  case "$r" in *"exit=1"*) echo "ok $id";; *) echo "NOT DETECTED: $id ($r)";; esac
}
if [ "$1" = "--one" ]; then one "$2"; exit 0; fi
out=$(ls -d $dirs | xargs -P 8 -n 1 "$0" --one)
echo "$out" | grep "NOT DETECTED"
echo "seeds regress: $(echo "$out" | grep -c .) seeds, $(echo "$out" | grep -c 'NOT DETECTED') not detected"
