#!/bin/sh
# usage: tools/verify_seed.sh <seed dir> [pytest targets...]
# Confirms a seeded change in a scratch worktree of /repo HEAD (never in /repo):
#  1. patch applies, package imports   2. demo fails with the change   3. demo passes without it
#  4. the given test modules (default: whole suite) pass with the change.
# Writes <seed dir>/verify.log ; removes the worktree afterwards.
d=$(cd "$1" && pwd); shift
wt=/tmp/wt/verify-$(basename "$d")-$$
git -C /repo worktree add --detach "$wt" HEAD >/dev/null 2>&1 || { echo "cannot create worktree"; exit 2; }
trap 'git -C /repo worktree remove --force "$wt" >/dev/null 2>&1' EXIT
log="$d/verify.log"; : > "$log"
cd "$wt" || exit 2
run_demo() { (cd "$wt" && PYTHONPATH="$wt" timeout 180 /venv/bin/python "$d/demo.py" >>"$log" 2>&1); }
echo "## clean tree demo" >>"$log"; run_demo; c0=$?
git apply "$d/patch.diff" || { echo "APPLY-FAIL" | tee -a "$log"; exit 1; }
PYTHONPATH="$wt" /venv/bin/python -c "import joblib" >>"$log" 2>&1 || { echo "IMPORT-FAIL" | tee -a "$log"; exit 1; }
echo "## changed tree demo" >>"$log"; run_demo; c1=$?
echo "## tests with the change: ${*:-full suite}" >>"$log"
(cd "$wt" && timeout 3000 /venv/bin/python -m pytest -q -p no:cacheprovider --basetemp=.bt --timeout=900 --continue-on-collection-errors ${*:-} 2>&1 | grep -aE "^(FAILED|ERROR) |[0-9]+ (passed|failed)" | sed 's/\x1b\[[0-9;]*m//g' | tail -8 >>"$log"); 
tests=$(grep -aE "[0-9]+ (passed|failed)" "$log" | tail -1)
echo "RESULT demo_clean=$c0 demo_changed=$c1 tests: $tests" | tee -a "$log"
