#!/venv/bin/python
"""Freeze the (clause, construct) pairs of every property's thorough run on the current tree."""
import json, os, sys
HERE = os.path.dirname(os.path.dirname(os.path.abspath(__file__)))
sys.path.insert(0, HERE)
from sa.cli import run_property
from sa.rules import ALL
out = {}
for pid in ALL:
    code, ctx = run_property(pid, "/repo", "quick", quiet=True, write_evidence=False)
    assert code == 0, (pid, code)
    out[pid] = sorted({(o.clause, o.key) for o in ctx.obs})
os.makedirs(os.path.join(HERE, "reference"), exist_ok=True)
json.dump(out, open(os.path.join(HERE, "reference", "instances.json"), "w"), indent=0)
print({k: len(v) for k, v in out.items()})
