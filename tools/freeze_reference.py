#!/venv/bin/python
"""Freeze the (clause, construct) pairs of every property's thorough run on the current tree."""
import json, os, sys
HERE = os.path.dirname(os.path.dirname(os.path.abspath(__file__)))
sys.path.insert(0, HERE)
from sa.cli import run_property
from sa.rules import ALL
from sa import localnames
from sa.core import Repo
# (1) local-name signatures of every function (written first: the instance table below is computed with it in place)
localnames._ref = {}
from sa import normalise
normalise._ref_funcs = {}
normalise._ref_globals = {}
repo = Repo("/repo")
funcs = {rel: sorted(m.funcs) for rel, m in repo.modules.items()}
os.makedirs(os.path.join(HERE, "reference"), exist_ok=True)
json.dump(funcs, open(os.path.join(HERE, "reference", "functions.json"), "w"), indent=0, sort_keys=True)
normalise._ref_funcs = None
normalise._ref_globals = None
import ast as _ast0
globs = {rel: sorted({t.id for st in m.tree.body if isinstance(st, (_ast0.Assign, _ast0.AnnAssign)) for t in (st.targets if isinstance(st, _ast0.Assign) else [st.target]) for t in _ast0.walk(t) if isinstance(t, _ast0.Name)}
                     | {a.asname or a.name.split(".")[0] for st in _ast0.walk(m.tree) if isinstance(st, (_ast0.Import, _ast0.ImportFrom)) for a in st.names}
                     | {st.name for st in m.tree.body if isinstance(st, (_ast0.FunctionDef, _ast0.ClassDef, _ast0.AsyncFunctionDef))})
         for rel, m in repo.modules.items()}
json.dump(globs, open(os.path.join(HERE, "reference", "globals.json"), "w"), indent=0, sort_keys=True)
from sa.core import unparse
import ast as _ast
tests = {}
for rel, m in repo.modules.items():
    d = {}
    for q, fn in m.funcs.items():
        ts = sorted({str(unparse(n.test, 400)) for n in _ast.walk(fn) if isinstance(n, (_ast.If, _ast.While))})
        if ts:
            d[q] = ts
    if d:
        tests[rel] = d
json.dump(tests, open(os.path.join(HERE, "reference", "tests.json"), "w"), indent=0, sort_keys=True)
loc = {}
for rel, m in repo.modules.items():
    if "externals/cloudpickle" in rel:
        continue
    d = {q: localnames.keyed(fn) for q, fn in m.funcs.items()}
    d = {q: v for q, v in d.items() if v}
    if d:
        loc[rel] = d
os.makedirs(os.path.join(HERE, "reference"), exist_ok=True)
json.dump(loc, open(os.path.join(HERE, "reference", "locals.json"), "w"), indent=0, sort_keys=True)
localnames._ref = None
print("locals.json: %d files, %d functions, %d locals" % (len(loc), sum(len(v) for v in loc.values()), sum(len(x) for v in loc.values() for x in v.values())))
from sa.rules import total
t = total.freeze(Repo("/repo"))
print("total.json: %d stored self-attributes, %d value-total functions" % (len(t["self_attrs"]), len(t["value_total"])))
out = {}
for pid in ALL:
    code, ctx = run_property(pid, "/repo", "quick", quiet=True, write_evidence=False)
    assert code == 0, (pid, code)
    out[pid] = sorted({(o.clause, o.key) for o in ctx.obs})
os.makedirs(os.path.join(HERE, "reference"), exist_ok=True)
json.dump(out, open(os.path.join(HERE, "reference", "instances.json"), "w"), indent=0)
print({k: len(v) for k, v in out.items()})
