#!/bin/sh
# usage: tools/verify_round.sh <round letter> [-P n]   -- verify every complete /tmp/wt/out/<id>-<round>-<k> that has no
# verify.log yet: test modules are chosen from the files the patch touches (union), n seeds at a time (default 3).
r="$1"; par=${3:-3}
one() {
  d=${1%/}; [ -f "$d/patch.diff" ] && [ -f "$d/demo.py" ] && [ -f "$d/notes.md" ] || exit 0; [ -f "$d/verify.log" ] && exit 0
  t=""
  files=$(grep -E '^\+\+\+ b/' "$d/patch.diff" | sed 's|^+++ b/||')
  for f in $files; do
    case "$f" in
      joblib/parallel.py|joblib/_parallel_backends.py|joblib/_utils.py|joblib/externals/loky/*|joblib/pool.py|joblib/executor.py|joblib/_memmapping_reducer.py|joblib/_multiprocessing_helpers.py)
         t="$t joblib/test/test_parallel.py joblib/test/test_memmapping.py joblib/test/test_config.py joblib/test/test_utils.py";;
      joblib/memory.py|joblib/_store_backends.py|joblib/disk.py|joblib/func_inspect.py|joblib/hashing.py|joblib/backports.py|joblib/logger.py)
         t="$t joblib/test/test_memory.py joblib/test/test_memory_async.py joblib/test/test_store_backends.py joblib/test/test_disk.py joblib/test/test_func_inspect.py joblib/test/test_hashing.py joblib/test/test_backports.py";;
      joblib/compressor.py|joblib/numpy_pickle*.py)
         t="$t joblib/test/test_numpy_pickle.py joblib/test/test_numpy_pickle_utils.py joblib/test/test_numpy_pickle_compat.py joblib/test/test_memory.py";;
      *) t="$t joblib/test";;
    esac
  done
  t=$(echo $t | tr ' ' '\n' | sort -u | while read m; do [ -e "/repo/$m" ] && echo $m; done | tr '\n' ' ')
  echo "=== $(basename $d): $(/verif/tools/verify_seed.sh "$d" $t | tail -1)"
}
if [ "$1" = "--one" ]; then one "$2"; exit 0; fi
ls -d /tmp/wt/out/*-$r-*/ 2>/dev/null | xargs -P $par -n 1 "$0" --one
