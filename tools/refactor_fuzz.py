#!/venv/bin/python
"""launcher: see sa/refactor_fuzz.py"""
import os, sys
sys.path.insert(0, os.path.dirname(os.path.dirname(os.path.abspath(__file__))))
from sa.refactor_fuzz import main
sys.exit(main())
