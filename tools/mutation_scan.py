#!/venv/bin/python
"""Mutation scan (checker sensitivity at scale): for every simple statement of the analysed functions build an
in-memory variant with the statement deleted (-> pass), and for every `if` a variant with the test negated; run the
checks of the properties that read the file; list the variants NO check reports. Not every such variant breaks a
property (logging, messages, optimisations) - the list is triage material for new clauses, not a verdict.

usage: tools/mutation_scan.py [--file relpath] [--func qualname-prefix] [--kinds del,negate]
"""
import ast, json, os, sys
from concurrent.futures import ProcessPoolExecutor
HERE = os.path.dirname(os.path.dirname(os.path.abspath(__file__)))
sys.path.insert(0, HERE)
from sa.cli import run_property
from sa.refactor_fuzz import FILE_PROPS, functions, apply_edits

ROOT = "/repo"
SKIP_CALLS = ("warnings.warn", "mp.util.debug", "mp.util.info", "util.debug", "print", "self._print", "self.warn", "self.info", "LOGGER.critical", "logging.basicConfig")


def simple_statements(fn):
    out = []
    def rec(stmts):
        for st in stmts:
            if isinstance(st, (ast.FunctionDef, ast.AsyncFunctionDef, ast.ClassDef)):
                continue
            if isinstance(st, (ast.Assign, ast.AugAssign, ast.AnnAssign, ast.Expr, ast.Return, ast.Raise, ast.Delete, ast.Break, ast.Continue)):
                if isinstance(st, ast.Expr) and isinstance(st.value, ast.Constant):
                    continue
                if isinstance(st, ast.Expr) and isinstance(st.value, ast.Call):
                    try:
                        nm = ast.unparse(st.value.func)
                    except Exception:
                        nm = ""
                    if nm in SKIP_CALLS:
                        continue
                out.append(("del", st))
            for f in ("body", "orelse", "finalbody"):
                b = getattr(st, f, None)
                if isinstance(b, list) and b and isinstance(b[0], ast.stmt):
                    rec(b)
            if isinstance(st, ast.Try):
                for h in st.handlers:
                    rec(h.body)
            if isinstance(st, (ast.If, ast.While)) and not isinstance(st.test, ast.Constant):
                out.append(("negate", st))
    rec(fn.body)
    return out


CMP_SWAP = {ast.Lt: "<=", ast.LtE: "<", ast.Gt: ">=", ast.GtE: ">", ast.Eq: "!=", ast.NotEq: "==", ast.Is: "is not", ast.IsNot: "is", ast.In: "not in", ast.NotIn: "in"}


def expression_sites(fn):
    """further mutation operators, one site each: ("cmpop", Compare) boundary/negated operator; ("boolop", BoolOp)
    and<->or; ("const", Constant) int n -> n+1, bool flipped; ("unlock", With) lock context dropped;
    ("handler", ExceptHandler) caught type replaced by an unrelated one; ("swap", stmt) statement swapped with the next"""
    out = []
    def visit(node):
        for ch in ast.iter_child_nodes(node):
            if isinstance(ch, (ast.FunctionDef, ast.AsyncFunctionDef, ast.ClassDef, ast.Lambda)):
                continue
            if isinstance(ch, ast.Compare) and len(ch.ops) == 1 and type(ch.ops[0]) in CMP_SWAP:
                out.append(("cmpop", ch))
            if isinstance(ch, ast.BoolOp):
                out.append(("boolop", ch))
            if isinstance(ch, ast.Constant) and (isinstance(ch.value, bool) or (isinstance(ch.value, int) and abs(ch.value) < 1000)) and ch.value is not None:
                if not (isinstance(node, ast.Expr)):
                    out.append(("const", ch))
            if isinstance(ch, (ast.With, ast.AsyncWith)) and any("lock" in ast.unparse(i.context_expr).lower() for i in ch.items) and len(ch.items) == 1:
                out.append(("unlock", ch))
            if isinstance(ch, ast.ExceptHandler) and ch.type is not None:
                out.append(("handler", ch))
            visit(ch)
    visit(fn)
    def blocks(node):
        for f in ("body", "orelse", "finalbody"):
            b = getattr(node, f, None)
            if isinstance(b, list) and b and isinstance(b[0], ast.stmt):
                yield b
        if isinstance(node, ast.Try):
            for h in node.handlers:
                yield h.body
    def rec(node):
        for b in blocks(node):
            for i in range(len(b) - 1):
                a, c = b[i], b[i + 1]
                simple = (ast.Assign, ast.AugAssign, ast.Expr)
                if isinstance(a, simple) and isinstance(c, simple) and not (isinstance(a, ast.Expr) and isinstance(a.value, ast.Constant)):
                    out.append(("swap", (a, c)))
            for st in b:
                if not isinstance(st, (ast.FunctionDef, ast.AsyncFunctionDef, ast.ClassDef)):
                    rec(st)
    rec(fn)
    return out


def make_expr(src, kind, site):
    seg = lambda n: ast.get_source_segment(src, n)
    if kind == "cmpop":
        l, r = seg(site.left), seg(site.comparators[0])
        if l is None or r is None:
            return None
        return apply_edits(src, [(site.lineno, site.col_offset, site.end_lineno, site.end_col_offset, "%s %s %s" % (l, CMP_SWAP[type(site.ops[0])], r))])
    if kind == "boolop":
        parts = [seg(v) for v in site.values]
        if any(p_ is None for p_ in parts):
            return None
        op = " or " if isinstance(site.op, ast.And) else " and "
        return apply_edits(src, [(site.lineno, site.col_offset, site.end_lineno, site.end_col_offset, "(" + op.join("(%s)" % p_ for p_ in parts) + ")")])
    if kind == "const":
        v = site.value
        new = repr(not v) if isinstance(v, bool) else repr(v + 1)
        return apply_edits(src, [(site.lineno, site.col_offset, site.end_lineno, site.end_col_offset, new)])
    if kind == "unlock":
        it = site.items[0]
        line = src.splitlines()[site.lineno - 1]
        if not line.strip().startswith("with ") or site.body[0].lineno == site.lineno:
            return None
        # replace the header (up to the colon before the body) by `if True:`
        hdr_end_line = site.body[0].lineno - 1
        lines = src.splitlines(keepends=True)
        k = hdr_end_line - 1
        while k >= site.lineno - 1 and not lines[k].rstrip().endswith(":"):
            k -= 1
        if k < site.lineno - 1:
            return None
        return apply_edits(src, [(site.lineno, site.col_offset, k + 1, len(lines[k].rstrip()), "if True:")])
    if kind == "handler":
        t = site.type
        cur = ast.unparse(t)
        new = "KeyError" if "KeyError" not in cur else "ValueError"
        return apply_edits(src, [(t.lineno, t.col_offset, t.end_lineno, t.end_col_offset, new)])
    if kind == "swap":
        a, c = site
        sa_, sc = seg(a), seg(c)
        if sa_ is None or sc is None or a.col_offset != c.col_offset:
            return None
        lines = src.splitlines()
        if lines[a.lineno - 1][: a.col_offset].strip() or lines[c.lineno - 1][: c.col_offset].strip():
            return None
        return apply_edits(src, [(a.lineno, a.col_offset, a.end_lineno, a.end_col_offset, sc), (c.lineno, c.col_offset, c.end_lineno, c.end_col_offset, sa_)])
    return None


EXPR_KINDS = ("cmpop", "boolop", "const", "unlock", "handler", "swap")


def sites(fn, kind):
    if kind in EXPR_KINDS:
        return [s for s in expression_sites(fn) if s[0] == kind]
    return [s for s in simple_statements(fn) if s[0] == kind]


def site_line(kind, st):
    if kind == "swap":
        return st[0].lineno
    return st.lineno


def site_text(kind, st):
    if kind == "swap":
        return ast.unparse(st[0])[:40] + " <-> " + ast.unparse(st[1])[:40]
    if kind == "negate":
        return ast.unparse(st.test)
    if kind == "unlock":
        return "with " + ast.unparse(st.items[0].context_expr)
    if kind == "handler":
        return "except " + ast.unparse(st.type)
    return ast.unparse(st)


def make(src, kind, st):
    if kind in EXPR_KINDS:
        return make_expr(src, kind, st)
    lines = src.splitlines(keepends=True)
    if kind == "del":
        ind = " " * st.col_offset
        line = lines[st.lineno - 1]
        if line[: st.col_offset].strip():
            return None
        end_col = len(lines[st.end_lineno - 1].rstrip("\n"))
        return apply_edits(src, [(st.lineno, st.col_offset, st.end_lineno, st.end_col_offset, "pass")])
    if kind == "negate":
        t = st.test
        seg = ast.get_source_segment(src, t)
        if seg is None:
            return None
        return apply_edits(src, [(t.lineno, t.col_offset, t.end_lineno, t.end_col_offset, "(not (%s))" % seg)])


def job(a):
    rel, q, kind, idx, props = a
    src = open(os.path.join(ROOT, rel), encoding="utf-8").read()
    fn = dict(functions(ast.parse(src)))[q]
    sts = sites(fn, kind)
    k, st = sts[idx]
    try:
        new = make(src, kind, st)
    except Exception:
        new = None
    desc = "%s:%d %s" % (rel, site_line(kind, st), " ".join(site_text(kind, st).split())[:90])
    if new is None:
        return (rel, q, kind, desc, "skip", [])
    try:
        ast.parse(new)
    except SyntaxError:
        return (rel, q, kind, desc, "skip", [])
    hit = []
    sys.stdout = open(os.devnull, "w")
    try:
        for p in props:
            code, ctx = run_property(p, ROOT, "quick", overrides={rel: new}, quiet=True, write_evidence=False, known=[])
            if code != 0:
                hit.append((p, code))
    finally:
        sys.stdout = sys.__stdout__
    return (rel, q, kind, desc, "caught" if any(c == 1 for _, c in hit) else ("error" if hit else "MISSED"), hit, idx)


def main():
    args = sys.argv[1:]
    only_file = only_func = None
    kinds = ["del", "negate"]
    if "--file" in args:
        i = args.index("--file"); only_file = args[i + 1]
    if "--func" in args:
        i = args.index("--func"); only_func = args[i + 1]
    if "--kinds" in args:
        i = args.index("--kinds"); kinds = args[i + 1].split(",")
    jobs = []
    for rel, props in FILE_PROPS.items():
        if only_file and rel != only_file:
            continue
        src = open(os.path.join(ROOT, rel), encoding="utf-8").read()
        for q, fn in functions(ast.parse(src)):
            if only_func and not q.startswith(only_func):
                continue
            for kind in kinds:
                n = len(sites(fn, kind))
                for i in range(n):
                    jobs.append((rel, q, kind, i, props))
    with ProcessPoolExecutor(16) as ex:
        res = list(ex.map(job, jobs, chunksize=4))
    tot = [r for r in res if r[4] != "skip"]
    missed = [r for r in tot if r[4] == "MISSED"]
    err = [r for r in tot if r[4] == "error"]
    for r in missed:
        print("MISSED %-7s %s  [%s]" % (r[2], r[3], r[1]))
    for r in err:
        print("ERR    %-7s %s  [%s] %s" % (r[2], r[3], r[1], r[5]))
    print("mutation scan: %d variants, %d caught, %d analysis-error only, %d missed" % (len(tot), sum(1 for r in tot if r[4] == "caught"), len(err), len(missed)))
    out = args[args.index("--out") + 1] if "--out" in args else "/tmp/w/mutation_scan.json"
    json.dump([list(r) for r in tot], open(out, "w"))


if __name__ == "__main__":
    main()
