#!/venv/bin/python
"""Mutation scan (checker sensitivity at scale): for every simple statement of the analysed functions build an
in-memory variant with the statement deleted (-> pass), and for every `if` a variant with the test negated; run the
checks of the properties that read the file; list the variants NO check reports. Not every such variant breaks a
property (logging, messages, optimisations) - the list is triage material for new clauses, not a verdict.

usage: tools/mutation_scan.py [--file relpath] [--func qualname-prefix] [--kinds del,negate]
"""
import ast, json, os, sys
from concurrent.futures import ProcessPoolExecutor
HERE = os.path.dirname(os.path.dirname(os.path.abspath(__file__)))
sys.path.insert(0, HERE)
from sa.cli import run_property
from sa.refactor_fuzz import FILE_PROPS, functions, apply_edits

ROOT = "/repo"
SKIP_CALLS = ("warnings.warn", "mp.util.debug", "mp.util.info", "util.debug", "print", "self._print", "self.warn", "self.info", "LOGGER.critical", "logging.basicConfig")


def simple_statements(fn):
    out = []
    def rec(stmts):
        for st in stmts:
            if isinstance(st, (ast.FunctionDef, ast.AsyncFunctionDef, ast.ClassDef)):
                continue
            if isinstance(st, (ast.Assign, ast.AugAssign, ast.AnnAssign, ast.Expr, ast.Return, ast.Raise, ast.Delete, ast.Break, ast.Continue)):
                if isinstance(st, ast.Expr) and isinstance(st.value, ast.Constant):
                    continue
                if isinstance(st, ast.Expr) and isinstance(st.value, ast.Call):
                    try:
                        nm = ast.unparse(st.value.func)
                    except Exception:
                        nm = ""
                    if nm in SKIP_CALLS:
                        continue
                out.append(("del", st))
            for f in ("body", "orelse", "finalbody"):
                b = getattr(st, f, None)
                if isinstance(b, list) and b and isinstance(b[0], ast.stmt):
                    rec(b)
            if isinstance(st, ast.Try):
                for h in st.handlers:
                    rec(h.body)
            if isinstance(st, (ast.If, ast.While)) and not isinstance(st.test, ast.Constant):
                out.append(("negate", st))
    rec(fn.body)
    return out


def make(src, kind, st):
    lines = src.splitlines(keepends=True)
    if kind == "del":
        ind = " " * st.col_offset
        line = lines[st.lineno - 1]
        if line[: st.col_offset].strip():
            return None
        end_col = len(lines[st.end_lineno - 1].rstrip("\n"))
        return apply_edits(src, [(st.lineno, st.col_offset, st.end_lineno, st.end_col_offset, "pass")])
    if kind == "negate":
        t = st.test
        seg = ast.get_source_segment(src, t)
        if seg is None:
            return None
        return apply_edits(src, [(t.lineno, t.col_offset, t.end_lineno, t.end_col_offset, "(not (%s))" % seg)])


def job(a):
    rel, q, kind, idx, props = a
    src = open(os.path.join(ROOT, rel), encoding="utf-8").read()
    fn = dict(functions(ast.parse(src)))[q]
    sts = [s for s in simple_statements(fn) if s[0] == kind]
    k, st = sts[idx]
    new = make(src, kind, st)
    desc = "%s:%d %s" % (rel, st.lineno, " ".join(ast.unparse(st if kind == "del" else st.test).split())[:90])
    if new is None:
        return (rel, q, kind, desc, "skip", [])
    try:
        ast.parse(new)
    except SyntaxError:
        return (rel, q, kind, desc, "skip", [])
    hit = []
    sys.stdout = open(os.devnull, "w")
    try:
        for p in props:
            code, ctx = run_property(p, ROOT, "quick", overrides={rel: new}, quiet=True, write_evidence=False, known=[])
            if code != 0:
                hit.append((p, code))
    finally:
        sys.stdout = sys.__stdout__
    return (rel, q, kind, desc, "caught" if any(c == 1 for _, c in hit) else ("error" if hit else "MISSED"), hit)


def main():
    args = sys.argv[1:]
    only_file = only_func = None
    kinds = ["del", "negate"]
    if "--file" in args:
        i = args.index("--file"); only_file = args[i + 1]
    if "--func" in args:
        i = args.index("--func"); only_func = args[i + 1]
    if "--kinds" in args:
        i = args.index("--kinds"); kinds = args[i + 1].split(",")
    jobs = []
    for rel, props in FILE_PROPS.items():
        if only_file and rel != only_file:
            continue
        src = open(os.path.join(ROOT, rel), encoding="utf-8").read()
        for q, fn in functions(ast.parse(src)):
            if only_func and not q.startswith(only_func):
                continue
            sts = simple_statements(fn)
            for kind in kinds:
                n = sum(1 for s in sts if s[0] == kind)
                for i in range(n):
                    jobs.append((rel, q, kind, i, props))
    with ProcessPoolExecutor(16) as ex:
        res = list(ex.map(job, jobs, chunksize=4))
    tot = [r for r in res if r[4] != "skip"]
    missed = [r for r in tot if r[4] == "MISSED"]
    err = [r for r in tot if r[4] == "error"]
    for r in missed:
        print("MISSED %-6s %s  [%s]" % (r[2], r[3], r[1]))
    for r in err:
        print("ERR    %-6s %s  [%s] %s" % (r[2], r[3], r[1], r[5]))
    print("mutation scan: %d variants, %d caught, %d analysis-error only, %d missed" % (len(tot), sum(1 for r in tot if r[4] == "caught"), len(err), len(missed)))
    out = args[args.index("--out") + 1] if "--out" in args else "/tmp/w/mutation_scan.json"
    json.dump([list(r) for r in tot], open(out, "w"))


if __name__ == "__main__":
    main()
