#!/venv/bin/python
"""For the variants of tools/mutation_scan.py that no check reports (/tmp/w/mutation_scan.json), run the relevant
existing test modules on a scratch worktree with the variant applied: variants that ALSO pass the tests are realistic
hidden breakages (or harmless edits) that the checks do not see - the triage list for new clauses.

usage: tools/mutation_survivors.py [--workers 8]
"""
import ast, json, os, subprocess, sys, shutil
from concurrent.futures import ThreadPoolExecutor
import threading, queue
HERE = os.path.dirname(os.path.dirname(os.path.abspath(__file__)))
sys.path.insert(0, HERE)
sys.path.insert(0, os.path.join(HERE, "tools"))
from sa.refactor_fuzz import functions
import mutation_scan as ms

TESTS = {
    "joblib/compressor.py": "joblib/test/test_numpy_pickle.py joblib/test/test_numpy_pickle_utils.py joblib/test/test_numpy_pickle_compat.py",
    "joblib/numpy_pickle.py": "joblib/test/test_numpy_pickle.py joblib/test/test_numpy_pickle_utils.py joblib/test/test_numpy_pickle_compat.py joblib/test/test_memory.py",
    "joblib/numpy_pickle_utils.py": "joblib/test/test_numpy_pickle.py joblib/test/test_numpy_pickle_utils.py joblib/test/test_numpy_pickle_compat.py",
    "joblib/memory.py": "joblib/test/test_memory.py joblib/test/test_memory_async.py joblib/test/test_store_backends.py",
    "joblib/_store_backends.py": "joblib/test/test_memory.py joblib/test/test_store_backends.py",
    "joblib/disk.py": "joblib/test/test_disk.py joblib/test/test_memory.py",
    "joblib/func_inspect.py": "joblib/test/test_func_inspect.py joblib/test/test_memory.py",
    "joblib/hashing.py": "joblib/test/test_hashing.py joblib/test/test_memory.py",
    "joblib/parallel.py": "joblib/test/test_parallel.py joblib/test/test_config.py",
    "joblib/_parallel_backends.py": "joblib/test/test_parallel.py joblib/test/test_config.py",
    "joblib/_utils.py": "joblib/test/test_parallel.py joblib/test/test_utils.py",
    "joblib/_memmapping_reducer.py": "joblib/test/test_memmapping.py joblib/test/test_parallel.py",
    "joblib/executor.py": "joblib/test/test_memmapping.py joblib/test/test_parallel.py",
    "joblib/externals/loky/process_executor.py": "joblib/test/test_parallel.py joblib/test/test_memmapping.py",
    "joblib/externals/loky/reusable_executor.py": "joblib/test/test_parallel.py joblib/test/test_memmapping.py",
    "joblib/externals/loky/backend/resource_tracker.py": "joblib/test/test_memmapping.py joblib/test/test_parallel.py",
    "joblib/externals/loky/backend/context.py": "joblib/test/test_parallel.py",
}


def main():
    nw = 8
    if "--workers" in sys.argv:
        nw = int(sys.argv[sys.argv.index("--workers") + 1])
    src_json = sys.argv[sys.argv.index("--in") + 1] if "--in" in sys.argv else "/tmp/w/mutation_scan.json"
    data = [r for r in json.load(open(src_json)) if r[4] in ("MISSED", "error")]
    wts = queue.Queue()
    made = []
    for k in range(nw):
        wt = "/tmp/wt/ms-%s-%d" % (os.path.basename(src_json).replace(".json", "").replace(".", "_"), k)   # no dot: a test of test_memory.py is sensitive to dots in the path
        subprocess.run(["git", "-C", "/repo", "worktree", "remove", "--force", wt], capture_output=True)
        subprocess.check_call(["git", "-C", "/repo", "worktree", "add", "--detach", wt, "HEAD"], stdout=subprocess.DEVNULL, stderr=subprocess.DEVNULL)
        wts.put(wt); made.append(wt)
    out = []
    lock = threading.Lock()

    def work(r):
        rel, q, kind, desc, status, hit = r[:6]
        src = open(os.path.join("/repo", rel), encoding="utf-8").read()
        fn = dict(functions(ast.parse(src)))[q]
        cand = ms.sites(fn, kind)
        if len(r) > 6:
            cand = cand[r[6]:r[6] + 1]
        else:
            lineno = int(desc.split(":")[1].split()[0])
            cand = [(k, st) for (k, st) in cand if ms.site_line(k, st) == lineno]
        if not cand:
            return
        new = ms.make(src, kind, cand[0][1])
        if new is None:
            return
        wt = wts.get()
        try:
            p = os.path.join(wt, rel)
            open(p, "w", encoding="utf-8").write(new)
            t = TESTS.get(rel, "")
            res = subprocess.run("cd %s && rm -rf .bt && timeout 900 /venv/bin/python -m pytest -x -q -p no:cacheprovider --timeout=300 --basetemp=.bt %s 2>&1 | grep -aE '[0-9]+ (passed|failed)|error|^FAILED|^ERROR' | tail -2 | tr '\n' ' '" % (wt, t),
                                 shell=True, capture_output=True, text=True)
            line = res.stdout.strip()
            ok = "passed" in line and "failed" not in line and "error" not in line and "FAILED" not in line and "ERROR" not in line
            with lock:
                out.append((rel, q, kind, desc, status, "SURVIVES" if ok else "killed-by-tests", line[-300:]))
                if ok:
                    print("SURVIVOR %-6s %s [%s] (%s)" % (kind, desc, q, status)); sys.stdout.flush()
        finally:
            subprocess.run(["git", "-C", wt, "checkout", "--", "."], capture_output=True)
            wts.put(wt)

    with ThreadPoolExecutor(nw) as ex:
        list(ex.map(work, data))
    for wt in made:
        subprocess.run(["git", "-C", "/repo", "worktree", "remove", "--force", wt], capture_output=True)
    n_s = sum(1 for o in out if o[5] == "SURVIVES")
    print("survivors: %d of %d unreported variants also pass the existing tests" % (n_s, len(out)))
    json.dump(out, open(src_json.replace(".json", "") + ".survivors.json", "w"))


if __name__ == "__main__":
    main()
