#!/bin/sh
# usage: tools/show_refactor.sh <id> [props...] : patch + de-duplicated alarm details of the checks on the patched tree
d=/verif/refactors/$1; shift
wt=/tmp/wt/show-$$
git -C /repo worktree add --detach "$wt" HEAD >/dev/null 2>&1 || exit 2
git -C "$wt" apply "$d/patch.diff" || echo "patch does not apply"
cd /verif
props=${*:-all}
for p in $props; do ./check $p --no-evidence --repo "$wt" 2>&1; done | grep -vE "^(VIOLATION|C[0-9]+ tier)" | sed "s|$wt/||g" | awk '!seen[$0]++' | cut -c1-400
git -C /repo worktree remove --force "$wt" >/dev/null 2>&1
