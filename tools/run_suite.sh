#!/bin/sh
# Runs the baseline test command on a scratch worktree of /repo HEAD (never in /repo), prints the summary.
wt=/tmp/wt/suite-$$
git -C /repo worktree add --detach "$wt" HEAD >/dev/null 2>&1 || exit 2
trap 'git -C /repo worktree remove --force "$wt" >/dev/null 2>&1' EXIT
cd "$wt" && /venv/bin/python -m pytest -ra -q -p no:cacheprovider --timeout=900 --continue-on-collection-errors --junitxml=/tmp/w/suite-$$.xml "$@" > /tmp/w/suite-$$.log 2>&1
echo "exit=$? commit=$(git -C /repo log --format=%h -1)"
grep -aE "^(FAILED|ERROR)|[0-9]+ passed" /tmp/w/suite-$$.log | tail -15
/venv/bin/python - <<P
import xml.etree.ElementTree as ET
r=ET.parse('/tmp/w/suite-$$.xml').getroot()
ts=r if r.tag=='testsuite' else r[0]
print({k:ts.get(k) for k in ('tests','failures','errors','skipped')})
P
