#!/bin/sh
# usage: tools/try_seed.sh <dir-with-patch.diff> [property ...]   (default: all built properties)
# Applies the patch to /repo, runs the quick checks, and undoes it straight afterwards.
d="$1"; shift
cd /repo || exit 2
if ! git diff --quiet; then echo "/repo is dirty; refusing"; exit 2; fi
git apply "$d/patch.diff" || { echo "patch does not apply"; exit 2; }
cd /verif
props="$*"
[ -n "$props" ] || props=$(/venv/bin/python -c "import json;print(' '.join(c['property_id'] for c in json.load(open('MANIFEST.json'))['checks']))")
for p in $props; do
  out=$(./check "$p" --no-evidence 2>&1); code=$?
  echo "== $p exit=$code"; echo "$out" | grep -E "^(VIOLATION|ANALYSIS-ERROR|  clause=|  construct)" | head -12
done
git -C /repo checkout -- . 
