#!/bin/sh
# usage: tools/try_seed.sh <dir-with-patch.diff> [property ...]   (default: all built properties)
# Applies the patch to a scratch worktree of /repo HEAD (so that /repo itself is never dirty while other tools read
# it), runs the quick checks with --repo on it, and removes the worktree.
d="$1"; shift
wt=/tmp/wt/try-$$
git -C /repo worktree add --detach "$wt" HEAD >/dev/null 2>&1 || { echo "cannot create worktree"; exit 2; }
trap 'git -C /repo worktree remove --force "$wt" >/dev/null 2>&1' EXIT
git -C "$wt" apply "$d/patch.diff" || { echo "patch does not apply"; exit 2; }
cd /verif
props="$*"
[ -n "$props" ] || props=$(/venv/bin/python -c "import json;print(' '.join(c['property_id'] for c in json.load(open('MANIFEST.json'))['checks']))")
for p in $props; do
  out=$(./check "$p" --no-evidence --repo "$wt" 2>&1); code=$?
  echo "== $p exit=$code"; echo "$out" | grep -E "^(VIOLATION|ANALYSIS-ERROR|  clause=|  construct)" | head -12
done
