#!/venv/bin/python
"""Run the undefined-name / unbound-local analysis of sa/rules/total.py on the checker's own sources."""
import ast, os, sys
HERE = os.path.dirname(os.path.dirname(os.path.abspath(__file__)))
sys.path.insert(0, HERE)
from sa.core import Module
from sa.rules import total
from sa import localnames
localnames._ref = {}
bad = 0
for d, _, fs in os.walk(os.path.join(HERE, "sa")):
    for f in fs:
        if f.endswith(".py"):
            p = os.path.join(d, f); rel = os.path.relpath(p, HERE)
            m = Module(rel, open(p).read())
            names, star = total.module_names(m)
            for q, fn in m.funcs.items():
                for n in total.undefined_names(m, fn, names):
                    print("%s:%d %s: undefined name %s" % (rel, n.lineno, q, n.id)); bad += 1
                for n, st in total.unbound_locals(fn):
                    print("%s:%d %s: unbound local %s" % (rel, n.lineno, q, n.id)); bad += 1
print("selflint: %d finding(s)" % bad)
sys.exit(1 if bad else 0)
