#!/bin/sh
# usage: tools/try_refactor.sh <dir-with-patch.diff> ...
# Applies each behaviour-preserving patch to a scratch worktree of /repo HEAD and runs ALL quick checks on it.
# Prints one line per (patch, property) that is NOT silent.
for d in "$@"; do
  d=${d%/}
  wt=/tmp/wt/tryr-$$
  git -C /repo worktree add --detach "$wt" HEAD >/dev/null 2>&1 || { echo "cannot create worktree"; exit 2; }
  if git -C "$wt" apply "$d/patch.diff" 2>/dev/null; then
    out=$(cd /verif && ./check all --no-evidence --repo "$wt" 2>&1)
    echo "$out" | grep -E "^(VIOLATION|ANALYSIS-ERROR|  clause=)" | sed "s|^|$(basename $d): |" | sed "s|$wt/||g" | cut -c1-260
    n=$(echo "$out" | grep -cE "^(VIOLATION|ANALYSIS-ERROR)")
    echo "== $(basename $d): $n alarms"
  else
    echo "== $(basename $d): patch does not apply"
  fi
  git -C /repo worktree remove --force "$wt" >/dev/null 2>&1
done
