"""Semantic normalisation of the analysed tree *towards the shapes of the pinned tree*.

The rules were written against the code as it is on the pinned (repaired) tree. A behaviour-preserving
refactoring must not change a verdict, so before any rule runs the loader undoes the common refactorings
whose result is not in the reference (reference/functions.json, reference/locals.json):

  aug_assign          `T = T + e`                           ->  `T += e`
  merge_nested_ifs    `if a:` / `    if b: X` (no else)     ->  `if a and b: X`
  inline_new_helpers  a call of a function/method that the reference does not know (an extracted helper) is
                      replaced by the helper's body (parameters substituted, structured returns eliminated)
  propagate_new_locals  a local variable that the reference does not know, bound once by `v = E`
                      (a named boolean, a hoisted expression, a local alias of an attribute, a return
                      temporary) is replaced by E at its uses

Each step is semantics-preserving on the program being analysed (under the stated side conditions) and the
identity on the pinned tree, which has no new helpers and no new locals. A breaking change is normalised in the
same way and stays as broken as it was: nothing here consults what a rule wants to see.
"""

import ast
import copy
import json
import os

FUNC = (ast.FunctionDef, ast.AsyncFunctionDef)
_HERE = os.path.dirname(os.path.dirname(os.path.abspath(__file__)))
_ref_funcs = None


def reference_functions():
    global _ref_funcs
    if _ref_funcs is None:
        p = os.path.join(_HERE, "reference", "functions.json")
        _ref_funcs = json.load(open(p)) if os.path.exists(p) else {}
    return _ref_funcs


_ref_tests = None
_ref_globals = None


def reference_globals():
    global _ref_globals
    if _ref_globals is None:
        p = os.path.join(_HERE, "reference", "globals.json")
        _ref_globals = json.load(open(p)) if os.path.exists(p) else {}
    return _ref_globals


def reference_tests():
    global _ref_tests
    if _ref_tests is None:
        p = os.path.join(_HERE, "reference", "tests.json")
        _ref_tests = json.load(open(p)) if os.path.exists(p) else {}
    return _ref_tests


# ---------------------------------------------------------------------------------------------------------
# small tree-wide rewrites

def aug_assign(tree):
    n_done = 0
    for n in ast.walk(tree):
        for field in ("body", "orelse", "finalbody"):
            blk = getattr(n, field, None)
            if not isinstance(blk, list):
                continue
            for i, st in enumerate(blk):
                if isinstance(st, ast.Assign) and len(st.targets) == 1 and isinstance(st.value, ast.BinOp) \
                        and isinstance(st.targets[0], (ast.Name, ast.Attribute)) \
                        and isinstance(st.value.op, (ast.Add, ast.Sub)) \
                        and _same_lvalue(st.targets[0], st.value.left):
                    tgt = st.targets[0]
                    blk[i] = ast.copy_location(ast.AugAssign(target=tgt, op=st.value.op, value=st.value.right), st)
                    n_done += 1
        if isinstance(n, ast.Try):
            for h in n.handlers:
                for i, st in enumerate(h.body):
                    if isinstance(st, ast.Assign) and len(st.targets) == 1 and isinstance(st.value, ast.BinOp) \
                            and isinstance(st.targets[0], (ast.Name, ast.Attribute)) and isinstance(st.value.op, (ast.Add, ast.Sub)) \
                            and _same_lvalue(st.targets[0], st.value.left):
                        h.body[i] = ast.copy_location(ast.AugAssign(target=st.targets[0], op=st.value.op, value=st.value.right), st)
                        n_done += 1
    return n_done


def _same_lvalue(t, e):
    if isinstance(t, ast.Name) and isinstance(e, ast.Name):
        return t.id == e.id
    if isinstance(t, ast.Attribute) and isinstance(e, ast.Attribute):
        return t.attr == e.attr and _same_lvalue(t.value, e.value)
    return False


def fstrings_to_format(tree):
    """f'{a}.x-{b!r}' -> '{}.x-{!r}'.format(a, b)  (placeholders without a format spec only): one spelling for string
    interpolation, so that rules that read the interpolated arguments see them whichever way the string is built"""
    n_done = 0

    class T(ast.NodeTransformer):
        def visit_JoinedStr(self, n):
            nonlocal n_done
            self.generic_visit(n)
            fmt, args = "", []
            for v in n.values:
                if isinstance(v, ast.Constant) and isinstance(v.value, str):
                    fmt += v.value.replace("{", "{{").replace("}", "}}")
                elif isinstance(v, ast.FormattedValue) and v.format_spec is None:
                    conv = {-1: "", 115: "!s", 114: "!r", 97: "!a"}.get(v.conversion)
                    if conv is None:
                        return n
                    fmt += "{" + conv + "}"
                    args.append(v.value)
                else:
                    return n
            if not args:
                return n
            n_done += 1
            call = ast.Call(func=ast.Attribute(value=ast.Constant(value=fmt), attr="format", ctx=ast.Load()), args=args, keywords=[])
            return ast.fix_missing_locations(ast.copy_location(call, n))

    T().visit(tree)
    return n_done


def empty_displays(tree):
    """`dict()` -> `{}`, `list()` -> `[]`, `tuple()` -> `()`, `bytes()` -> b"" (argument-less constructor calls of builtins)"""
    n_done = 0

    class T(ast.NodeTransformer):
        def visit_Call(self, n):
            nonlocal n_done
            self.generic_visit(n)
            if isinstance(n.func, ast.Name) and n.func.id == "dict" and not n.args and n.keywords and all(k.arg for k in n.keywords):
                n_done += 1
                return ast.copy_location(ast.Dict(keys=[ast.Constant(value=k.arg) for k in n.keywords], values=[k.value for k in n.keywords]), n)
            if isinstance(n.func, ast.Name) and not n.args and not n.keywords:
                new = {"dict": lambda: ast.Dict(keys=[], values=[]), "list": lambda: ast.List(elts=[], ctx=ast.Load()),
                       "tuple": lambda: ast.Tuple(elts=[], ctx=ast.Load()), "bytes": lambda: ast.Constant(value=b""), "str": lambda: ast.Constant(value="")}.get(n.func.id)
                if new is not None:
                    n_done += 1
                    return ast.copy_location(new(), n)
            return n

    T().visit(tree)
    return n_done


def attr_builtins(tree):
    """`setattr(x, "name", v)` (as a statement) -> `x.name = v` ; `getattr(x, "name")` (two arguments) -> `x.name`"""
    n_done = 0

    class T(ast.NodeTransformer):
        def visit_Expr(self, n):
            nonlocal n_done
            self.generic_visit(n)
            c = n.value
            if isinstance(c, ast.Call) and isinstance(c.func, ast.Name) and c.func.id == "setattr" and len(c.args) == 3 and not c.keywords \
                    and isinstance(c.args[1], ast.Constant) and isinstance(c.args[1].value, str) and c.args[1].value.isidentifier():
                n_done += 1
                tgt = ast.Attribute(value=c.args[0], attr=c.args[1].value, ctx=ast.Store())
                return ast.fix_missing_locations(ast.copy_location(ast.Assign(targets=[tgt], value=c.args[2], lineno=n.lineno), n))
            return n

        def visit_Call(self, n):
            nonlocal n_done
            self.generic_visit(n)
            if isinstance(n.func, ast.Name) and n.func.id == "getattr" and len(n.args) == 2 and not n.keywords \
                    and isinstance(n.args[1], ast.Constant) and isinstance(n.args[1].value, str) and n.args[1].value.isidentifier():
                n_done += 1
                return ast.fix_missing_locations(ast.copy_location(ast.Attribute(value=n.args[0], attr=n.args[1].value, ctx=ast.Load()), n))
            return n

    T().visit(tree)
    return n_done


def filter_loops(tree):
    """`for t in [v for v in ITER if COND]: BODY` -> `for t in ITER:` / `if COND[t/v]: BODY` (a filtering comprehension
    that only feeds a loop is that loop's guard)"""
    n_done = 0
    for n in ast.walk(tree):
        if isinstance(n, ast.For) and not n.orelse and isinstance(n.iter, (ast.ListComp, ast.GeneratorExp)) and len(n.iter.generators) == 1 \
                and isinstance(n.target, ast.Name):
            gen = n.iter.generators[0]
            if gen.is_async or not isinstance(gen.target, ast.Name) or not isinstance(n.iter.elt, ast.Name) or n.iter.elt.id != gen.target.id or not gen.ifs:
                continue
            cond = gen.ifs[0] if len(gen.ifs) == 1 else ast.BoolOp(op=ast.And(), values=list(gen.ifs))
            if gen.target.id != n.target.id:
                cond = _Subst({gen.target.id: ast.Name(id=n.target.id, ctx=ast.Load())}).visit(cond)
            n.iter = gen.iter
            n.body = [ast.fix_missing_locations(ast.copy_location(ast.If(test=cond, body=n.body, orelse=[]), n.body[0]))]
            n_done += 1
    return n_done


def propagate_new_globals(module, known_globals):
    """A module-level name the reference does not know, bound once at module level to a pure expression of other
    module-level names / constants (a hoisted tuple of modes, a renamed constant), is replaced by that expression."""
    if known_globals is None:
        return 0
    known_globals = set(known_globals)
    n_done = 0
    for st in list(module.tree.body):
        if isinstance(st, ast.Assign) and len(st.targets) == 1 and isinstance(st.targets[0], ast.Name) and st.targets[0].id not in known_globals:
            name = st.targets[0].id
            if name.startswith("__") or not is_pure(st.value) or isinstance(st.value, (ast.Dict, ast.List, ast.Set)):
                continue
            stores = [n for n in ast.walk(module.tree) if isinstance(n, ast.Name) and n.id == name and isinstance(n.ctx, (ast.Store, ast.Del))]
            globs = [n for n in ast.walk(module.tree) if isinstance(n, (ast.Global, ast.Nonlocal)) and name in n.names]
            # shadowing: a parameter or local of the same name in some function
            shadow = any(isinstance(n, ast.arg) and n.arg == name for n in ast.walk(module.tree))
            if len(stores) != 1 or globs or shadow:
                continue
            if any(isinstance(n, ast.Name) and n.id == name for n in ast.walk(st.value)):
                continue
            _Subst({name: st.value}).visit(module.tree)
            module.tree.body.remove(st)
            n_done += 1
    return n_done


def append_loops(tree):
    """`L = []` ; `for T in IT: L.append(E)`  ->  `L = [E for T in IT]`  (also with one guarding `if`)"""
    n_done = 0
    for holder, blk in list(_all_blocks(tree)):
        i = 0
        while i < len(blk) - 1:
            a, b = blk[i], blk[i + 1]
            ok = isinstance(a, ast.Assign) and len(a.targets) == 1 and isinstance(a.targets[0], ast.Name) and isinstance(a.value, ast.List) and not a.value.elts \
                and isinstance(b, ast.For) and not b.orelse and len(b.body) == 1
            if ok:
                L = a.targets[0].id
                inner, cond = b.body[0], None
                if isinstance(inner, ast.If) and not inner.orelse and len(inner.body) == 1:
                    cond, inner = inner.test, inner.body[0]
                app = isinstance(inner, ast.Expr) and isinstance(inner.value, ast.Call) and isinstance(inner.value.func, ast.Attribute) and inner.value.func.attr == "append" \
                    and isinstance(inner.value.func.value, ast.Name) and inner.value.func.value.id == L and len(inner.value.args) == 1 and not inner.value.keywords
                uses_L = any(isinstance(n, ast.Name) and n.id == L for n in ast.walk(b.iter)) or (cond is not None and any(isinstance(n, ast.Name) and n.id == L for n in ast.walk(cond))) \
                    or (app and any(isinstance(n, ast.Name) and n.id == L for n in ast.walk(inner.value.args[0])))
                if app and not uses_L:
                    comp = ast.ListComp(elt=inner.value.args[0], generators=[ast.comprehension(target=b.target, iter=b.iter, ifs=[cond] if cond is not None else [], is_async=0)])
                    a.value = ast.fix_missing_locations(ast.copy_location(comp, b))
                    del blk[i + 1]
                    n_done += 1
                    continue
            i += 1
    return n_done


def sum_loops(tree):
    """`x = 0` ; `for T in IT: x += E`  ->  `x = sum(E for T in IT)`"""
    n_done = 0
    for holder, blk in list(_all_blocks(tree)):
        i = 0
        while i < len(blk) - 1:
            a, b = blk[i], blk[i + 1]
            if isinstance(a, ast.Assign) and len(a.targets) == 1 and isinstance(a.targets[0], ast.Name) and isinstance(a.value, ast.Constant) and a.value.value == 0 \
                    and type(a.value.value) is int and isinstance(b, ast.For) and not b.orelse and len(b.body) == 1 and isinstance(b.body[0], ast.AugAssign) \
                    and isinstance(b.body[0].op, ast.Add) and isinstance(b.body[0].target, ast.Name) and b.body[0].target.id == a.targets[0].id \
                    and not any(isinstance(n, ast.Name) and n.id == a.targets[0].id for n in ast.walk(b.body[0].value)) \
                    and not any(isinstance(n, ast.Name) and n.id == a.targets[0].id for n in ast.walk(b.iter)):
                gen = ast.GeneratorExp(elt=b.body[0].value, generators=[ast.comprehension(target=b.target, iter=b.iter, ifs=[], is_async=0)])
                a.value = ast.fix_missing_locations(ast.copy_location(ast.Call(func=ast.Name(id="sum", ctx=ast.Load()), args=[gen], keywords=[]), b))
                del blk[i + 1]
                n_done += 1
                continue
            i += 1
    return n_done


def sort_method_to_sorted(tree):
    """`L = [e for ...]` (or `list(E)`) directly followed by `L.sort()` -> `L = sorted(e for ...)` (resp. `sorted(E)`)"""
    n_done = 0
    for holder, blk in list(_all_blocks(tree)):
        i = 0
        while i < len(blk) - 1:
            a, b = blk[i], blk[i + 1]
            if isinstance(a, ast.Assign) and len(a.targets) == 1 and isinstance(a.targets[0], ast.Name) and isinstance(b, ast.Expr) and isinstance(b.value, ast.Call) \
                    and isinstance(b.value.func, ast.Attribute) and b.value.func.attr == "sort" and isinstance(b.value.func.value, ast.Name) \
                    and b.value.func.value.id == a.targets[0].id and not b.value.args:
                v = a.value
                src = None
                if isinstance(v, ast.ListComp):
                    src = ast.GeneratorExp(elt=v.elt, generators=v.generators)
                elif isinstance(v, ast.Call) and isinstance(v.func, ast.Name) and v.func.id == "list" and len(v.args) == 1 and not v.keywords:
                    src = v.args[0]
                if src is not None:
                    a.value = ast.fix_missing_locations(ast.copy_location(ast.Call(func=ast.Name(id="sorted", ctx=ast.Load()), args=[src], keywords=list(b.value.keywords)), v))
                    del blk[i + 1]
                    n_done += 1
                    continue
            i += 1
    return n_done


def merge_nested_ifs(tree):
    """`if a: (only statement) if b: X`, neither with an else -> `if a and b: X` (innermost first)."""
    n_done = 0
    changed = True
    while changed:
        changed = False
        for n in ast.walk(tree):
            if isinstance(n, ast.If) and not n.orelse and len(n.body) == 1 and isinstance(n.body[0], ast.If) and not n.body[0].orelse:
                inner = n.body[0]
                vals = []
                for t in (n.test, inner.test):
                    if isinstance(t, ast.BoolOp) and isinstance(t.op, ast.And):
                        vals.extend(t.values)
                    else:
                        vals.append(t)
                n.test = ast.copy_location(ast.BoolOp(op=ast.And(), values=vals), n.test)
                n.body = inner.body
                n_done += 1
                changed = True
    return n_done


# ---------------------------------------------------------------------------------------------------------
# helpers

def _own_nodes(fn):
    stack = list(fn.body)
    while stack:
        n = stack.pop()
        yield n
        if isinstance(n, FUNC + (ast.Lambda, ast.ClassDef)):
            continue
        stack.extend(ast.iter_child_nodes(n))


def _blocks_of(node):
    for f in ("body", "orelse", "finalbody"):
        b = getattr(node, f, None)
        if isinstance(b, list) and b and isinstance(b[0], ast.stmt):
            yield b
    if isinstance(node, ast.Try):
        for h in node.handlers:
            yield h.body
    if hasattr(ast, "Match") and isinstance(node, getattr(ast, "Match")):
        for c in node.cases:
            yield c.body


_PURE_DOTTED = {"os.path.join", "os.path.basename", "os.path.dirname", "os.path.splitext", "os.path.normpath", "os.path.abspath", "os.fspath"}
_PURE_CALLS = {"isinstance", "issubclass", "len", "hasattr", "getattr", "type", "callable", "bool", "int", "float", "str",
               "tuple", "frozenset", "min", "max", "abs", "id", "repr"}


def split_tuple_assign(tree):
    """`a, b = X, Y` -> `a = X` ; `b = Y` for plain local names on the left and as many names / attribute chains on the right (the alias idiom), none of
    which mentions a target (so the values are the same whether all of them or only the earlier ones were evaluated before
    a target is bound; binding a local has no effect of its own)."""
    n = 0
    for node in ast.walk(tree):
        for fld in ("body", "orelse", "finalbody"):
            blk = getattr(node, fld, None)
            if not (isinstance(blk, list) and blk and isinstance(blk[0], ast.stmt)):
                continue
            out = []
            for st in blk:
                if isinstance(st, ast.Assign) and len(st.targets) == 1 and isinstance(st.targets[0], ast.Tuple) and isinstance(st.value, ast.Tuple) \
                        and len(st.targets[0].elts) == len(st.value.elts) and all(isinstance(t, ast.Name) for t in st.targets[0].elts) \
                        and all(isinstance(v, (ast.Name, ast.Attribute)) and _chain(v) is not None for v in st.value.elts):
                    tn = {t.id for t in st.targets[0].elts}
                    if len(tn) == len(st.targets[0].elts) and not any(isinstance(x, ast.Name) and x.id in tn for v in st.value.elts for x in ast.walk(v)):
                        for t, v in zip(st.targets[0].elts, st.value.elts):
                            out.append(ast.copy_location(ast.Assign(targets=[t], value=v, lineno=st.lineno), st))
                        n += 1
                        continue
                out.append(st)
            blk[:] = out
        if isinstance(node, ast.Try):
            for h in node.handlers:
                pass
    ast.fix_missing_locations(tree)
    return n


def is_pure(e):
    for n in ast.walk(e):
        if isinstance(n, ast.Call):
            if not ((isinstance(n.func, ast.Name) and n.func.id in _PURE_CALLS) or _chain(n.func) in _PURE_DOTTED):
                return False
        elif isinstance(n, (ast.Await, ast.Yield, ast.YieldFrom, ast.NamedExpr, ast.ListComp, ast.SetComp,
                            ast.DictComp, ast.GeneratorExp, ast.Starred, ast.List, ast.Dict, ast.Set)):
            return False
    return True


class _Subst(ast.NodeTransformer):
    def __init__(self, mapping):
        self.mapping = mapping

    def visit_Name(self, n):
        if isinstance(n.ctx, ast.Load) and n.id in self.mapping:
            return ast.copy_location(copy.deepcopy(self.mapping[n.id]), n)
        return n


# ---------------------------------------------------------------------------------------------------------
# new single-assignment locals

def _stable_attrs(fn):
    """attribute names that the module assigns OUTSIDE constructors (`__init__`, `__new__`, `__setstate__`): state that can
    change between two reads. Every other attribute (methods, attributes set once at construction) reads the same early
    or late."""
    mod = fn
    root = getattr(fn, "_module_tree", None)
    if root is None:
        return set()
    cache = getattr(root, "_stable_attrs_cache", None)
    if cache is not None:
        return cache
    stored_elsewhere, stored = set(), set()
    def rec(node, in_ctor):
        for ch in ast.iter_child_nodes(node):
            if isinstance(ch, FUNC):
                rec(ch, ch.name in ("__init__", "__new__", "__setstate__"))
            else:
                if isinstance(ch, ast.Attribute) and isinstance(ch.ctx, (ast.Store, ast.Del)):
                    (stored if in_ctor else stored_elsewhere).add(ch.attr)
                rec(ch, in_ctor)
    rec(root, False)
    out = stored_elsewhere
    root._stable_attrs_cache = out
    return out


def propagate_new_locals(fn, known_names, pure_only=False):
    """Replace every local of `fn` that is not in `known_names`, bound exactly once by a plain `v = E`, by E at its
    uses. Returns the number of locals removed."""
    from .localnames import local_set
    done = 0
    unstable_attrs = _stable_attrs(fn)
    for _round in range(8):
        locs = local_set(fn) - set(known_names)
        if not locs:
            break
        parent = {}
        for n in ast.walk(fn):
            for c in ast.iter_child_nodes(n):
                parent[id(c)] = n
        # where each statement sits: id(stmt) -> (block list, index)
        place = {}
        for n in ast.walk(fn):
            for b in _blocks_of(n):
                for i, st in enumerate(b):
                    place[id(st)] = (b, i)
        nested_names = set()
        for n in ast.walk(fn):
            if n is not fn and isinstance(n, FUNC + (ast.Lambda, ast.ListComp, ast.SetComp, ast.DictComp, ast.GeneratorExp)):
                for m in ast.walk(n):
                    if isinstance(m, ast.Name):
                        nested_names.add(m.id)
        stores, loads = {}, {}
        for n in _own_nodes(fn):
            if isinstance(n, ast.Name) and n.id in locs:
                (stores if isinstance(n.ctx, (ast.Store, ast.Del)) else loads).setdefault(n.id, []).append(n)
        progressed = False
        for v in sorted(locs, key=lambda x: (getattr(stores[x][0], 'lineno', 0) if stores.get(x) else 0)):
            if v in nested_names:
                # used inside a comprehension / lambda: only a pure value whose operands are never re-bound afterwards
                # may be substituted there (it is evaluated later than its definition)
                if len(stores.get(v, [])) != 1:
                    continue
                st0 = parent.get(id(stores[v][0]))
                if not (isinstance(st0, ast.Assign) and len(st0.targets) == 1 and st0.targets[0] is stores[v][0] and is_pure(st0.value)):
                    continue
                ops = {n.id for n in ast.walk(st0.value) if isinstance(n, ast.Name)}
                chs = {_chain(n) for n in ast.walk(st0.value) if isinstance(n, ast.Attribute)} - {None}
                late = False
                for n in ast.walk(fn):
                    if getattr(n, "lineno", 0) > st0.lineno and ((isinstance(n, ast.Name) and isinstance(n.ctx, (ast.Store, ast.Del)) and n.id in ops)
                                                                  or (isinstance(n, ast.Attribute) and isinstance(n.ctx, (ast.Store, ast.Del)) and _chain(n) in chs)):
                        late = True
                if late or any(isinstance(n, ast.Name) and n.id == v and isinstance(n.ctx, ast.Store) and n is not stores[v][0] for n in ast.walk(fn)):
                    continue
                loads[v] = [n for n in ast.walk(fn) if isinstance(n, ast.Name) and n.id == v and isinstance(n.ctx, ast.Load)]
            if not loads.get(v):
                continue
            if len(stores.get(v, [])) > 1 and pure_only:
                continue
            if len(stores.get(v, [])) > 1:
                # several definitions: fine when each is a plain `v = E` whose value is consumed by the statement that
                # directly follows it and nowhere else (a temporary re-used for several returns / calls)
                pairs = []
                ok = True
                used = set()
                for s_ in stores[v]:
                    st = parent.get(id(s_))
                    if not (isinstance(st, ast.Assign) and len(st.targets) == 1 and st.targets[0] is s_ and id(st) in place):
                        ok = False
                        break
                    blk, idx = place[id(st)]
                    if idx + 1 >= len(blk):
                        ok = False
                        break
                    nxt = blk[idx + 1]
                    us = [u for u in loads[v] if _inside(u, nxt, parent)]
                    if not us or any(isinstance(n, ast.Name) and n.id == v and isinstance(n.ctx, ast.Store) for n in ast.walk(nxt)):
                        ok = False
                        break
                    if isinstance(nxt, (ast.For, ast.While, ast.If, ast.With, ast.Try)) and not all(_in_header(u, nxt, parent) for u in us):
                        ok = False
                        break
                    if not is_pure(st.value) and len(us) > 1:
                        ok = False
                        break
                    used.update(id(u) for u in us)
                    pairs.append((blk, st, nxt))
                if ok and used == {id(u) for u in loads[v]}:
                    for blk, st, nxt in pairs:
                        _Subst({v: st.value}).visit(nxt)
                        blk.remove(st)
                    done += 1
                    progressed = True
                    break
                continue
            if len(stores.get(v, [])) != 1:
                continue
            st = parent.get(id(stores[v][0]))
            if not (isinstance(st, ast.Assign) and len(st.targets) == 1 and st.targets[0] is stores[v][0]):
                continue
            if id(st) not in place:
                continue
            E = st.value
            blk, idx = place[id(st)]
            # copy coalescing: `v = E` ... `T = v` (the only use of v, later in the same block, T untouched in between)
            #   ->  `T = E` at the place of the definition
            if len(loads[v]) == 1 and not pure_only:
                cp = parent.get(id(loads[v][0]))
                if isinstance(cp, ast.Assign) and cp.value is loads[v][0] and len(cp.targets) == 1 and isinstance(cp.targets[0], ast.Name) \
                        and id(cp) in place and place[id(cp)][0] is blk and place[id(cp)][1] > idx:
                    T = cp.targets[0].id
                    between = blk[idx + 1:place[id(cp)][1]]
                    if not any(isinstance(n, ast.Name) and n.id == T for b_ in between for n in ast.walk(b_)) and not any(isinstance(n, ast.Name) and n.id == T for n in ast.walk(E)):
                        stores[v][0].id = T
                        blk.remove(cp)
                        done += 1
                        progressed = True
                        break
            # every use must sit in a later statement of the same block (possibly nested inside it)
            use_stmts = []
            ok = True
            for u in loads[v]:
                n = u
                top = None
                while n is not None and n is not fn:
                    p = parent.get(id(n))
                    if id(n) in place and place[id(n)][0] is blk:
                        top = n
                        break
                    n = p
                if top is None or place[id(top)][1] <= idx:
                    ok = False
                    break
                use_stmts.append((place[id(top)][1], top, u))
            if not ok:
                continue
            # a def inside a loop whose uses could see the value of a previous iteration is excluded by the rule above
            # (uses come after the def in the same block)
            pure = is_pure(E)
            if pure_only and not pure:
                continue
            if pure:
                # operands must not be re-bound / re-stored between the def and the last use (textual window)
                last = max(getattr(u_, "end_lineno", None) or getattr(u_, "lineno", 0) for _, _, u_ in use_stmts)
                names = {n.id for n in ast.walk(E) if isinstance(n, ast.Name)}
                chains = {_chain(n) for n in ast.walk(E) if isinstance(n, ast.Attribute)} - {None}
                clobber = False
                # state that something else may change (an attribute that is re-assigned after construction somewhere in the
                # module, a subscript, a call result): reading it EARLIER than the original program did is only the same when
                # nothing in between can run code that changes it - no call with effects, no lock / context entered, no yield
                volatile = any(isinstance(n, ast.Attribute) and n.attr in unstable_attrs for n in ast.walk(E))
                for n in _own_nodes(fn):
                    ln = getattr(n, "lineno", None)
                    if ln is None or not (st.lineno < ln <= last):
                        continue
                    if isinstance(n, ast.Name) and isinstance(n.ctx, (ast.Store, ast.Del)) and n.id in names:
                        clobber = True
                    elif isinstance(n, ast.Attribute) and isinstance(n.ctx, (ast.Store, ast.Del)) and _chain(n) in chains:
                        clobber = True
                    elif volatile and isinstance(n, (ast.With, ast.AsyncWith, ast.Yield, ast.YieldFrom, ast.Await)):
                        clobber = True
                    elif volatile and isinstance(n, ast.Call) and not any(n is u_ or any(n is x for x in ast.walk(u_)) for _, _, u_ in use_stmts) \
                            and not ((isinstance(n.func, ast.Name) and n.func.id in _PURE_CALLS) or _chain(n.func) in _PURE_DOTTED):
                        # a call between the definition and the use (calls that are themselves part of a using expression are
                        # evaluated together with the use and are judged by the adjacency rule below)
                        if getattr(n, "end_lineno", ln) < min(getattr(u_, "lineno", ln) for _, _, u_ in use_stmts):
                            clobber = True
                if clobber:
                    continue
            else:
                # an expression with effects may only move to the statement that directly follows its definition
                # (other removable definitions in between are fine), and be used once - or only in branch tests
                first_idx = min(i for i, _, _ in use_stmts)
                between = blk[idx + 1:first_idx]
                if any(not _is_new_def(b_, locs) for b_ in between):
                    continue
                in_tests = all(_in_test(u, parent) for _, _, u in use_stmts)
                if len(use_stmts) > 1 and not in_tests:
                    continue
                if len(use_stmts) == 1:
                    # the use must be evaluated unconditionally and first-ish in that statement: accept when the
                    # statement is simple or the use is in the header of a compound statement
                    _, top, u = use_stmts[0]
                    if isinstance(top, (ast.For, ast.While, ast.If, ast.With, ast.Try)) and not _in_header(u, top, parent):
                        continue
            # an expression with calls that can raise is evaluated unconditionally where it is defined: it may not move into a
            # position that is evaluated only sometimes (a branch of a conditional expression, a later operand of and/or,
            # a lambda body, a comprehension element) - there it would no longer raise for the inputs that skip it
            if not pure and _may_raise(E) and any(not _unconditional(u_, top_, parent) for _, top_, u_ in use_stmts):
                continue
            sub = _Subst({v: E})
            for _, top, _u in use_stmts:
                sub.visit(top)
            del blk[idx]
            if not blk:
                blk.append(ast.copy_location(ast.Pass(), st))
            done += 1
            progressed = True
            break  # recompute the maps
        if not progressed:
            break
    return done


def _may_raise(e):
    """anything but names, constants, attribute chains and tuples / comparisons-by-identity of those"""
    for n in ast.walk(e):
        if isinstance(n, (ast.Call, ast.BinOp, ast.Subscript, ast.Await, ast.Yield, ast.YieldFrom, ast.Starred)):
            return True
        if isinstance(n, ast.Compare) and not all(isinstance(o, (ast.Is, ast.IsNot)) for o in n.ops):
            return True
        if isinstance(n, ast.UnaryOp) and not isinstance(n.op, ast.Not):
            return True
    return False


def _unconditional(u, top, parent):
    """is the expression node `u` evaluated whenever the statement `top` (its header, for a compound statement) starts
    to be evaluated?"""
    n = u
    while n is not None and n is not top:
        p = parent.get(id(n))
        if p is None:
            break
        if isinstance(p, ast.IfExp) and n is not p.test:
            return False
        if isinstance(p, ast.BoolOp) and p.values and p.values[0] is not n:
            return False
        if isinstance(p, ast.Lambda):
            return False
        if isinstance(p, (ast.ListComp, ast.SetComp, ast.DictComp, ast.GeneratorExp)):
            if not (p.generators and n is p.generators[0]):
                return False
        if isinstance(p, ast.comprehension) and n is not p.iter:
            return False
        if isinstance(p, ast.stmt) and p is not top:
            break   # nested statements of a compound `top`: judged by the rules above (header / body placement)
        n = p
    return True


def _chain(n):
    parts = []
    while isinstance(n, ast.Attribute):
        parts.append(n.attr)
        n = n.value
    if isinstance(n, ast.Name):
        parts.append(n.id)
        return ".".join(reversed(parts))
    return None


def _inside(u, top, parent):
    n = u
    while n is not None:
        if n is top:
            return True
        n = parent.get(id(n))
    return False


def _is_new_def(st, locs):
    return isinstance(st, ast.Assign) and len(st.targets) == 1 and isinstance(st.targets[0], ast.Name) and st.targets[0].id in locs


def _in_test(u, parent):
    n = u
    while True:
        p = parent.get(id(n))
        if p is None:
            return False
        if isinstance(p, (ast.If, ast.While)) and p.test is n:
            return True
        if isinstance(p, ast.IfExp) and p.test is n:
            return True
        if isinstance(p, ast.stmt):
            return False
        n = p


def _in_header(u, top, parent):
    n = u
    while n is not top:
        p = parent.get(id(n))
        if p is top:
            if isinstance(top, (ast.If, ast.While)):
                return n is top.test
            if isinstance(top, ast.For):
                return n is top.iter
            if isinstance(top, ast.With):
                return any(n is it for it in top.items)
            return False
        n = p
    return False


# ---------------------------------------------------------------------------------------------------------
# new helpers

class CannotInline(Exception):
    pass


def _strip_doc(body):
    if body and isinstance(body[0], ast.Expr) and isinstance(body[0].value, ast.Constant) and isinstance(body[0].value.value, str):
        return body[1:]
    return body


def _decorators(fn):
    out = set()
    for d in fn.decorator_list:
        if isinstance(d, ast.Name):
            out.add(d.id)
        elif isinstance(d, ast.Attribute):
            out.add(d.attr)
        else:
            out.add("?")
    return out


def _has_return(st):
    stack = [st]
    while stack:
        n = stack.pop()
        if isinstance(n, ast.Return):
            return True
        if isinstance(n, FUNC + (ast.Lambda, ast.ClassDef)) and n is not st:
            continue
        stack.extend(ast.iter_child_nodes(n))
    return False


def _bind(callee, call, receiver, kind):
    """{param: argument expression} + list of prologue assignments"""
    a = callee.args
    if a.vararg or a.kwarg:
        raise CannotInline("variadic helper")
    if any(isinstance(x, ast.Starred) for x in call.args) or any(k.arg is None for k in call.keywords):
        raise CannotInline("starred call")
    pos = [x.arg for x in a.posonlyargs + a.args]
    mapping = {}
    if kind in ("method", "classmethod"):
        if not pos:
            raise CannotInline("no instance parameter")
        mapping[pos[0]] = receiver
        pos = pos[1:]
    if len(call.args) > len(pos):
        raise CannotInline("too many positionals")
    for p, x in zip(pos, call.args):
        mapping[p] = x
    kwnames = set(pos) | {x.arg for x in a.kwonlyargs}
    for k in call.keywords:
        if k.arg not in kwnames or k.arg in mapping:
            raise CannotInline("keyword mismatch")
        mapping[k.arg] = k.value
    # defaults
    all_pos = a.posonlyargs + a.args
    # (a default is evaluated once, in the defining scope: only constants mean the same thing at the call site)
    for p, d in zip(reversed(all_pos), reversed(a.defaults)):
        if p.arg not in mapping:
            if not _const_default(d):
                raise CannotInline("non-constant default")
            mapping[p.arg] = d
    for p, d in zip(a.kwonlyargs, a.kw_defaults):
        if d is not None and p.arg not in mapping:
            if not _const_default(d):
                raise CannotInline("non-constant default")
            mapping[p.arg] = d
    for p in [x.arg for x in all_pos + a.kwonlyargs]:
        if p not in mapping:
            raise CannotInline("unbound parameter " + p)
    return mapping


def _const_default(d):
    return isinstance(d, ast.Constant) or (isinstance(d, ast.UnaryOp) and isinstance(d.operand, ast.Constant)) \
        or (isinstance(d, (ast.Tuple, ast.List, ast.Dict, ast.Set)) and not any(isinstance(n, (ast.Name, ast.Call, ast.Attribute)) for n in ast.walk(d)))


def _simple(e):
    return isinstance(e, (ast.Name, ast.Constant)) or (isinstance(e, ast.Attribute) and _chain(e) is not None)


def _instantiate(callee, call, receiver, kind):
    mapping = _bind(callee, call, receiver, kind)
    body = copy.deepcopy(_strip_doc(callee.body))
    if any(isinstance(n, (ast.Yield, ast.YieldFrom, ast.Await, ast.Global, ast.Nonlocal)) for st in body for n in ast.walk(st)):
        raise CannotInline("generator / global")
    stored = set()
    for st in body:
        for n in ast.walk(st):
            if isinstance(n, ast.Name) and isinstance(n.ctx, (ast.Store, ast.Del)):
                stored.add(n.id)
    prologue = []
    sub = {}
    for p, e in mapping.items():
        if isinstance(e, ast.Name) and e.id == p:
            continue
        if p in stored or not _simple(e):
            prologue.append(ast.copy_location(ast.Assign(targets=[ast.Name(id=p, ctx=ast.Store())], value=copy.deepcopy(e), lineno=call.lineno), call))
        else:
            sub[p] = e
    if sub:
        s = _Subst(sub)
        body = [s.visit(st) for st in body]
    return prologue, body


def _conv(stmts, sink, allow_raw_return):
    """structured elimination of returns: -> (statements, all paths terminated?)"""
    out = []
    for i, st in enumerate(stmts):
        if isinstance(st, ast.Return):
            out.extend(sink(st.value, st))
            return out, True
        if isinstance(st, ast.If) and _has_return(st):
            b, bt = _conv(st.body, sink, allow_raw_return)
            o, ot = _conv(st.orelse, sink, allow_raw_return) if st.orelse else ([], False)
            rest = stmts[i + 1:]
            new = ast.copy_location(ast.If(test=st.test, body=b or [ast.copy_location(ast.Pass(), st)], orelse=o), st)
            if bt and ot:
                out.append(new)
                return out, True
            if allow_raw_return:
                out.append(new)
                continue
            r, rt = _conv(rest, sink, allow_raw_return)
            if bt:
                new.orelse = o + r
                out.append(new)
                return out, rt
            if ot:
                new.body = (b + r) or [ast.copy_location(ast.Pass(), st)]
                out.append(new)
                return out, rt
            raise CannotInline("return nested below a non-terminating branch")
        if isinstance(st, ast.Try) and _has_return(st) and not allow_raw_return and not any(_has_return(x) for x in st.finalbody):
            b, bt = _conv(st.body, sink, False)
            o, ot = _conv(st.orelse, sink, False) if st.orelse else ([], False)
            hs, all_h = [], True
            for h in st.handlers:
                hb, ht = _conv(h.body, sink, False)
                all_h = all_h and ht
                hs.append(ast.copy_location(ast.ExceptHandler(type=h.type, name=h.name, body=hb or [ast.copy_location(ast.Pass(), h)]), h))
            main_t = ot if st.orelse else bt
            if st.orelse and bt:
                raise CannotInline("try body returns before its else clause")
            if main_t and all_h:
                out.append(ast.copy_location(ast.Try(body=b or [ast.copy_location(ast.Pass(), st)], handlers=hs, orelse=o, finalbody=st.finalbody), st))
                return out, True
            raise CannotInline("try with returns on some paths only")
        if _has_return(st) and not isinstance(st, FUNC + (ast.ClassDef,)):
            if allow_raw_return:
                out.append(st)
                continue
            raise CannotInline("return inside loop/try/with")
        out.append(st)
    return out, False


def _assign_sink(targets, ctx_stmt):
    def sink(value, at):
        value = value if value is not None else ast.Constant(value=None)
        tgt = targets[0]
        if len(targets) == 1 and isinstance(tgt, (ast.Tuple, ast.List)) and isinstance(value, ast.Tuple) and len(tgt.elts) == len(value.elts) \
                and not any(isinstance(e, ast.Starred) for e in tgt.elts + value.elts):
            res = []
            for t, v in zip(tgt.elts, value.elts):
                if isinstance(t, ast.Name) and isinstance(v, ast.Name) and t.id == v.id:
                    continue
                res.append(ast.copy_location(ast.Assign(targets=[copy.deepcopy(t)], value=v, lineno=at.lineno), at))
            return res
        if len(targets) == 1 and isinstance(tgt, ast.Name) and isinstance(value, ast.Name) and tgt.id == value.id:
            return []
        return [ast.copy_location(ast.Assign(targets=copy.deepcopy(targets), value=value, lineno=at.lineno), at)]
    return sink


def _has_call(e):
    return e is not None and any(isinstance(n, ast.Call) for n in ast.walk(e))


def inline_new_helpers(module, known):
    """`known`: qualified names of the reference functions of this file (None: no reference - nothing is inlined)."""
    if known is None:
        return 0
    known = set(known)
    n_inlined = 0
    for _depth in range(3):
        helpers = {}
        for q, fn in module.funcs.items():
            if q in known or "." in q and q.rsplit(".", 1)[0] in module.funcs:
                continue  # known, or nested inside a function (closure)
            if fn.name.startswith("__") and fn.name.endswith("__"):
                continue
            deco = _decorators(fn)
            if deco - {"staticmethod", "classmethod"}:
                continue
            helpers[q] = fn
        if not helpers:
            break
        did = 0
        for q, caller in list(module.funcs.items()):
            did += _inline_in(module, q, caller, helpers)
        n_inlined += did
        if not did:
            break
    if n_inlined:
        _drop_unreferenced(module, known)
        ast.fix_missing_locations(module.tree)
    return n_inlined


def _resolve(module, caller_q, call, helpers):
    """-> (helper FunctionDef, receiver expr or None, kind) or None"""
    f = call.func
    cls_prefix = None
    parts = caller_q.split(".")
    for k in range(len(parts) - 1, 0, -1):
        cand = ".".join(parts[:k])
        if cand in module.classes:
            cls_prefix = cand
            break
    if isinstance(f, ast.Name):
        h = helpers.get(f.id)
        if h is not None and "." not in f.id:
            return h, None, "function"
        return None
    if isinstance(f, ast.Attribute) and isinstance(f.value, ast.Name):
        base = f.value.id
        owner = None
        if base in ("os", "sys", "np", "warnings", "time", "threading", "mp", "pickle", "io"):
            return None
        if base in ("self", "cls") and cls_prefix:
            owner = cls_prefix
        elif base in module.classes:
            owner = base
        if owner is None:
            # any other simple receiver (`_parallel.m()` in a nested class, `other.m()`): only when exactly one class of
            # the module defines a new helper of that name and nothing else in the module is called like that
            cands = [q_ for q_ in helpers if q_.rsplit(".", 1)[-1] == f.attr and "." in q_]
            known_same = [q_ for q_ in module.funcs if q_.rsplit(".", 1)[-1] == f.attr and q_ not in helpers]
            if len(cands) == 1 and not known_same:
                h = helpers[cands[0]]
                deco = _decorators(h)
                if not deco:
                    return h, f.value, "method"
            return None
        # the class itself, then its in-module bases
        seen = []
        todo = [owner]
        while todo:
            c = todo.pop(0)
            if c in seen or c not in module.classes:
                continue
            seen.append(c)
            h = helpers.get(c + "." + f.attr)
            if h is not None:
                # dynamic dispatch: another class of the module defining the same method may be the one that runs
                if sum(1 for q_ in module.funcs if q_.rsplit(".", 1)[-1] == f.attr and q_.count(".") >= 1) > 1:
                    return None
                deco = _decorators(h)
                kind = "staticmethod" if "staticmethod" in deco else "classmethod" if "classmethod" in deco else "method"
                if kind == "method" and base in module.classes:
                    return None  # Class.m(self, ...) form: leave alone
                return h, f.value, kind
            if (c + "." + f.attr) in module.funcs:
                return None  # a known method shadows
            for b in module.classes[c].bases:
                if isinstance(b, ast.Name):
                    todo.append(b.id)
    return None


def _inline_in(module, caller_q, caller, helpers):
    did = 0
    def visit_block(blk):
        nonlocal did
        i = 0
        while i < len(blk):
            st = blk[i]
            repl = None
            try:
                repl = _try_stmt(st)
            except CannotInline:
                repl = None
            if repl is not None:
                blk[i:i + 1] = repl or [ast.copy_location(ast.Pass(), st)]
                did += 1
                continue  # re-visit the inserted statements (they may contain further helper calls)
            # expression-level helpers
            try:
                if _try_expr(st):
                    did += 1
            except CannotInline:
                pass
            if not isinstance(st, FUNC + (ast.ClassDef,)):
                for b in _blocks_of(st):
                    visit_block(b)
            i += 1

    def _try_stmt(st):
        call = None
        if isinstance(st, ast.Expr) and isinstance(st.value, ast.Call):
            call, mode = st.value, "expr"
        elif isinstance(st, ast.Assign) and isinstance(st.value, ast.Call):
            call, mode = st.value, "assign"
        elif isinstance(st, ast.Return) and isinstance(st.value, ast.Call):
            call, mode = st.value, "return"
        if call is None:
            return None
        r = _resolve(module, caller_q, call, helpers)
        if r is None:
            return None
        h, recv, kind = r
        if h is caller:
            return None
        prologue, body = _instantiate(h, call, recv, "function" if kind == "staticmethod" else kind)
        if mode == "return":
            def sink(value, at):
                return [ast.copy_location(ast.Return(value=value), at)]
            stmts, term = _conv(body, sink, True)
            if not term:
                stmts.append(ast.copy_location(ast.Return(value=ast.Constant(value=None)), st))
        elif mode == "assign":
            sink = _assign_sink(st.targets, st)
            stmts, term = _conv(body, sink, False)
            if not term:
                stmts.extend(sink(None, st))
        else:
            def sink(value, at):
                return [ast.copy_location(ast.Expr(value=value), at)] if _has_call(value) else []
            stmts, term = _conv(body, sink, False)
        return prologue + stmts

    def _try_expr(st):
        """single-expression helpers called anywhere inside the statement's own expressions"""
        hit = False
        class T(ast.NodeTransformer):
            def visit_FunctionDef(self, n):
                return n
            visit_AsyncFunctionDef = visit_Lambda = visit_ClassDef = visit_FunctionDef
            def visit_Call(self, n):
                nonlocal hit
                self.generic_visit(n)
                r = _resolve(module, caller_q, n, helpers)
                if r is None:
                    return n
                h, recv, kind = r
                body = _strip_doc(h.body)
                if h is caller or len(body) != 1 or not isinstance(body[0], ast.Return) or body[0].value is None:
                    return n
                try:
                    prologue, b = _instantiate(h, n, recv, "function" if kind == "staticmethod" else kind)
                except CannotInline:
                    return n
                if prologue:
                    return n
                hit = True
                return ast.copy_location(b[0].value, n)
        # only the statement's own expressions (headers of compound statements), not nested blocks
        for field, val in ast.iter_fields(st):
            if field in ("body", "orelse", "finalbody", "handlers", "cases"):
                continue
            if isinstance(val, ast.AST):
                new = T().visit(val)
                if new is not val:
                    setattr(st, field, new)
            elif isinstance(val, list):
                for k, x in enumerate(val):
                    if isinstance(x, ast.AST):
                        val[k] = T().visit(x)
        return hit

    visit_block(caller.body)
    return did


def _drop_unreferenced(module, known):
    """remove the definitions of inlined helpers that nothing refers to any more"""
    refs = {}
    for n in ast.walk(module.tree):
        if isinstance(n, ast.Name):
            refs[n.id] = refs.get(n.id, 0) + 1
        elif isinstance(n, ast.Attribute):
            refs[n.attr] = refs.get(n.attr, 0) + 1
    def prune(holder):
        body = holder.body
        for st in list(body):
            if isinstance(st, FUNC):
                q = getattr(st, "_qualname", None)
                if q is not None and q not in known and refs.get(st.name, 0) == 0 and not (st.name.startswith("__") and st.name.endswith("__")):
                    body.remove(st)
                    module.funcs.pop(q, None)
                    for sub in [k for k in module.funcs if k.startswith(q + ".")]:
                        module.funcs.pop(sub, None)
            elif isinstance(st, ast.ClassDef):
                prune(st)
        if not body:
            body.append(ast.Pass())
    prune(module.tree)


# ---------------------------------------------------------------------------------------------------------
# control-flow shapes

_TERM = (ast.Return, ast.Raise, ast.Continue, ast.Break)


def _terminates(body):
    if not body:
        return False
    last = body[-1]
    if isinstance(last, _TERM):
        return True
    if isinstance(last, ast.If) and last.orelse:
        return _terminates(last.body) and _terminates(last.orelse)
    return False


def _all_blocks(root):
    for n in ast.walk(root):
        for b in _blocks_of(n):
            yield n, b


def flatten_else(tree):
    """`if c: A (every path leaves) else: B`  ->  `if c: A` followed by B. The two are the same control-flow graph;
    one spelling keeps syntactic rules independent of the early-return / else style. (`elif` is an else holding an if.)"""
    n_done = 0
    changed = True
    while changed:
        changed = False
        for holder, blk in list(_all_blocks(tree)):
            for i, st in enumerate(blk):
                if isinstance(st, ast.If) and st.orelse and _terminates(st.body):
                    rest = st.orelse
                    st.orelse = []
                    blk[i + 1:i + 1] = rest
                    n_done += 1
                    changed = True
                    break
            if changed:
                break
    return n_done


def sink_return(fn, known_names):
    """`if ..: v = A  else: v = B` ; `return v`  (v a local the reference does not know)  ->  the return is copied to
    the end of each branch (then `v = A; return v` is a return temporary, removed by propagate_new_locals)."""
    n_done = 0
    changed = True
    while changed:
        changed = False
        for holder, blk in list(_all_blocks(fn)):
            if isinstance(holder, FUNC + (ast.ClassDef,)) and holder is not fn:
                continue
            for i in range(len(blk) - 1):
                a, r = blk[i], blk[i + 1]
                if isinstance(a, ast.If) and isinstance(r, ast.Return) and isinstance(r.value, ast.Name) and r.value.id not in known_names \
                        and _assigned_on_some_tail(a, r.value.id):
                    _append_to_tails(a, r)
                    del blk[i + 1]
                    n_done += 1
                    changed = True
                    break
            if changed:
                break
    return n_done


def _assigned_on_some_tail(ifst, v):
    def tail_assigns(body):
        if not body:
            return False
        last = body[-1]
        if isinstance(last, ast.Assign) and len(last.targets) == 1 and isinstance(last.targets[0], ast.Name) and last.targets[0].id == v:
            return True
        if isinstance(last, ast.If):
            return tail_assigns(last.body) or tail_assigns(last.orelse)
        return False
    return tail_assigns(ifst.body) or tail_assigns(ifst.orelse)


def _append_to_tails(ifst, ret):
    def app(body):
        if body and isinstance(body[-1], ast.If) and not _terminates([body[-1]]):
            _append_to_tails(body[-1], ret)
        elif not (body and _terminates(body)):
            body.append(copy.deepcopy(ret))
    app(ifst.body)
    if not ifst.orelse:
        ifst.orelse = [copy.deepcopy(ret)]
    else:
        app(ifst.orelse)


def nested_def_to_lambda(module, known):
    """a nested `def f(args): return E` that the reference does not know -> `f = lambda args: E` (a local like any other)"""
    if known is None:
        return 0
    known = set(known)
    n_done = 0
    for q, fn in list(module.funcs.items()):
        if q in known or "." not in q:
            continue
        outer = q.rsplit(".", 1)[0]
        if outer not in module.funcs:
            continue
        body = _strip_doc(fn.body)
        if fn.decorator_list or len(body) != 1 or not isinstance(body[0], ast.Return) or body[0].value is None or isinstance(fn, ast.AsyncFunctionDef):
            continue
        if any(isinstance(n, (ast.Yield, ast.YieldFrom, ast.Await)) for n in ast.walk(body[0])):
            continue
        for holder, blk in _all_blocks(module.funcs[outer]):
            for i, st in enumerate(blk):
                if st is fn:
                    args = copy.deepcopy(fn.args)
                    for a in args.posonlyargs + args.args + args.kwonlyargs:
                        a.annotation = None
                    lam = ast.Lambda(args=args, body=body[0].value)
                    blk[i] = ast.copy_location(ast.Assign(targets=[ast.copy_location(ast.Name(id=fn.name, ctx=ast.Store()), fn)], value=ast.copy_location(lam, fn), lineno=fn.lineno), fn)
                    ast.fix_missing_locations(blk[i])
                    n_done += 1
    return n_done


def expand_ifexp(fn, ref_tests):
    """`x = A if c else B` -> `if c: x = A else: x = B` when the reference has an if-statement on c (or its negation)"""
    from .core import unparse
    n_done = 0
    for holder, blk in list(_all_blocks(fn)):
        if isinstance(holder, FUNC + (ast.ClassDef,)) and holder is not fn:
            continue
        for i, st in enumerate(blk):
            if isinstance(st, ast.Assign) and isinstance(st.value, ast.IfExp) and len(st.targets) == 1 and isinstance(st.targets[0], (ast.Name, ast.Attribute)):
                t = st.value.test
                if str(unparse(t, 400)) in ref_tests or any(str(unparse(x, 400)) in ref_tests for x in negations(t)):
                    a = ast.copy_location(ast.Assign(targets=[copy.deepcopy(st.targets[0])], value=st.value.body, lineno=st.lineno), st)
                    b = ast.copy_location(ast.Assign(targets=[copy.deepcopy(st.targets[0])], value=st.value.orelse, lineno=st.lineno), st)
                    blk[i] = ast.fix_missing_locations(ast.copy_location(ast.If(test=t, body=[a], orelse=[b]), st))
                    n_done += 1
    return n_done


def split_or_guards(fn, ref_tests):
    """`if a or b: T` (T leaves, no else) -> `if a: T` `if b: T`, and back - whichever spelling the reference has
    (ref_tests = the texts of the if-tests of this function on the pinned tree). Same control-flow graph."""
    from .core import unparse
    n_done = 0
    changed = True
    while changed:
        changed = False
        for holder, blk in list(_all_blocks(fn)):
            if isinstance(holder, FUNC + (ast.ClassDef,)) and holder is not fn:
                continue
            for i, st in enumerate(blk):
                if isinstance(st, ast.If) and not st.orelse and isinstance(st.test, ast.BoolOp) and isinstance(st.test.op, ast.Or) \
                        and _terminates(st.body) and len(st.body) <= 3 and str(unparse(st.test, 400)) not in ref_tests \
                        and any(str(unparse(v, 400)) in ref_tests for v in st.test.values) \
                        and not any(isinstance(n, ast.NamedExpr) for n in ast.walk(st.test)):
                    new = []
                    for v in st.test.values:
                        new.append(ast.copy_location(ast.If(test=v, body=copy.deepcopy(st.body), orelse=[]), st))
                    blk[i:i + 1] = new
                    n_done += 1
                    changed = True
                    break
                if i + 1 < len(blk) and isinstance(st, ast.If) and isinstance(blk[i + 1], ast.If) and not st.orelse and not blk[i + 1].orelse \
                        and _terminates(st.body) and ast.dump(ast.Module(body=st.body, type_ignores=[])) == ast.dump(ast.Module(body=blk[i + 1].body, type_ignores=[])):
                    vals = []
                    for t in (st.test, blk[i + 1].test):
                        vals.extend(t.values if isinstance(t, ast.BoolOp) and isinstance(t.op, ast.Or) else [t])
                    merged = ast.copy_location(ast.BoolOp(op=ast.Or(), values=vals), st.test)
                    if str(unparse(merged, 400)) in ref_tests:
                        st.test = merged
                        del blk[i + 1]
                        n_done += 1
                        changed = True
                        break
            if changed:
                break
    return n_done


# ---------------------------------------------------------------------------------------------------------
# orientation of two-way branches (guard clause <-> wrapped body, swapped if/else with a negated test)

_NEG_OP = {ast.Eq: ast.NotEq, ast.NotEq: ast.Eq, ast.Is: ast.IsNot, ast.IsNot: ast.Is, ast.In: ast.NotIn, ast.NotIn: ast.In}


def negations(test):
    """equivalent spellings of `not test` (the analysed tree already writes ordering comparisons with < and <=)"""
    out = []
    if isinstance(test, ast.UnaryOp) and isinstance(test.op, ast.Not):
        out.append(copy.deepcopy(test.operand))
    else:
        out.append(ast.UnaryOp(op=ast.Not(), operand=copy.deepcopy(test)))
    if isinstance(test, ast.Compare) and len(test.ops) == 1:
        op = type(test.ops[0])
        if op in _NEG_OP:
            out.append(ast.Compare(left=copy.deepcopy(test.left), ops=[_NEG_OP[op]()], comparators=copy.deepcopy(test.comparators)))
        elif op is ast.Lt:      # not a < b  ==  b <= a
            out.append(ast.Compare(left=copy.deepcopy(test.comparators[0]), ops=[ast.LtE()], comparators=[copy.deepcopy(test.left)]))
        elif op is ast.LtE:
            out.append(ast.Compare(left=copy.deepcopy(test.comparators[0]), ops=[ast.Lt()], comparators=[copy.deepcopy(test.left)]))
    if isinstance(test, ast.BoolOp):
        parts = []
        for v in test.values:
            alts = negations(v)
            # preferred spelling of each negated operand: x for `not x`, the flipped operator for a comparison
            parts.append(alts[1] if len(alts) > 1 and isinstance(v, ast.Compare) else alts[0])
        out.append(ast.BoolOp(op=ast.Or() if isinstance(test.op, ast.And) else ast.And(), values=parts))
    if isinstance(test, ast.UnaryOp) and isinstance(test.op, ast.Not) and isinstance(test.operand, ast.BoolOp):
        pass
    for o in out:
        ast.fix_missing_locations(ast.copy_location(o, test))
    return out


def _ref_negation(test, ref_tests):
    from .core import unparse
    if str(unparse(test, 400)) in ref_tests:
        return None
    for cand in negations(test):
        if str(unparse(cand, 400)) in ref_tests:
            return cand
    return None


def _is_plain_exit(body, kind):
    """[`return`] / [`return None`] (kind 'func') or [`continue`] (kind 'loop')"""
    if len(body) != 1:
        return False
    st = body[0]
    if kind == "func":
        return isinstance(st, ast.Return) and (st.value is None or (isinstance(st.value, ast.Constant) and st.value.value is None))
    return isinstance(st, ast.Continue)


def _equivalents(test):
    """De Morgan / double-negation spellings of the same test"""
    out = []
    if isinstance(test, ast.UnaryOp) and isinstance(test.op, ast.Not):
        inner = test.operand
        if isinstance(inner, ast.BoolOp):
            out.append(negations(inner)[-1])          # not (a or b) -> not a and not b
        if isinstance(inner, ast.UnaryOp) and isinstance(inner.op, ast.Not):
            out.append(copy.deepcopy(inner.operand))
        if isinstance(inner, ast.Compare) and len(negations(inner)) > 1:
            out.append(negations(inner)[1])
    if isinstance(test, ast.BoolOp):
        # a and b  ->  not (not a or not b)
        flipped = negations(test)[-1]
        out.append(ast.UnaryOp(op=ast.Not(), operand=flipped))
    for o in out:
        ast.fix_missing_locations(ast.copy_location(o, test))
    return out


def orient_exprs(fn, ref_tests):
    from .core import unparse
    n_done = 0
    for n in _own_nodes(fn):
        if isinstance(n, (ast.If, ast.While)) and str(unparse(n.test, 400)) not in ref_tests:
            for cand in _equivalents(n.test):
                if str(unparse(cand, 400)) in ref_tests:
                    n.test = cand
                    n_done += 1
                    break
    return n_done


def orient_tests(fn, ref_tests):
    """Rewrite two-way branches whose test the reference does not have, but whose negation it has:
         if N: A else: B                      ->  if T: B else: A
         if N: B(leaves) ; rest               ->  if T: rest else: B      (then else-flattening / dropping a plain exit)
         if N: rest      (last of fn / loop)  ->  if T: return/continue ; rest
    All three are the same control-flow graph with the test negated."""
    if isinstance(fn, ast.AsyncFunctionDef):
        return 0
    is_gen = any(isinstance(n, (ast.Yield, ast.YieldFrom)) for n in _own_nodes(fn))
    n_done = 0
    for _ in range(40):
        changed = False
        for holder, blk in list(_all_blocks(fn)):
            if isinstance(holder, FUNC + (ast.ClassDef,)) and holder is not fn:
                continue
            # what falling off the end of this block means
            if holder is fn and blk is fn.body:
                kind = "func"
            elif isinstance(holder, (ast.For, ast.While)) and blk is holder.body:
                kind = "loop"
            else:
                kind = None
            for i, st in enumerate(blk):
                if not isinstance(st, ast.If):
                    continue
                T = _ref_negation(st.test, ref_tests)
                if T is None:
                    continue
                if st.orelse:
                    st.test, st.body, st.orelse = T, st.orelse, st.body
                    changed = True
                    break
                rest = blk[i + 1:]
                if _terminates(st.body) and rest:
                    B = st.body
                    st.test, st.body, st.orelse = T, rest, B
                    del blk[i + 1:]
                    if kind is not None and _is_plain_exit(B, kind) and not (kind == "func" and is_gen and False):
                        st.orelse = []
                    changed = True
                    break
                if not rest and kind is not None and not _terminates(st.body):
                    exit_st = ast.Return(value=None) if kind == "func" else ast.Continue()
                    ast.fix_missing_locations(ast.copy_location(exit_st, st))
                    body = st.body
                    st.test, st.body = T, [exit_st]
                    blk.extend(body)
                    changed = True
                    break
            if changed:
                n_done += 1
                break
        if not changed:
            break
    return n_done


def method_value_to_closure(module, known):
    """A method the reference does not know, never called directly and referenced only as a value (`self.m` handed to
    another function) from one single method of the same class, is the extracted form of a nested function: it is
    moved back into that method (its `self` is the enclosing method's `self`)."""
    if known is None:
        return 0
    known = set(known)
    n_done = 0
    for cq, cls in list(module.classes.items()):
        for st in list(cls.body):
            if not isinstance(st, ast.FunctionDef) or st.decorator_list:
                continue
            q = cq + "." + st.name
            if q in known or (st.name.startswith("__") and st.name.endswith("__")):
                continue
            a = st.args
            if not a.args or a.args[0].arg != "self" or a.posonlyargs:
                continue
            # every reference in the module
            refs = []
            bad = False
            for holder_q, holder in module.funcs.items():
                if holder is st or holder_q.startswith(q + "."):
                    continue
                for n in ast.walk(holder):
                    if isinstance(n, ast.Call) and isinstance(n.func, ast.Attribute) and n.func.attr == st.name:
                        bad = True
                    if isinstance(n, ast.Attribute) and n.attr == st.name:
                        if isinstance(n.value, ast.Name) and n.value.id == "self" and isinstance(n.ctx, ast.Load):
                            refs.append((holder_q, holder, n))
                        else:
                            bad = True
                    if isinstance(n, ast.Name) and n.id == st.name:
                        bad = True
            holders = {hq for hq, _, _ in refs}
            if bad or len(holders) != 1:
                continue
            hq, holder, _ = refs[0]
            if not hq.startswith(cq + ".") or hq.count(".") != cq.count(".") + 1 or not holder.args.args or holder.args.args[0].arg != "self":
                continue
            if any(isinstance(n, ast.Name) and n.id == "self" and isinstance(n.ctx, ast.Store) for n in ast.walk(st)):
                continue

            class R(ast.NodeTransformer):
                def visit_Attribute(self, n):
                    self.generic_visit(n)
                    if n.attr == st.name and isinstance(n.value, ast.Name) and n.value.id == "self":
                        return ast.copy_location(ast.Name(id=st.name, ctx=ast.Load()), n)
                    return n
            R().visit(holder)
            cls.body.remove(st)
            st.args.args = st.args.args[1:]
            pos = 1 if holder.body and isinstance(holder.body[0], ast.Expr) and isinstance(holder.body[0].value, ast.Constant) and isinstance(holder.body[0].value.value, str) else 0
            holder.body.insert(pos, st)
            n_done += 1
    return n_done


# ---------------------------------------------------------------------------------------------------------
# renamed private attributes

_ref_total = None


def _reference_self_attrs():
    global _ref_total
    if _ref_total is None:
        p = os.path.join(_HERE, "reference", "total.json")
        _ref_total = json.load(open(p)).get("self_attrs", {}) if os.path.exists(p) else {}
    return _ref_total


def recover_private_attrs(module):
    """A class that stored `self._a` on the pinned tree, stores it no more, and now stores exactly one private
    attribute the reference does not know: a consistent rename. The new name is mapped back, module-wide."""
    ref = _reference_self_attrs()
    if not ref:
        return 0
    n_done = 0
    by_class = {}
    for attr, classes in ref.items():
        for c in classes:
            rel, cq = c.split("::", 1)
            if rel == module.relpath:
                by_class.setdefault(cq, set()).add(attr)
    all_ref_attrs = set(ref)
    for cq, pinned in by_class.items():
        if cq not in module.classes:
            continue
        cur = set()
        for q, fn in module.funcs.items():
            if q.startswith(cq + ".") and q.count(".") == cq.count(".") + 1:
                for n in ast.walk(fn):
                    if isinstance(n, ast.Attribute) and isinstance(n.ctx, ast.Store) and isinstance(n.value, ast.Name) and n.value.id == "self":
                        cur.add(n.attr)
        gone = sorted(a for a in pinned - cur if a.startswith("_") and not a.startswith("__"))
        new = sorted(a for a in cur - pinned if a.startswith("_") and not a.startswith("__") and a not in all_ref_attrs)
        if len(gone) == 1 and len(new) == 1:
            old_name, new_name = gone[0], new[0]
            # the old name must not be in use any more anywhere in the module
            if any(isinstance(n, ast.Attribute) and n.attr == old_name for n in ast.walk(module.tree)):
                continue
            for n in ast.walk(module.tree):
                if isinstance(n, ast.Attribute) and n.attr == new_name:
                    n.attr = old_name
                elif isinstance(n, ast.Constant) and n.value == new_name:
                    pass
            n_done += 1
    return n_done
