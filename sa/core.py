"""Loader and AST helpers.

`Repo` parses the non-test Python files of the analysed tree (read from disk
on every run, never cached), gives parent links to every node and indexes
classes and functions by qualified name.  `overrides` lets the self-test
analyse an in-memory variant of one or more files without touching any disk.
"""

import ast
import os


class AnchorMissing(Exception):
    """An anchored construct (file, class, function) is not in the tree.

    This is "I can no longer see the mechanism", reported as ANALYSIS-ERROR
    (exit 2), never as a pass and never as a violation.
    """


class Undecidable(Exception):
    """The code has a shape the rule does not recognise."""


PKG = "joblib"


class Module:
    def __init__(self, relpath, src):
        self.relpath = relpath
        self.src = src
        self.tree = ast.parse(src, filename=relpath)
        normalise_comparisons(self.tree)
        normalise_if_polarity(self.tree)
        from . import localnames, normalise
        normalise.split_tuple_assign(self.tree)
        normalise.aug_assign(self.tree)
        normalise.fstrings_to_format(self.tree)
        normalise.empty_displays(self.tree)
        normalise.attr_builtins(self.tree)
        normalise.filter_loops(self.tree)
        normalise.append_loops(self.tree)
        normalise.sum_loops(self.tree)
        normalise.sort_method_to_sorted(self.tree)
        normalise.flatten_else(self.tree)
        normalise.merge_nested_ifs(self.tree)
        self.funcs = {}  # qualname -> FunctionDef
        self.classes = {}  # qualname -> ClassDef
        self._index(self.tree, "", None)
        self.attrs_recovered = normalise.recover_private_attrs(self)
        self.globals_propagated = normalise.propagate_new_globals(self, normalise.reference_globals().get(relpath))
        known = normalise.reference_functions().get(relpath)
        self.helpers_inlined = normalise.inline_new_helpers(self, known)
        self.helpers_inlined += normalise.nested_def_to_lambda(self, known)
        self.helpers_inlined += normalise.method_value_to_closure(self, known)
        if self.helpers_inlined:
            normalise.flatten_else(self.tree)
            self.funcs, self.classes = {}, {}
            self._index(self.tree, "", None)
        self.locals_recovered = localnames.recover(self)
        for fn_ in self.funcs.values():
            fn_._module_tree = self.tree
        ref_locals = localnames.reference().get(relpath)
        self.locals_propagated = 0
        if ref_locals is not None:
            ref_tests = normalise.reference_tests().get(relpath) or {}
            # first the pure aliases / hoisted expressions only, so that definitions and guards regain their pinned text
            # and renamed locals with effects (`x = self.m()`) can still be matched by their definition signature
            pre = 0
            for q, fn in self.funcs.items():
                pre += normalise.propagate_new_locals(fn, set((ref_locals.get(q) or {}).values()), pure_only=True)
            if pre:
                self.locals_propagated += pre
                self.locals_recovered += localnames.recover(self)
            for q, fn in self.funcs.items():
                names = set((ref_locals.get(q) or {}).values())
                k = normalise.sink_return(fn, names)
                k += normalise.propagate_new_locals(fn, names)
                if q in ref_tests:
                    rt = set(ref_tests[q])
                    k += normalise.expand_ifexp(fn, rt)
                    k += normalise.orient_exprs(fn, rt)
                    k += normalise.orient_tests(fn, rt)
                    k += normalise.split_or_guards(fn, rt)
                self.locals_propagated += k
            if self.locals_propagated:
                normalise.filter_loops(self.tree)
                normalise.flatten_else(self.tree)
                normalise.merge_nested_ifs(self.tree)
                # definitions may have regained their pinned form: match the remaining locals once more
                self.locals_recovered += localnames.recover(self)
        for node in ast.walk(self.tree):
            for child in ast.iter_child_nodes(node):
                child._parent = node
        self.tree._parent = None
        for node in ast.walk(self.tree):
            node._module = self

    def _index(self, node, prefix, owner):
        for child in ast.iter_child_nodes(node):
            if isinstance(child, (ast.FunctionDef, ast.AsyncFunctionDef)):
                q = prefix + child.name
                # first definition wins for conditional redefinitions; keep all
                self.funcs.setdefault(q, child)
                child._qualname = q
                child._owner_class = owner if isinstance(node, ast.ClassDef) else None
                self._index(child, q + ".", owner)
            elif isinstance(child, ast.ClassDef):
                q = prefix + child.name
                self.classes.setdefault(q, child)
                child._qualname = q
                self._index(child, q + ".", child)
            else:
                self._index(child, prefix, owner)


class Repo:
    def __init__(self, root, overrides=None):
        self.root = root
        self.overrides = overrides or {}
        self.modules = {}
        self.n_files = 0
        pkg = os.path.join(root, PKG)
        if not os.path.isdir(pkg):
            raise AnchorMissing("package directory %s not found" % pkg)
        for dirpath, dirnames, filenames in os.walk(pkg):
            dirnames[:] = sorted(
                d for d in dirnames if d not in ("test", "__pycache__")
            )
            for fn in sorted(filenames):
                if not fn.endswith(".py"):
                    continue
                full = os.path.join(dirpath, fn)
                rel = os.path.relpath(full, root)
                if rel in self.overrides:
                    src = self.overrides[rel]
                else:
                    with open(full, encoding="utf-8") as f:
                        src = f.read()
                self.modules[rel] = Module(rel, src)
                self.n_files += 1

    # -- anchors -----------------------------------------------------------
    def mod(self, relpath):
        try:
            return self.modules[relpath]
        except KeyError:
            raise AnchorMissing("file %s" % relpath)

    def func(self, relpath, qualname):
        m = self.mod(relpath)
        try:
            return m.funcs[qualname]
        except KeyError:
            raise AnchorMissing("function %s::%s" % (relpath, qualname))

    def has_func(self, relpath, qualname):
        return relpath in self.modules and qualname in self.modules[relpath].funcs

    def cls(self, relpath, qualname):
        m = self.mod(relpath)
        try:
            return m.classes[qualname]
        except KeyError:
            raise AnchorMissing("class %s::%s" % (relpath, qualname))

    def all_functions(self, pred=None):
        for rel, m in self.modules.items():
            if pred and not pred(rel):
                continue
            for q, f in m.funcs.items():
                yield rel, q, f

    def n_functions(self):
        return sum(len(m.funcs) for m in self.modules.values())


# -- generic AST helpers -----------------------------------------------------

FUNC_TYPES = (ast.FunctionDef, ast.AsyncFunctionDef, ast.Lambda)


def dotted(node):
    """'self.parallel._lock' for Name/Attribute chains, else None."""
    parts = []
    while isinstance(node, ast.Attribute):
        parts.append(node.attr)
        node = node.value
    if isinstance(node, ast.Name):
        parts.append(node.id)
        return ".".join(reversed(parts))
    if isinstance(node, ast.Call) and parts:
        # e.g. super().__init__ -> 'super().__init__'
        inner = dotted(node.func)
        if inner is not None:
            return inner + "()." + ".".join(reversed(parts))
    return None


def call_name(call):
    return dotted(call.func) if isinstance(call, ast.Call) else None


def walk_local(node, include_self=True):
    """ast.walk that does not descend into nested function/class bodies."""
    stack = [node]
    first = True
    while stack:
        n = stack.pop()
        if not first and isinstance(n, FUNC_TYPES + (ast.ClassDef,)):
            yield n  # the definition itself is visible, its body is not
            continue
        if first:
            first = False
            if include_self:
                yield n
        else:
            yield n
        stack.extend(reversed(list(ast.iter_child_nodes(n))))


def body_walk(func):
    """All nodes of a function's own body (nested defs not entered)."""
    for st in func.body:
        if isinstance(st, FUNC_TYPES + (ast.ClassDef,)):
            yield st
            continue
        for n in walk_local(st):
            yield n


def calls_in(node, name=None, local=True):
    it = walk_local(node) if local else ast.walk(node)
    for n in it:
        if isinstance(n, ast.Call):
            if name is None:
                yield n
            else:
                cn = call_name(n)
                if cn is not None and (
                    cn == name or (name.startswith(".") and cn.endswith(name))
                ):
                    yield n


def parent(node):
    return getattr(node, "_parent", None)


def ancestors(node):
    n = parent(node)
    while n is not None:
        yield n
        n = parent(n)


def enclosing_stmt(node):
    """The innermost statement containing `node` (node itself if a stmt)."""
    n = node
    while n is not None and not isinstance(n, ast.stmt):
        n = parent(n)
    return n


def enclosing_func(node):
    for a in ancestors(node):
        if isinstance(a, (ast.FunctionDef, ast.AsyncFunctionDef)):
            return a
    return None


def enclosing_withs(node, stop=None):
    """With statements lexically enclosing `node` inside its function."""
    out = []
    child = node
    for a in ancestors(node):
        if isinstance(a, FUNC_TYPES) or a is stop:
            break
        if isinstance(a, (ast.With, ast.AsyncWith)) and child in a.body:
            out.append(a)
        child = a
    return out


def in_block(node, block):
    """True if `node` is (nested) inside one of the statements of `block`."""
    ids = set(id(s) for s in block)
    n = node
    while n is not None:
        if id(n) in ids:
            return True
        n = parent(n)
    return False


_FLIP = {ast.Gt: ast.Lt, ast.GtE: ast.LtE}


def normalise_comparisons(tree):
    """`a > b` -> `b < a`, `a >= b` -> `b <= a` (in place): one spelling per ordering comparison, so
    that no rule depends on which way round a comparison happens to be written."""
    for n in ast.walk(tree):
        if isinstance(n, ast.Compare) and len(n.ops) == 1 and type(n.ops[0]) in _FLIP:
            n.left, n.comparators[0] = n.comparators[0], n.left
            n.ops[0] = _FLIP[type(n.ops[0])]()
    return tree


def normalise_if_polarity(tree):
    """`if not X: A else: B` -> `if X: B else: A` (in place) when there is a plain else branch: one
    polarity per two-way branch, so that swapping the branches of an if/else changes no verdict."""
    for n in ast.walk(tree):
        if isinstance(n, ast.If) and n.orelse and isinstance(n.test, ast.UnaryOp) and isinstance(n.test.op, ast.Not):
            if len(n.orelse) == 1 and isinstance(n.orelse[0], ast.If) and n.orelse[0].col_offset == n.col_offset:
                continue  # elif chain
            n.test = n.test.operand
            n.body, n.orelse = n.orelse, n.body
        elif isinstance(n, ast.IfExp) and isinstance(n.test, ast.UnaryOp) and isinstance(n.test.op, ast.Not):
            n.test = n.test.operand
            n.body, n.orelse = n.orelse, n.body
    return tree


_canon_cache = {}


def canon_text(s):
    """Canonical spelling of a Python expression/statement given as text (comparison direction, quotes,
    parentheses, whitespace); the text itself if it does not parse."""
    c = _canon_cache.get(s)
    if c is None:
        try:
            c = " ".join(ast.unparse(normalise_if_polarity(normalise_comparisons(ast.parse(s)))).split())
        except (SyntaxError, ValueError, RecursionError):
            c = s
        _canon_cache[s] = c
    return c


class CText(str):
    """Text of a construct of the analysed (normalised) tree. Comparing it with a literal canonicalises
    the literal first, so a rule may spell `n > 0` or `0 < n` alike."""
    __slots__ = ()

    def __eq__(self, other):
        if isinstance(other, str) and not isinstance(other, CText):
            return str.__eq__(self, canon_text(other)) or str.__eq__(self, other)
        return str.__eq__(self, other)

    def __ne__(self, other):
        return not self.__eq__(other)

    __hash__ = str.__hash__

    def __contains__(self, sub):
        return str.__contains__(self, sub) or (isinstance(sub, str) and str.__contains__(self, canon_text(sub)))


def unparse(node, limit=160):
    try:
        s = ast.unparse(node)
    except Exception:  # pragma: no cover
        s = ast.dump(node)
    s = " ".join(s.split())
    return CText(s if len(s) <= limit else s[: limit - 3] + "...")


def stmt_head(stmt, limit=120):
    """Normalised one-line text of a statement (header only for compounds)."""
    if isinstance(stmt, (ast.If, ast.While)):
        kw = "if" if isinstance(stmt, ast.If) else "while"
        return "%s %s:" % (kw, unparse(stmt.test, limit))
    if isinstance(stmt, (ast.For, ast.AsyncFor)):
        return "for %s in %s:" % (unparse(stmt.target, 40), unparse(stmt.iter, limit))
    if isinstance(stmt, (ast.With, ast.AsyncWith)):
        return "with %s:" % ", ".join(unparse(i.context_expr, limit) for i in stmt.items)
    if isinstance(stmt, ast.Try):
        return "try:"
    if isinstance(stmt, (ast.FunctionDef, ast.AsyncFunctionDef)):
        return "def %s(...)" % stmt.name
    if isinstance(stmt, ast.ClassDef):
        return "class %s" % stmt.name
    if isinstance(stmt, ast.ExceptHandler):
        return "except %s:" % (unparse(stmt.type) if stmt.type else "")
    return unparse(stmt, limit)


def qualname_of(node):
    f = node if isinstance(node, (ast.FunctionDef, ast.AsyncFunctionDef, ast.ClassDef)) else None
    if f is None:
        for a in ancestors(node):
            if isinstance(a, (ast.FunctionDef, ast.AsyncFunctionDef, ast.ClassDef)):
                f = a
                break
    return getattr(f, "_qualname", "<module>") if f is not None else "<module>"


def construct_key(node):
    """relpath::qualname::normalised statement — never a line number."""
    st = enclosing_stmt(node) if not isinstance(node, ast.ExceptHandler) else node
    mod = getattr(node, "_module", None)
    rel = mod.relpath if mod else "?"
    return "%s::%s::%s" % (rel, qualname_of(node), stmt_head(st) if st is not None else unparse(node))


def where(node):
    mod = getattr(node, "_module", None)
    rel = mod.relpath if mod else "?"
    return "%s:%s (%s)" % (rel, getattr(node, "lineno", "?"), qualname_of(node))


def const_value(node, default=None):
    if isinstance(node, ast.Constant):
        return node.value
    if isinstance(node, ast.UnaryOp) and isinstance(node.op, ast.USub) and isinstance(node.operand, ast.Constant):
        try:
            return -node.operand.value
        except TypeError:
            return default
    return default


def names_in(node):
    return {n.id for n in ast.walk(node) if isinstance(n, ast.Name)}


def attrs_in(node):
    """dotted names of every Name/Attribute chain occurring in node."""
    out = set()
    for n in ast.walk(node):
        if isinstance(n, (ast.Attribute, ast.Name)):
            d = dotted(n)
            if d:
                out.add(d)
    return out


def same_expr(a, b):
    return ast.dump(a) == ast.dump(b)


def handler_catches(handler, names):
    """Does `except <type>` catch one of `names` (by spelled class name)?

    A bare except catches everything.  `names` are spelled names such as
    'OSError', 'Exception', 'BaseException'; the hierarchy of the builtins
    that matter here is spelled out.
    """
    if handler.type is None:
        return True
    spelled = []
    t = handler.type
    elts = t.elts if isinstance(t, ast.Tuple) else [t]
    for e in elts:
        d = dotted(e)
        if d:
            spelled.append(d.split(".")[-1])
    supers = {
        "OSError": {"OSError", "Exception", "BaseException", "IOError", "EnvironmentError", "WindowsError"},
        "FileNotFoundError": {"FileNotFoundError", "OSError", "IOError", "EnvironmentError", "Exception", "BaseException"},
        "KeyError": {"KeyError", "LookupError", "Exception", "BaseException"},
        "IndexError": {"IndexError", "LookupError", "Exception", "BaseException"},
        "ValueError": {"ValueError", "Exception", "BaseException"},
        "Exception": {"Exception", "BaseException"},
        "BaseException": {"BaseException"},
        "EOFError": {"EOFError", "Exception", "BaseException"},
        "GeneratorExit": {"GeneratorExit", "BaseException"},
        "TypeError": {"TypeError", "Exception", "BaseException"},
        "ImportError": {"ImportError", "Exception", "BaseException"},
    }
    for want in names:
        ok = supers.get(want, {want, "Exception", "BaseException"})
        if any(s in ok for s in spelled):
            return True
    return False


def handler_reraises(handler):
    """True if some path of the handler body re-raises (bare `raise` or
    `raise <caught name>`), syntactically (nested defs not entered)."""
    for st in handler.body:
        for n in walk_local(st):
            if isinstance(n, ast.Raise):
                return True
    return False


def is_self_attr(node, attr=None, base="self"):
    return (
        isinstance(node, ast.Attribute)
        and isinstance(node.value, ast.Name)
        and node.value.id == base
        and (attr is None or node.attr == attr)
    )


def stores_to(node):
    """Targets (as dotted strings) stored by an Assign/AugAssign/AnnAssign/
    Delete statement, including tuple unpacking; subscript stores are given as
    'base[...]'."""
    out = []

    def tgt(t):
        if isinstance(t, (ast.Tuple, ast.List)):
            for e in t.elts:
                tgt(e)
        elif isinstance(t, ast.Starred):
            tgt(t.value)
        elif isinstance(t, ast.Subscript):
            d = dotted(t.value)
            out.append((d or "?") + "[...]")
        else:
            d = dotted(t)
            if d:
                out.append(d)

    if isinstance(node, ast.Assign):
        for t in node.targets:
            tgt(t)
    elif isinstance(node, (ast.AugAssign, ast.AnnAssign)):
        tgt(node.target)
    elif isinstance(node, ast.Delete):
        for t in node.targets:
            tgt(t)
    elif isinstance(node, ast.NamedExpr):
        tgt(node.target)
    return out


# -- small queries used by many rules -------------------------------------------

def assigns_to(func, target, local=True):
    """Assign/AugAssign/AnnAssign statements in func storing to dotted `target`."""
    out = []
    it = body_walk(func) if local else ast.walk(func)
    for n in it:
        if isinstance(n, (ast.Assign, ast.AugAssign, ast.AnnAssign)) and target in stores_to(n):
            out.append(n)
    return out


def nodes_of_type(func, typ, local=True):
    it = body_walk(func) if local else ast.walk(func)
    return [n for n in it if isinstance(n, typ)]


def is_const(node, value):
    return isinstance(node, ast.Constant) and node.value is value or (
        isinstance(node, ast.Constant) and not isinstance(value, bool) and value is not None and node.value == value and type(node.value) is type(value)
    )


def mentions(node, name):
    """Does expression `node` mention dotted `name` (exact chain or prefix)?"""
    for d in attrs_in(node):
        if d == name or d.startswith(name + "."):
            return True
    return False


def kwarg(call, name, pos=None):
    for k in call.keywords:
        if k.arg == name:
            return k.value
    if pos is not None and len(call.args) > pos and not any(isinstance(a, ast.Starred) for a in call.args[: pos + 1]):
        return call.args[pos]
    return None


def dict_items(node):
    """{key: value expr} for `dict(a=..)` calls and `{...}` literals with
    constant keys; None if not such a construct."""
    if isinstance(node, ast.Call) and call_name(node) == "dict" and not node.args:
        return {k.arg: k.value for k in node.keywords if k.arg}
    if isinstance(node, ast.Dict):
        out = {}
        for k, v in zip(node.keys, node.values):
            if isinstance(k, ast.Constant):
                out[k.value] = v
        return out
    return None


def first_param(func, skip_self=True):
    args = [a.arg for a in func.args.posonlyargs + func.args.args]
    if skip_self and args and args[0] in ("self", "cls"):
        args = args[1:]
    return args[0] if args else None


def param_names(func):
    a = func.args
    return [x.arg for x in a.posonlyargs + a.args + a.kwonlyargs]


def call_attr(call):
    """Last component of the callee: method or function name."""
    if not isinstance(call, ast.Call):
        return None
    f = call.func
    if isinstance(f, ast.Attribute):
        return f.attr
    if isinstance(f, ast.Name):
        return f.id
    return None


def same_items(got, want):
    """multiset equality of texts, using CText's canonicalising equality"""
    got, want = list(got), list(want)
    if len(got) != len(want):
        return False
    for w in want:
        for i, g_ in enumerate(got):
            if g_ == w:
                del got[i]
                break
        else:
            return False
    return True


def block_texts(stmts):
    return [unparse(s_) for s_ in stmts]


def has_stmt(stmts, text):
    """some top-level statement of the block has this (canonical) text"""
    return any(unparse(s_, 400) == text for s_ in stmts)


def subseq(stmts, texts):
    """the given statement texts occur in the block in this order (other statements may be interleaved)"""
    i = 0
    for s_ in stmts:
        if i < len(texts) and unparse(s_, 400) == texts[i]:
            i += 1
    return i == len(texts)


def cond_facts(conds):
    """Atomic facts [(text, value)] implied by guarding conditions: `not E` under p is E under not p, a true
    conjunction makes each conjunct true, a false disjunction each disjunct false; anything else stays whole."""
    out = []
    def facts(t, pol):
        while isinstance(t, ast.UnaryOp) and isinstance(t.op, ast.Not):
            t, pol = t.operand, not pol
        if isinstance(t, ast.BoolOp) and ((isinstance(t.op, ast.And) and pol) or (isinstance(t.op, ast.Or) and not pol)):
            for v in t.values:
                facts(v, pol)
        else:
            out.append((unparse(t, 400), pol))
    for c in conds:
        facts(c[-2], c[-1])
    seen, uniq = set(), []
    for x in out:
        if (str(x[0]), x[1]) not in seen:
            seen.add((str(x[0]), x[1]))
            uniq.append(x)
    return uniq


def cond_holds(conds, text, value=True):
    """Among guarding conditions [(if-node, test, polarity)] (or [(test, polarity)]): is the expression
    `text` known to be `value`?  `not E` under polarity p counts as E under (not p); a true conjunction makes each
    conjunct true, a false disjunction makes each disjunct false."""
    def facts(t, pol):
        while isinstance(t, ast.UnaryOp) and isinstance(t.op, ast.Not):
            t, pol = t.operand, not pol
        yield t, pol
        if isinstance(t, ast.BoolOp) and ((isinstance(t.op, ast.And) and pol) or (isinstance(t.op, ast.Or) and not pol)):
            for v in t.values:
                for f in facts(v, pol):
                    yield f
    for c in conds:
        for t, pol in facts(c[-2], c[-1]):
            if unparse(t, 400) == text and pol == value:
                return True
    return False
