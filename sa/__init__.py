"""Static analysers deciding structural clauses of joblib properties C01-C20.

Nothing in this package imports or executes joblib: every verdict is computed
from `ast` trees of the files under the analysed repository root.
"""
