"""Obligations, verdicts, evidence, replay files, known findings."""

import hashlib
import json
import os
import time
import traceback

from . import cfg as cfgmod
from .core import AnchorMissing, Undecidable, construct_key, where, unparse

VERIF = os.path.dirname(os.path.dirname(os.path.abspath(__file__)))


def load_known(path=None):
    path = path or os.path.join(VERIF, "known_findings.json")
    if not os.path.exists(path):
        return []
    with open(path, encoding="utf-8") as f:
        data = json.load(f)
    return data.get("findings", [])


class Ob:
    __slots__ = ("clause", "family", "key", "where", "verdict", "detail")

    def __init__(self, clause, family, key, where_, verdict, detail):
        self.clause, self.family, self.key = clause, family, key
        self.where, self.verdict, self.detail = where_, verdict, detail

    def as_dict(self):
        return {
            "clause": self.clause,
            "rule_family": self.family,
            "construct": self.key,
            "where": self.where,
            "verdict": self.verdict,
            "detail": self.detail,
        }


class Ctx:
    """One run of one property's clauses over one source tree."""

    def __init__(self, pid, repo, tier="quick", known=None, quiet=False):
        self.pid = pid
        self.repo = repo
        self.tier = tier
        self.obs = []
        self.errors = []  # (clause, reason)
        self.info = []  # informational notes (thorough extras)
        self.clause = None
        self.family = None
        self.known = load_known() if known is None else known
        self.quiet = quiet
        self.clauses_run = []
        self.t0 = time.time()

    # -- recording ---------------------------------------------------------------
    def _rec(self, verdict, node, detail, key=None):
        if node is not None and not isinstance(node, str):
            k = key or construct_key(node)
            w = where(node)
        else:
            k = key or (node if isinstance(node, str) else "-")
            w = node if isinstance(node, str) else "-"
        self.obs.append(Ob(self.clause, self.family, k, w, verdict, detail))

    def ok(self, node, detail, key=None):
        self._rec("discharged", node, detail, key)

    def bad(self, node, detail, key=None):
        self._rec("violated", node, detail, key)

    def check(self, cond, node, ok_detail, bad_detail=None, key=None):
        if cond:
            self.ok(node, ok_detail, key)
        else:
            self.bad(node, bad_detail or ("NOT: " + ok_detail), key)
        return bool(cond)

    def need(self, cond, reason):
        """Shape precondition of a rule: failing it is 'undecidable'."""
        if not cond:
            raise Undecidable(reason)

    def floor(self, found, minimum, what):
        if found < minimum:
            raise Undecidable(
                "%s: %d instance(s) found, at least %d were confirmed on the pinned tree"
                % (what, found, minimum)
            )

    def note(self, text):
        self.info.append("%s: %s" % (self.clause, text))

    # -- running clauses ---------------------------------------------------------
    def run(self, clause_id, family, fn, *a, **kw):
        self.clause, self.family = clause_id, family
        self.clauses_run.append(clause_id)
        n0 = len(self.obs)
        try:
            fn(self, *a, **kw)
            if len(self.obs) == n0:
                raise Undecidable("clause examined no construct (vacuous)")
        except AnchorMissing as e:
            self.errors.append((clause_id, "anchor missing: %s" % e))
        except Undecidable as e:
            self.errors.append((clause_id, "undecidable: %s" % e))
        except Exception as e:  # analyser bug or unforeseen shape
            tb = traceback.extract_tb(e.__traceback__)[-1]
            self.errors.append(
                (clause_id, "analyser exception %s: %s at %s:%s" % (type(e).__name__, e, os.path.basename(tb.filename), tb.lineno))
            )
        finally:
            self.clause = self.family = None

    # -- verdict -----------------------------------------------------------------
    def violations(self):
        return [o for o in self.obs if o.verdict == "violated"]

    def _is_known(self, ob):
        for k in self.known:
            if k.get("status") != "known":
                continue
            if k.get("clause") == ob.clause and k.get("construct") == ob.key:
                return k
        return None

    def finish(self, write_evidence=True, explanation="", assumptions=(), extra=None):
        wall = time.time() - self.t0
        viol = self.violations()
        new, known = [], []
        for v in viol:
            k = self._is_known(v)
            (known if k else new).append((v, k))
        lines = []
        for v, k in known:
            lines.append("KNOWN-FINDING: property=%s %s [%s] %s" % (self.pid, k.get("what", v.detail), v.clause, v.key))
        replay_paths = []
        for v, _ in new:
            p = self._write_replay(v)
            replay_paths.append(p)
            lines.append("VIOLATION property=%s replay=%s" % (self.pid, p))
            lines.append("  clause=%s rule=%s at %s" % (v.clause, v.family, v.where))
            lines.append("  construct: %s" % v.key)
            lines.append("  %s" % v.detail)
        for c, r in self.errors:
            lines.append("ANALYSIS-ERROR property=%s rule=%s reason=%s" % (self.pid, c, r))
        code = 1 if new else (2 if self.errors else 0)
        n_ob = len(self.obs)
        n_dis = sum(1 for o in self.obs if o.verdict == "discharged")
        summary = "%s tier=%s clauses=%d obligations=%d discharged=%d violated=%d (known %d) undecidable=%d wall=%.2fs -> exit %d" % (
            self.pid, self.tier, len(self.clauses_run), n_ob, n_dis, len(viol), len(known), len(self.errors), wall, code)
        lines.append(summary)
        if write_evidence:
            self._write_evidence(wall, explanation, assumptions, extra or {}, len(new), len(known))
        if not self.quiet:
            print("\n".join(lines))
        return code

    def _write_replay(self, v):
        d = os.path.join(VERIF, "replay", self.pid)
        os.makedirs(d, exist_ok=True)
        h = hashlib.sha1((v.clause + "|" + v.key).encode()).hexdigest()[:10]
        p = os.path.join(d, "%s-%s.json" % (v.clause, h))
        with open(p, "w", encoding="utf-8") as f:
            json.dump(
                {
                    "property": self.pid,
                    "clause": v.clause,
                    "rule_family": v.family,
                    "construct": v.key,
                    "where": v.where,
                    "detail": v.detail,
                    "tier": self.tier,
                    "repo": self.repo.root,
                    "how_to_replay": "./check %s --replay %s" % (self.pid, p),
                },
                f,
                indent=1,
            )
        return p

    def _write_evidence(self, wall, explanation, assumptions, extra, n_new, n_known):
        d = os.path.join(VERIF, "evidence")
        os.makedirs(d, exist_ok=True)
        n_ob = len(self.obs)
        n_dis = sum(1 for o in self.obs if o.verdict == "discharged")
        distinct = len({(o.clause, o.key, o.detail) for o in self.obs})
        per_clause = {}
        for o in self.obs:
            c = per_clause.setdefault(o.clause, {"family": o.family, "obligations": 0, "discharged": 0, "violated": 0})
            c["obligations"] += 1
            c["discharged" if o.verdict == "discharged" else "violated"] += 1
        for c, r in self.errors:
            per_clause.setdefault(c, {"family": "-", "obligations": 0, "discharged": 0, "violated": 0})["undecidable"] = r
        # samples: every violated obligation, plus up to 3 per clause
        samples = [o.as_dict() for o in self.obs if o.verdict == "violated"]
        seen = {}
        for o in self.obs:
            if o.verdict != "discharged":
                continue
            seen[o.clause] = seen.get(o.clause, 0) + 1
            if seen[o.clause] <= 3:
                samples.append(o.as_dict())
        try:
            seed = int(os.environ.get("VERIF_SEED", "0"))
        except ValueError:
            seed = 0
        cov = {
            "explanation": explanation,
            "rule": "one obligation per (clause, construct) pair enumerated from the AST of the current tree; "
            "non-trivial = the obligation examined at least one concrete construct (site, path or table entry); "
            "distinct = distinct (clause, construct key, statement of what was checked)",
            "evaluations": n_ob,
            "distinct_nontrivial": distinct,
            "obligations": n_ob,
            "discharged": n_dis,
            "undecidable": [{"clause": c, "reason": r} for c, r in self.errors],
            "clauses": per_clause,
            "samples": samples,
            "exhaustive": True,
            "files_parsed": self.repo.n_files,
            "functions_parsed": self.repo.n_functions(),
            "cfgs_built": cfgmod.n_cfgs(),
            "repo_root": self.repo.root,
            "checker_cmd": "./check %s --tier %s" % (self.pid, self.tier),
            "trusted_base": ["CPython ast module (3.12)", "hand-confirmed attribute-type table in sa/resolve.py"],
            "known_findings_reported": n_known,
            "notes": self.info,
        }
        cov.update(extra)
        ev = {
            "property_id": self.pid,
            "tier": self.tier,
            "seed": seed,
            "level": "other",
            "coverage": cov,
            "assumptions": list(assumptions),
            "wall_s": round(wall, 3),
            "violations": n_new,
        }
        p = os.path.join(d, "%s.json" % self.pid)
        tmp = p + ".tmp%d" % os.getpid()
        with open(tmp, "w", encoding="utf-8") as f:
            json.dump(ev, f, indent=1)
        os.replace(tmp, p)
