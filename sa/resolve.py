"""Name, class and call resolution inside the analysed package (no types
available: mypy/pyright are not installed), plus the lock-set helper.

The attribute-type table is the only hand-written typing knowledge; it was
confirmed by reading the constructors and is printed in evidence as part of
the trusted base.
"""

import ast
import os

from .core import (
    PKG,
    AnchorMissing,
    calls_in,
    call_name,
    dotted,
    enclosing_func,
    enclosing_withs,
    walk_local,
)

# (owner class, attribute) -> list of (relpath, class) the attribute may hold
ATTR_TYPES = {
    ("BatchCompletionCallBack", "parallel"): [("joblib/parallel.py", "Parallel")],
    ("MemorizedFunc", "store_backend"): [("joblib/_store_backends.py", "FileSystemStoreBackend")],
    ("MemorizedResult", "store_backend"): [("joblib/_store_backends.py", "FileSystemStoreBackend")],
    ("Memory", "store_backend"): [("joblib/_store_backends.py", "FileSystemStoreBackend")],
}


def module_imports(mod):
    """local name -> ('module', relpath) | ('symbol', relpath, name) for
    intra-package imports; ('ext', dotted) for anything else."""
    out = {}
    base = os.path.dirname(mod.relpath)

    def rel_to_path(level, name):
        d = base
        for _ in range(level - 1):
            d = os.path.dirname(d)
        parts = name.split(".") if name else []
        return os.path.join(d, *parts) if parts else d

    for node in ast.walk(mod.tree):
        if isinstance(node, ast.ImportFrom):
            if node.level > 0:
                p = rel_to_path(node.level, node.module)
            elif node.module and node.module.split(".")[0] == PKG:
                p = os.path.join(*node.module.split("."))
            else:
                for a in node.names:
                    out.setdefault(a.asname or a.name, ("ext", "%s.%s" % (node.module, a.name)))
                continue
            for a in node.names:
                local = a.asname or a.name
                # `from . import disk` -> module ; `from .disk import mkdirp` -> symbol
                out.setdefault(local, ("maybe", p, a.name))
        elif isinstance(node, ast.Import):
            for a in node.names:
                out.setdefault(a.asname or a.name.split(".")[0], ("ext", a.name))
    return out


class Resolver:
    def __init__(self, repo):
        self.repo = repo
        self._imports = {}
        self._callers = None

    def imports(self, mod):
        if mod.relpath not in self._imports:
            raw = module_imports(mod)
            res = {}
            for local, v in raw.items():
                if v[0] == "maybe":
                    _, p, name = v
                    as_mod = os.path.join(p, name + ".py")
                    as_pkg = os.path.join(p, name, "__init__.py")
                    sym_mod = p + ".py"
                    sym_pkg = os.path.join(p, "__init__.py")
                    if as_mod in self.repo.modules:
                        res[local] = ("module", as_mod)
                    elif as_pkg in self.repo.modules:
                        res[local] = ("module", as_pkg)
                    elif sym_mod in self.repo.modules:
                        res[local] = ("symbol", sym_mod, name)
                    elif sym_pkg in self.repo.modules:
                        res[local] = ("symbol", sym_pkg, name)
                    else:
                        res[local] = ("ext", "%s.%s" % (p, name))
                else:
                    res[local] = v
            self._imports[mod.relpath] = res
        return self._imports[mod.relpath]

    def ext_name(self, node):
        """Fully dotted external name of a Name/Attribute expr, resolving
        `import os` / `from os import path as p` aliases: 'os.path.join'."""
        d = dotted(node)
        if d is None:
            return None
        mod = getattr(node, "_module", None)
        if mod is None:
            return d
        head, _, rest = d.partition(".")
        imp = self.imports(mod).get(head)
        if imp and imp[0] == "ext":
            return imp[1] + ("." + rest if rest else "")
        return d

    # -- classes -----------------------------------------------------------------
    def find_class(self, name, near=None):
        """(relpath, ClassDef) for a class name, preferring module `near`."""
        if near is not None:
            m = self.repo.modules.get(near)
            if m and name in m.classes:
                return near, m.classes[name]
            if m:
                imp = self.imports(m).get(name)
                if imp and imp[0] == "symbol":
                    m2 = self.repo.modules.get(imp[1])
                    if m2 and imp[2] in m2.classes:
                        return imp[1], m2.classes[imp[2]]
        hits = [(r, m.classes[name]) for r, m in self.repo.modules.items() if name in m.classes and "cloudpickle" not in r]
        if len(hits) == 1:
            return hits[0]
        return None

    def mro(self, relpath, cls):
        """Linearised (depth-first, left-to-right, duplicates dropped) list of
        (relpath, ClassDef) for in-package bases."""
        out, seen = [], set()

        def visit(rel, c):
            if id(c) in seen:
                return
            seen.add(id(c))
            out.append((rel, c))
            for b in c.bases:
                bn = dotted(b)
                if bn is None:
                    continue
                hit = self.find_class(bn.split(".")[-1], near=rel)
                if hit:
                    visit(*hit)

        visit(relpath, cls)
        return out

    def method(self, relpath, cls, name):
        for rel, c in self.mro(relpath, cls):
            for st in c.body:
                if isinstance(st, (ast.FunctionDef, ast.AsyncFunctionDef)) and st.name == name:
                    return st
        return None

    def subclasses(self, relpath, cls):
        out = []
        for r, m in self.repo.modules.items():
            for q, c in m.classes.items():
                if c is cls:
                    continue
                if any(cc is cls for _, cc in self.mro(r, c)):
                    out.append((r, c))
        return out

    def class_attr(self, relpath, cls, name):
        """Value expr of a class-level assignment `name = <expr>` via MRO."""
        for rel, c in self.mro(relpath, cls):
            for st in c.body:
                if isinstance(st, ast.Assign):
                    for t in st.targets:
                        if isinstance(t, ast.Name) and t.id == name:
                            return st.value
        return None

    # -- calls -------------------------------------------------------------------
    def resolve_call(self, call, polymorphic=False):
        """FunctionDefs a call may invoke (intra-package), [] if unknown."""
        fn = enclosing_func(call)
        mod = getattr(call, "_module", None)
        f = call.func
        out = []
        if isinstance(f, ast.Name) and mod is not None:
            if f.id in mod.funcs and "." not in f.id:
                return [mod.funcs[f.id]]
            if f.id in mod.classes:
                init = self.method(mod.relpath, mod.classes[f.id], "__init__")
                return [init] if init else []
            imp = self.imports(mod).get(f.id)
            if imp and imp[0] == "symbol":
                m2 = self.repo.modules.get(imp[1])
                if m2:
                    if imp[2] in m2.funcs:
                        return [m2.funcs[imp[2]]]
                    if imp[2] in m2.classes:
                        init = self.method(imp[1], m2.classes[imp[2]], "__init__")
                        return [init] if init else []
            return []
        if isinstance(f, ast.Attribute):
            base = f.value
            owner = getattr(fn, "_owner_class", None) if fn is not None else None
            # nested functions inside methods: climb to the method's class
            if owner is None and fn is not None:
                p = enclosing_func(fn)
                while p is not None and owner is None:
                    owner = getattr(p, "_owner_class", None)
                    p = enclosing_func(p)
            if isinstance(base, ast.Name) and base.id in ("self", "cls") and owner is not None and mod is not None:
                m = self.method(mod.relpath, owner, f.attr)
                if m is not None:
                    out.append(m)
                if polymorphic:
                    for r, c in self.subclasses(mod.relpath, owner):
                        for st in c.body:
                            if isinstance(st, ast.FunctionDef) and st.name == f.attr and st not in out:
                                out.append(st)
                if not out:
                    # class attribute alias: _move_item = staticmethod(func)
                    v = self.class_attr(mod.relpath, owner, f.attr)
                    if isinstance(v, ast.Call) and call_name(v) in ("staticmethod", "classmethod") and v.args:
                        v = v.args[0]
                    if v is not None and isinstance(v, (ast.Name, ast.Attribute)):
                        fake = ast.Call(func=v, args=[], keywords=[])
                        fake._module = mod
                        v._module = mod
                        fake._parent = None
                        out.extend(self._resolve_plain(v, mod))
                return out
            if isinstance(base, ast.Call) and call_name(base) == "super" and owner is not None and mod is not None:
                for rel, c in self.mro(mod.relpath, owner)[1:]:
                    for st in c.body:
                        if isinstance(st, ast.FunctionDef) and st.name == f.attr:
                            return [st]
                return []
            if isinstance(base, ast.Attribute) and isinstance(base.value, ast.Name) and base.value.id == "self" and owner is not None:
                for (rel, cname) in ATTR_TYPES.get((owner.name, base.attr), []):
                    try:
                        c = self.repo.cls(rel, cname)
                    except AnchorMissing:
                        continue
                    m = self.method(rel, c, f.attr)
                    if m is not None:
                        out.append(m)
                return out
            if mod is not None:
                return self._resolve_plain(f, mod)
        return out

    def _resolve_plain(self, f, mod):
        """`name` or `module.name` to a module-level function."""
        if isinstance(f, ast.Name):
            if f.id in mod.funcs:
                return [mod.funcs[f.id]]
            imp = self.imports(mod).get(f.id)
            if imp and imp[0] == "symbol":
                m2 = self.repo.modules.get(imp[1])
                if m2 and imp[2] in m2.funcs:
                    return [m2.funcs[imp[2]]]
            return []
        if isinstance(f, ast.Attribute) and isinstance(f.value, ast.Name):
            imp = self.imports(mod).get(f.value.id)
            if imp and imp[0] == "module":
                m2 = self.repo.modules.get(imp[1])
                if m2 and f.attr in m2.funcs:
                    return [m2.funcs[f.attr]]
        return []

    # -- call sites of a function --------------------------------------------------
    def callers(self, func, scope=None, polymorphic=False):
        """[(caller FunctionDef, Call)] for every call in `scope` modules that
        resolves to `func`."""
        out = []
        mods = [self.repo.modules[r] for r in (scope or self.repo.modules) if r in self.repo.modules]
        for m in mods:
            for q, f in m.funcs.items():
                for st in f.body:
                    for n in walk_local(st):
                        if isinstance(n, ast.Call) and dotted(n.func) and dotted(n.func).split(".")[-1] == func.name:
                            if any(t is func for t in self.resolve_call(n, polymorphic=polymorphic)):
                                out.append((f, n))
        return out


# -- may/must "does X" with helper inlining -----------------------------------------

def sites(resolver, func, pred, depth=2, must=False, _seen=None, assume=None):
    """AST nodes *in func* that are X-sites: nodes satisfying `pred`, plus
    calls to in-package helpers that (may | must on every normal path) reach
    an X-site, inlined to `depth`."""
    from .cfg import cfg_of

    out = []
    _seen = _seen or set()
    for n in _iter_body(func):
        if pred(n):
            out.append(n)
        elif isinstance(n, ast.Call) and depth > 0:
            for callee in resolver.resolve_call(n):
                if id(callee) in _seen or callee is func:
                    continue
                inner = sites(resolver, callee, pred, depth - 1, must, _seen | {id(func)}, assume)
                if not inner:
                    continue
                if must:
                    g = cfg_of(callee)
                    if g.every_path_from([g.entry], g.nodes_of_all(inner), skip_exc=True, avoid_edges=g.assume_edges(assume) if assume else ()):
                        out.append(n)
                        break
                else:
                    out.append(n)
                    break
    return out


def _iter_body(func):
    for st in func.body:
        for n in walk_local(st):
            yield n


# -- lock sets -----------------------------------------------------------------------

def lexical_locks(node, lock_names):
    """Lock identities (from `lock_names`: dotted expr -> identity) held
    lexically at `node` within its function."""
    held = set()
    for w in enclosing_withs(node):
        for item in w.items:
            d = dotted(item.context_expr)
            if d in lock_names:
                held.add(lock_names[d])
            # getattr(self, "_lock", nullcontext())
            ce = item.context_expr
            if isinstance(ce, ast.Call) and call_name(ce) == "getattr" and len(ce.args) >= 2:
                base = dotted(ce.args[0])
                attr = ce.args[1].value if isinstance(ce.args[1], ast.Constant) else None
                if base and attr and (base + "." + attr) in lock_names:
                    held.add(lock_names[base + "." + attr])
    return held


def held_at(resolver, node, lock_names, lock_id, entry_funcs, scope, _stack=None):
    """True if `lock_id` is held at `node` on every call chain from the
    concurrent entry points: lexically, or at *every* resolved call site of
    the enclosing function (recursively).  Functions in `entry_funcs` start
    with an empty lock set.  Returns (bool, chain description)."""
    if lock_id in lexical_locks(node, lock_names):
        return True, "lexical `with`"
    fn = enclosing_func(node)
    if fn is None:
        return False, "module level"
    _stack = _stack or []
    if any(f is fn for f in _stack):
        return True, "recursive cycle (assumed from the other call sites)"
    if any(fn is e for e in entry_funcs):
        return False, "%s is a concurrent entry point and takes no lock here" % fn._qualname
    cs = resolver.callers(fn, scope)
    if not cs:
        return False, "%s has no resolved caller holding the lock" % fn._qualname
    why = []
    for caller, call in cs:
        ok, chain = held_at(resolver, call, lock_names, lock_id, entry_funcs, scope, _stack + [fn])
        if not ok:
            return False, "call site in %s: %s" % (caller._qualname, chain)
        why.append(caller._qualname)
    return True, "every call site holds it (%s)" % ", ".join(sorted(set(why)))
