"""./check <Cxx|all> [--tier quick|thorough] [--repo DIR] [--replay FILE]"""

import argparse
import json
import os
import sys
import traceback

from . import cfg as cfgmod
from .core import AnchorMissing, Repo
from .report import Ctx
from .resolve import Resolver
from .rules import ALL, load

DEFAULT_REPO = "/repo"


def run_property(pid, root, tier, overrides=None, quiet=False, write_evidence=True, known=None):
    """Returns (exit code, ctx)."""
    mod = load(pid)
    if mod is None:
        print("ANALYSIS-ERROR property=%s rule=- reason=no rule module for this property" % pid)
        return 2, None
    cfgmod.reset_cache()
    repo = Repo(root, overrides=overrides)
    ctx = Ctx(pid, repo, tier=tier, quiet=quiet, known=known)
    ctx.res = Resolver(repo)
    mod.run(ctx)
    from .rules import total
    ctx.run(pid + ".TOTAL", "R-DEFUSE", total.total)
    if tier == "thorough" and overrides is None:
        from . import thorough
        ctx.extra = thorough.run_extras(ctx, pid, load)
        if write_evidence:
            st = thorough.run_selftest(root, thorough.family_of(pid))
            ctx.extra["selftest_on_current_tree"] = st
            if os.path.abspath(root) == DEFAULT_REPO:
                from . import refactor_fuzz
                rf = refactor_fuzz.run_for_property(pid, root)
                ctx.extra["refactoring_fuzz_on_current_tree"] = rf
                for r in rf["not_silent"]:
                    ctx.info.append("refactor-fuzz: behaviour-preserving variant %s of %s::%s is not silent (%s) - checker brittleness, not a property verdict" % (r[2], r[0], r[1], r[3]))
            co = thorough.run_corpora(root, pid)
            ctx.extra["sub_agent_corpora_on_current_tree"] = co
            for sid in co.get("seeded_changes_not_reported", []):
                ctx.info.append("corpus: seeded change %s is not reported on the current tree - checker weakness, not a property verdict" % sid)
            for sid, why in co.get("refactorings_not_silent", []):
                ctx.info.append("corpus: behaviour-preserving refactoring %s is not silent (%s) - checker brittleness, not a property verdict" % (sid, why))
            for r in st["failed"]:
                ctx.info.append("selftest: variant %s not classified as expected (%s) - checker weakness, not a property verdict" % (r[0], r[2]))
    code = ctx.finish(
        write_evidence=write_evidence,
        explanation=mod.EXPLANATION,
        assumptions=mod.ASSUMPTIONS,
        extra=getattr(ctx, "extra", None),
    )
    return code, ctx


def main(argv=None):
    ap = argparse.ArgumentParser(prog="check")
    ap.add_argument("property")
    ap.add_argument("--tier", default=os.environ.get("VERIF_TIER") or "quick", choices=["quick", "thorough"])
    ap.add_argument("--repo", default=DEFAULT_REPO)
    ap.add_argument("--replay")
    ap.add_argument("--no-evidence", action="store_true")
    args = ap.parse_args(argv)
    write_ev = not args.no_evidence and os.path.abspath(args.repo) == DEFAULT_REPO

    if args.property == "selftest":
        from . import selftest

        return selftest.main(args)

    pids = ALL if args.property == "all" else [args.property.upper()]
    worst = 0
    for pid in pids:
        try:
            if args.replay:
                code = replay(pid, args)
            else:
                code, _ = run_property(pid, args.repo, args.tier, write_evidence=write_ev)
        except AnchorMissing as e:
            print("ANALYSIS-ERROR property=%s rule=loader reason=%s" % (pid, e))
            code = 2
        except SyntaxError as e:
            print("ANALYSIS-ERROR property=%s rule=loader reason=tree does not parse: %s" % (pid, e))
            code = 2
        except Exception as e:
            tb = traceback.format_exc().strip().splitlines()
            print("ANALYSIS-ERROR property=%s rule=engine reason=%s: %s | %s" % (pid, type(e).__name__, e, tb[-3].strip() if len(tb) >= 3 else ""))
            code = 2
        if code == 1 or (code == 2 and worst == 0):
            worst = code if worst != 1 else 1
    return worst


def replay(pid, args):
    with open(args.replay, encoding="utf-8") as f:
        rec = json.load(f)
    code, ctx = run_property(pid, args.repo, rec.get("tier", args.tier), quiet=True, write_evidence=False)
    hits = [o for o in ctx.obs if o.clause == rec["clause"] and o.key == rec["construct"]]
    if not hits:
        print("replay: construct no longer present: %s [%s]" % (rec["construct"], rec["clause"]))
        print("replay: clause verdicts now: %s" % sorted({(o.verdict) for o in ctx.obs if o.clause == rec["clause"]}))
        return 0 if not any(o.verdict == "violated" for o in ctx.obs if o.clause == rec["clause"]) else 1
    bad = [o for o in hits if o.verdict == "violated"]
    for o in hits:
        print("replay: %s %s at %s\n  %s" % (o.verdict.upper(), o.clause, o.where, o.detail))
    if bad:
        print("VIOLATION property=%s replay=%s" % (pid, args.replay))
        return 1
    return 0


if __name__ == "__main__":
    sys.exit(main())
