#!/venv/bin/python
"""Behaviour-preserving refactoring fuzzer for the checkers (must-stay-silent at scale).

For every function of the analysed modules, build in-memory variants of the current tree:
  rename   : every local variable of the function consistently renamed (x -> x_rn)
  flipcmp  : every comparison `a >= b` / `a > b` / `a <= b` / `a < b` written the other way round
  noise    : a harmless statement (`_fuzz_noise = None`) inserted as first statement of the body
and run the quick checks of the properties whose rules read that file. Any VIOLATION or ANALYSIS-ERROR is a
brittleness of a rule (it consults a local name, a spelling or a position). Nothing is written to /repo.

usage: tools/refactor_fuzz.py [kind ...] [--file relpath] [--props C01,C04]
"""
import ast, io, json, os, sys, tokenize
from concurrent.futures import ProcessPoolExecutor
HERE = os.path.dirname(os.path.dirname(os.path.abspath(__file__)))
if HERE not in sys.path:
    sys.path.insert(0, HERE)
from sa.cli import run_property

ROOT = "/repo"
from .rules.total import _FILE_PROPS as FILE_PROPS


def functions(tree):
    out = []
    def rec(node, prefix):
        for ch in ast.iter_child_nodes(node):
            if isinstance(ch, (ast.FunctionDef, ast.AsyncFunctionDef)):
                out.append((prefix + ch.name, ch)); rec(ch, prefix + ch.name + ".")
            elif isinstance(ch, ast.ClassDef):
                rec(ch, prefix + ch.name + ".")
            else:
                rec(ch, prefix)
    rec(tree, "")
    return out


def local_names(fn):
    params = {a.arg for a in fn.args.posonlyargs + fn.args.args + fn.args.kwonlyargs}
    if fn.args.vararg: params.add(fn.args.vararg.arg)
    if fn.args.kwarg: params.add(fn.args.kwarg.arg)
    stored, banned = set(), set(params)
    nested = [n for n in ast.walk(fn) if isinstance(n, (ast.FunctionDef, ast.AsyncFunctionDef, ast.Lambda, ast.ClassDef)) and n is not fn]
    nested_ids = set()
    for nf in nested:
        if hasattr(nf, "name"):
            banned.add(nf.name)     # bound by the def/class statement itself, which the renamer does not rewrite
        for n in ast.walk(nf):
            if isinstance(n, ast.Name) and isinstance(n.ctx, ast.Store):
                banned.add(n.id)
            if isinstance(n, ast.arg):
                banned.add(n.arg)
            nested_ids.add(id(n))
    for n in ast.walk(fn):
        if isinstance(n, (ast.Global, ast.Nonlocal)):
            banned.update(n.names)
        if isinstance(n, ast.Name) and isinstance(n.ctx, (ast.Store, ast.Del)) and id(n) not in nested_ids:
            stored.add(n.id)
        if isinstance(n, ast.ExceptHandler) and n.name:
            banned.add(n.name)
        if isinstance(n, (ast.Import, ast.ImportFrom)):
            for a in n.names:
                banned.add((a.asname or a.name).split(".")[0])
        if isinstance(n, ast.comprehension):
            for t in ast.walk(n.target):
                if isinstance(t, ast.Name):
                    banned.add(t.id)
    return stored - banned


def apply_edits(src, edits):
    lines = src.splitlines(keepends=True)
    offs = [0]
    for l in lines:
        offs.append(offs[-1] + len(l.encode("utf-8")))
    b = src.encode("utf-8")
    for (ln, col, end_ln, end_col, new) in sorted(edits, reverse=True):
        s = offs[ln - 1] + col; e = offs[end_ln - 1] + end_col
        b = b[:s] + new.encode("utf-8") + b[e:]
    return b.decode("utf-8")


def variant_rename(src, fn):
    names = local_names(fn)
    if not names:
        return None
    edits = []
    for n in ast.walk(fn):
        if isinstance(n, ast.Name) and n.id in names:
            edits.append((n.lineno, n.col_offset, n.end_lineno, n.end_col_offset, n.id + "_rn"))
    return apply_edits(src, edits)


FLIP = {ast.GtE: "<=", ast.Gt: "<", ast.LtE: ">=", ast.Lt: ">"}


def variant_flipcmp(src, fn):
    edits = []
    for n in ast.walk(fn):
        if isinstance(n, ast.Compare) and len(n.ops) == 1 and type(n.ops[0]) in FLIP:
            l, r = n.left, n.comparators[0]
            # skip nested compares inside the operands to keep edits disjoint
            if any(isinstance(x, ast.Compare) for x in list(ast.walk(l))[1:] + list(ast.walk(r))[1:]) or isinstance(l, ast.Compare) or isinstance(r, ast.Compare):
                continue
            lt = ast.get_source_segment(src, l); rt = ast.get_source_segment(src, r)
            if lt is None or rt is None or "\n" in lt or "\n" in rt:
                continue
            edits.append((n.lineno, n.col_offset, n.end_lineno, n.end_col_offset, "%s %s %s" % (rt, FLIP[type(n.ops[0])], lt)))
    if not edits:
        return None
    # drop overlapping edits (outermost wins)
    edits.sort()
    kept = []
    for e in edits:
        if kept and (e[0], e[1]) < (kept[-1][2], kept[-1][3]):
            continue
        kept.append(e)
    return apply_edits(src, kept)


def variant_noise(src, fn):
    body = fn.body
    first = body[0]
    if isinstance(first, ast.Expr) and isinstance(first.value, ast.Constant) and isinstance(first.value.value, str):
        if len(body) < 2:
            return None
        first = body[1]
    indent = " " * first.col_offset
    return apply_edits(src, [(first.lineno, 0, first.lineno, 0, indent + "_fuzz_noise = None\n")])


def variant_noise2(src, fn):
    """a harmless statement as first statement of every nested block"""
    edits = []
    for n in ast.walk(fn):
        if n is fn or isinstance(n, (ast.FunctionDef, ast.AsyncFunctionDef, ast.ClassDef)):
            continue
        for field in ("body", "orelse", "finalbody"):
            blk = getattr(n, field, None)
            if isinstance(blk, list) and blk and isinstance(blk[0], ast.stmt):
                if field == "orelse" and isinstance(n, ast.If) and len(blk) == 1 and isinstance(blk[0], ast.If) and blk[0].col_offset == n.col_offset:
                    continue  # elif
                first = blk[0]
                # statement must start its own line
                line = src.splitlines()[first.lineno - 1]
                if line[: first.col_offset].strip():
                    continue
                edits.append((first.lineno, 0, first.lineno, 0, " " * first.col_offset + "_fuzz_noise = None\n"))
        if isinstance(n, ast.Try):
            for h in n.handlers:
                first = h.body[0]
                line = src.splitlines()[first.lineno - 1]
                if not line[: first.col_offset].strip():
                    edits.append((first.lineno, 0, first.lineno, 0, " " * first.col_offset + "_fuzz_noise = None\n"))
    if not edits:
        return None
    return apply_edits(src, sorted(set(edits)))


def variant_swapif(src, fn):
    """`if c: A else: B` -> `if not (c): B else: A` for every plain two-way if of the function (outermost only)"""
    lines = src.splitlines(keepends=True)
    edits = []
    taken = []
    for n in ast.walk(fn):
        if not (isinstance(n, ast.If) and n.orelse):
            continue
        if len(n.orelse) == 1 and isinstance(n.orelse[0], ast.If) and n.orelse[0].col_offset == n.col_offset:
            continue
        # must not be itself an elif branch
        hdr = lines[n.lineno - 1]
        if not hdr[n.col_offset:].startswith("if "):
            continue
        if any(a <= n.lineno <= b for a, b in taken):
            continue
        b0, b1 = n.body[0].lineno, n.body[-1].end_lineno
        e0, e1 = n.orelse[0].lineno, n.orelse[-1].end_lineno
        else_line = e0 - 1
        while else_line > b1 and not lines[else_line - 1].strip().startswith("else"):
            else_line -= 1
        if else_line <= b1 or lines[else_line - 1].strip() != "else:":
            continue
        if n.test.end_lineno != n.lineno and False:
            continue
        test_txt = ast.get_source_segment(src, n.test)
        if test_txt is None:
            continue
        # comments between body and else belong to neither; keep simple: require contiguous
        body_txt = "".join(lines[b0 - 1:else_line - 1])
        else_txt = "".join(lines[else_line:e1])
        head_end = n.body[0].lineno - 1
        first_body_line = b0
        # header may span several lines: header = lines[n.lineno-1 : b0-1]
        ind = " " * n.col_offset
        new = ind + "if not (" + test_txt + "):\n" + else_txt + ind + "else:\n" + body_txt
        edits.append((n.lineno, 0, e1 + 1 if e1 < len(lines) else e1, 0 if e1 < len(lines) else len(lines[e1 - 1]), new))
        taken.append((n.lineno, e1))
    if not edits:
        return None
    return apply_edits(src, edits)


def _simple_store(st):
    """(targets written, names/attrs read) of an assignment without calls, else None"""
    if not isinstance(st, ast.Assign) or len(st.targets) != 1:
        return None
    t = st.targets[0]
    if not (isinstance(t, ast.Name) or (isinstance(t, ast.Attribute) and isinstance(t.value, ast.Name))):
        return None
    for n in ast.walk(st.value):
        if isinstance(n, (ast.Call, ast.Subscript, ast.Await, ast.Yield, ast.YieldFrom, ast.NamedExpr, ast.Lambda, ast.ListComp, ast.DictComp, ast.SetComp, ast.GeneratorExp)):
            return None
    w = ast.unparse(t)
    r = {ast.unparse(n) for n in ast.walk(st.value) if isinstance(n, (ast.Name, ast.Attribute))}
    return w, r


def variant_swapind(src, fn):
    """swap adjacent, provably independent assignments (no calls, disjoint targets, neither reads the other's
    target): behaviour-preserving; rules must not depend on their relative order"""
    edits = []
    lines = src.splitlines()
    def blocks(node):
        for f in ("body", "orelse", "finalbody"):
            b = getattr(node, f, None)
            if isinstance(b, list) and b and isinstance(b[0], ast.stmt):
                yield b
        if isinstance(node, ast.Try):
            for h in node.handlers:
                yield h.body
    def rec(node):
        for b in blocks(node):
            i = 0
            while i < len(b) - 1:
                a, c = b[i], b[i + 1]
                sa_, sc = _simple_store(a), _simple_store(c)
                ok = sa_ and sc and sa_[0] != sc[0] and sa_[0] not in sc[1] and sc[0] not in sa_[1] and a.col_offset == c.col_offset \
                    and not sa_[0].startswith(sc[0] + ".") and not sc[0].startswith(sa_[0] + ".") \
                    and not any(x.startswith(sa_[0] + ".") or x == sa_[0] for x in sc[1]) and not any(x.startswith(sc[0] + ".") or x == sc[0] for x in sa_[1])
                if ok and not lines[a.lineno - 1][: a.col_offset].strip() and not lines[c.lineno - 1][: c.col_offset].strip():
                    ta, tc = ast.get_source_segment(src, a), ast.get_source_segment(src, c)
                    if ta and tc:
                        edits.append((a.lineno, a.col_offset, a.end_lineno, a.end_col_offset, tc))
                        edits.append((c.lineno, c.col_offset, c.end_lineno, c.end_col_offset, ta))
                        i += 2
                        continue
                i += 1
            for st in b:
                if not isinstance(st, (ast.FunctionDef, ast.AsyncFunctionDef, ast.ClassDef)):
                    rec(st)
    rec(fn)
    if not edits:
        return None
    return apply_edits(src, edits)


def variant_noise3(src, fn):
    """like noise2, but the inserted statement contains a call (`_fuzz_noise = str(0)`): to the CFG it may raise, as a
    logging call added to a try body would"""
    v = variant_noise2(src, fn)
    return None if v is None else v.replace("_fuzz_noise = None\n", "_fuzz_noise = str(0)\n")



def _own_line(lines, st):
    return not lines[st.lineno - 1][: st.col_offset].strip()


def _walk_own(fn):
    """nodes of fn excluding nested defs/classes"""
    stack = list(ast.iter_child_nodes(fn))
    while stack:
        n = stack.pop()
        yield n
        if isinstance(n, (ast.FunctionDef, ast.AsyncFunctionDef, ast.ClassDef, ast.Lambda)):
            continue
        stack.extend(ast.iter_child_nodes(n))


def variant_augassign(src, fn):
    """`x += e` -> `x = x + e` (Name / self.attr targets, + and - only, value not a list/tuple display)"""
    edits = []
    for n in _walk_own(fn):
        if isinstance(n, ast.AugAssign) and isinstance(n.op, (ast.Add, ast.Sub)) and isinstance(n.target, (ast.Name, ast.Attribute)) \
                and not isinstance(n.value, (ast.List, ast.Tuple, ast.ListComp)):
            t = ast.get_source_segment(src, n.target); v = ast.get_source_segment(src, n.value)
            if t and v and "\n" not in v:
                op = "+" if isinstance(n.op, ast.Add) else "-"
                edits.append((n.lineno, n.col_offset, n.end_lineno, n.end_col_offset, "%s = %s %s (%s)" % (t, t, op, v)))
    return apply_edits(src, edits) if edits else None


def _terminates(body):
    return isinstance(body[-1], (ast.Return, ast.Raise, ast.Continue, ast.Break))


def variant_elseflat(src, fn):
    """`if c: ...; return` + `else: B`  ->  `if c: ...; return` followed by B dedented (outermost ifs only)"""
    lines = src.splitlines(keepends=True)
    edits = []; taken = []
    for n in ast.walk(fn):
        if not (isinstance(n, ast.If) and n.orelse and _terminates(n.body)):
            continue
        if len(n.orelse) == 1 and isinstance(n.orelse[0], ast.If) and n.orelse[0].col_offset == n.col_offset:
            continue
        if not lines[n.lineno - 1][n.col_offset:].startswith("if "):
            continue
        if any(a <= n.lineno <= b for a, b in taken):
            continue
        b1 = n.body[-1].end_lineno
        e0, e1 = n.orelse[0].lineno, n.orelse[-1].end_lineno
        else_line = e0 - 1
        while else_line > b1 and not lines[else_line - 1].strip().startswith("else"):
            else_line -= 1
        if else_line <= b1 or lines[else_line - 1].strip() != "else:":
            continue
        delta = n.orelse[0].col_offset - n.col_offset
        seg = lines[else_line:e1]
        # multi-line string literals inside the block make dedenting unsafe
        if any(isinstance(x, ast.Constant) and isinstance(x.value, str) and x.end_lineno != x.lineno for st in n.orelse for x in ast.walk(st)):
            continue
        new = "".join((l[delta:] if l.strip() else l) for l in seg)
        edits.append((else_line, 0, e1 + 1 if e1 < len(lines) else e1, 0 if e1 < len(lines) else len(lines[e1 - 1]), new))
        taken.append((n.lineno, e1))
    return apply_edits(src, edits) if edits else None


def variant_elsewrap(src, fn):
    """`if c: ...; return` followed by the rest R of the block  ->  `if c: ... return` `else: R` (function body level and
    one nesting level; the if has no else)"""
    lines = src.splitlines(keepends=True)
    edits = []
    def blocks(node):
        for f in ("body", "orelse", "finalbody"):
            b = getattr(node, f, None)
            if isinstance(b, list) and b and isinstance(b[0], ast.stmt):
                yield b
    done = []
    for holder in [fn] + [x for x in _walk_own(fn) if isinstance(x, (ast.For, ast.While, ast.With, ast.If))]:
        for b in blocks(holder):
            for i, st in enumerate(b[:-1]):
                if isinstance(st, ast.If) and not st.orelse and _terminates(st.body) and _own_line(lines, st):
                    rest = b[i + 1:]
                    r0, r1 = rest[0].lineno, rest[-1].end_lineno
                    if any(a <= r1 and r0 <= c for a, c in done) or any(a <= st.lineno <= c for a, c in done):
                        continue
                    if not all(_own_line(lines, r) for r in rest):
                        continue
                    if any(isinstance(x, ast.Constant) and isinstance(x.value, str) and x.end_lineno != x.lineno for r in rest for x in ast.walk(r)):
                        continue
                    # decorators / comments directly above rest[0] stay where they are (part of the text range)
                    start = st.body[-1].end_lineno + 1
                    seg = lines[start - 1:r1]
                    ind = " " * st.col_offset
                    new = ind + "else:\n" + "".join(("    " + l if l.strip() else l) for l in seg)
                    edits.append((start, 0, r1 + 1 if r1 < len(lines) else r1, 0 if r1 < len(lines) else len(lines[r1 - 1]), new))
                    done.append((st.lineno, r1))
                    break
    return apply_edits(src, edits) if edits else None


def variant_retvar(src, fn):
    """`return <expr>` -> `_fuzz_rv = <expr>` ; `return _fuzz_rv` (expression returns only)"""
    lines = src.splitlines(keepends=True)
    edits = []
    for n in _walk_own(fn):
        if isinstance(n, ast.Return) and n.value is not None and not isinstance(n.value, (ast.Constant, ast.Name)) and _own_line(lines, n):
            v = ast.get_source_segment(src, n.value)
            if not v:
                continue
            ind = " " * n.col_offset
            edits.append((n.lineno, n.col_offset, n.end_lineno, n.end_col_offset, "_fuzz_rv = (%s)\n%sreturn _fuzz_rv" % (v, ind)))
    if any(isinstance(x, (ast.Yield, ast.YieldFrom)) for x in _walk_own(fn)):
        return None
    return apply_edits(src, edits) if edits else None


def variant_condsplit(src, fn):
    """`if a and b: X` (no else) -> `if a:` / `    if b: X`"""
    lines = src.splitlines(keepends=True)
    edits = []; taken = []
    for n in ast.walk(fn):
        if isinstance(n, ast.If) and not n.orelse and isinstance(n.test, ast.BoolOp) and isinstance(n.test.op, ast.And) and _own_line(lines, n):
            if not lines[n.lineno - 1][n.col_offset:].startswith("if "):
                continue
            if any(a <= n.lineno <= b for a, b in taken):
                continue
            if any(isinstance(x, ast.Constant) and isinstance(x.value, str) and x.end_lineno != x.lineno for st in n.body for x in ast.walk(st)):
                continue
            if any(isinstance(x, ast.NamedExpr) for x in ast.walk(n.test)):
                continue
            first = ast.get_source_segment(src, n.test.values[0])
            rest = " and ".join("(" + ast.get_source_segment(src, v) + ")" for v in n.test.values[1:])
            b0, b1 = n.body[0].lineno, n.body[-1].end_lineno
            if n.body[0].lineno == n.test.end_lineno:
                continue
            ind = " " * n.col_offset
            body = "".join(("    " + l if l.strip() else l) for l in lines[b0 - 1:b1])
            # comments between header and body are carried with the header range; keep simple
            new = ind + "if (" + first + "):\n" + ind + "    if " + rest + ":\n" + body
            edits.append((n.lineno, 0, b1 + 1 if b1 < len(lines) else b1, 0 if b1 < len(lines) else len(lines[b1 - 1]), new))
            taken.append((n.lineno, b1))
    return apply_edits(src, edits) if edits else None


def variant_annot(src, fn):
    """type annotations on every un-annotated plain parameter (except self/cls) and a docstring-free `-> "object"`-less
    signature: only parameters are touched"""
    edits = []
    for a in fn.args.posonlyargs + fn.args.args + fn.args.kwonlyargs:
        if a.annotation is None and a.arg not in ("self", "cls"):
            edits.append((a.lineno, a.col_offset, a.end_lineno, a.end_col_offset, a.arg + ': "object"'))
    return apply_edits(src, edits) if edits else None


def variant_withsplit(src, fn):
    """`with a, b:` -> nested withs"""
    lines = src.splitlines(keepends=True)
    edits = []; taken = []
    for n in ast.walk(fn):
        if isinstance(n, ast.With) and len(n.items) > 1 and _own_line(lines, n) and n.items[-1].context_expr.end_lineno == n.lineno:
            if any(a <= n.lineno <= b for a, b in taken):
                continue
            b0, b1 = n.body[0].lineno, n.body[-1].end_lineno
            if any(isinstance(x, ast.Constant) and isinstance(x.value, str) and x.end_lineno != x.lineno for st in n.body for x in ast.walk(st)):
                continue
            ind = " " * n.col_offset
            def item(it):
                t = ast.get_source_segment(src, it.context_expr)
                return t + (" as " + ast.get_source_segment(src, it.optional_vars) if it.optional_vars is not None else "")
            new = ""
            for k, it in enumerate(n.items):
                new += ind + "    " * k + "with " + item(it) + ":\n"
            extra = "    " * (len(n.items) - 1)
            new += "".join((extra + l if l.strip() else l) for l in lines[b0 - 1:b1])
            edits.append((n.lineno, 0, b1 + 1 if b1 < len(lines) else b1, 0 if b1 < len(lines) else len(lines[b1 - 1]), new))
            taken.append((n.lineno, b1))
    return apply_edits(src, edits) if edits else None


KINDS = {"augassign": variant_augassign, "elseflat": variant_elseflat, "elsewrap": variant_elsewrap, "retvar": variant_retvar, "condsplit": variant_condsplit, "annot": variant_annot, "withsplit": variant_withsplit, "noise3": variant_noise3, "swapind": variant_swapind, "swapif": variant_swapif, "rename": variant_rename, "flipcmp": variant_flipcmp, "noise": variant_noise, "noise2": variant_noise2}


def job(args):
    rel, q, kind, props = args
    src = open(os.path.join(ROOT, rel), encoding="utf-8").read()
    tree = ast.parse(src)
    fn = dict(functions(tree))[q]
    try:
        new = KINDS[kind](src, fn)
    except Exception as e:
        return (rel, q, kind, "skip", "variant builder: %r" % e)
    if new is None or new == src:
        return (rel, q, kind, "skip", "")
    try:
        ast.parse(new)
    except SyntaxError as e:
        return (rel, q, kind, "skip", "syntax %s" % e)
    bad = []
    sys.stdout = open(os.devnull, "w")
    try:
        for p in props:
            code, ctx = run_property(p, ROOT, "quick", overrides={rel: new}, quiet=True, write_evidence=False, known=[])
            if code != 0:
                bad.append((p, code, sorted({o.clause for o in ctx.violations()}) + [c for c, _ in ctx.errors]))
    finally:
        sys.stdout = sys.__stdout__
    return (rel, q, kind, "FAIL" if bad else "ok", bad)


def run_for_property(pid, root=ROOT, kinds=("rename", "flipcmp", "swapif", "noise2", "noise3", "swapind", "augassign", "elseflat", "elsewrap", "retvar", "condsplit", "withsplit"), jobs=16):
    """must-stay-silent variants of the files this property's rules read, checked against this property only"""
    global ROOT
    ROOT = root
    js = []
    for rel, props in FILE_PROPS.items():
        if pid not in props:
            continue
        src = open(os.path.join(root, rel), encoding="utf-8").read()
        for q, fn in functions(ast.parse(src)):
            for k in kinds:
                js.append((rel, q, k, [pid]))
    with ProcessPoolExecutor(jobs) as ex:
        res = list(ex.map(job, js, chunksize=8))
    return {"variants_built": sum(1 for r in res if r[3] != "skip"), "silent": sum(1 for r in res if r[3] == "ok"),
            "not_silent": [list(r[:3]) + [r[4]] for r in res if r[3] == "FAIL"], "kinds": list(kinds)}


def main():
    args = sys.argv[1:]
    only_file = only_props = None
    if "--file" in args:
        i = args.index("--file"); only_file = args[i + 1]; del args[i:i + 2]
    if "--props" in args:
        i = args.index("--props"); only_props = args[i + 1].split(","); del args[i:i + 2]
    kinds = args or list(KINDS)
    jobs = []
    for rel, props in FILE_PROPS.items():
        if only_file and rel != only_file:
            continue
        props = [p for p in props if not only_props or p in only_props]
        src = open(os.path.join(ROOT, rel), encoding="utf-8").read()
        for q, fn in functions(ast.parse(src)):
            for k in kinds:
                jobs.append((rel, q, k, props))
    with ProcessPoolExecutor(16) as ex:
        res = list(ex.map(job, jobs, chunksize=4))
    n_ok = sum(1 for r in res if r[3] == "ok"); n_skip = sum(1 for r in res if r[3] == "skip")
    fails = [r for r in res if r[3] == "FAIL"]
    for r in fails:
        print("FAIL %-8s %s::%s  %s" % (r[2], r[0], r[1], r[4]))
    print("refactor-fuzz: %d variants, %d silent, %d skipped, %d FAIL" % (len(res), n_ok, n_skip, len(fails)))
    json.dump([list(r) for r in fails], open("/tmp/w/refactor_fuzz_fails.json", "w"), indent=0)
    return 1 if fails else 0


if __name__ == "__main__":
    sys.exit(main())
