"""Recover the pinned tree's local variable names by *definition signature*.

Rules are written against the local names of the tree they were developed on. A behaviour-preserving
rename of a local variable must not change any verdict, so before the rules run every function's
locals are matched, by the shape of their definitions, with the locals recorded for that function in
reference/locals.json (frozen from the pinned, repaired tree) and renamed back in the AST.

signature(local x) = sorted multiset of its defining constructs, each as
    (kind, text of the defining expression with every local name masked as `_`, guarding tests (masked))
Parameters, attributes, globals and called names stay as they are: they are interface-level names.
Locals whose definitions changed simply find no partner and keep their current name.
"""

import ast
import hashlib
import json
import os

FUNC = (ast.FunctionDef, ast.AsyncFunctionDef)


def _own_nodes(fn):
    """nodes of fn's own scope (nested function/lambda/class/comprehension scopes excluded)"""
    stack = list(fn.body)
    while stack:
        n = stack.pop()
        yield n
        if isinstance(n, FUNC + (ast.Lambda, ast.ClassDef)):
            continue
        stack.extend(ast.iter_child_nodes(n))


def local_set(fn):
    a = fn.args
    params = {x.arg for x in a.posonlyargs + a.args + a.kwonlyargs}
    if a.vararg:
        params.add(a.vararg.arg)
    if a.kwarg:
        params.add(a.kwarg.arg)
    stored, banned = set(), set(params)
    comp_vars = set()
    for n in _own_nodes(fn):
        if isinstance(n, (ast.Global, ast.Nonlocal)):
            banned.update(n.names)
        elif isinstance(n, ast.Name) and isinstance(n.ctx, (ast.Store, ast.Del)):
            stored.add(n.id)
        elif isinstance(n, ast.ExceptHandler) and n.name:
            banned.add(n.name)
        elif isinstance(n, (ast.Import, ast.ImportFrom)):
            for x in n.names:
                banned.add((x.asname or x.name).split(".")[0])
        elif isinstance(n, FUNC + (ast.ClassDef,)):
            banned.add(n.name)
        elif isinstance(n, ast.comprehension):
            for t in ast.walk(n.target):
                if isinstance(t, ast.Name):
                    comp_vars.add(t.id)
    # names assigned inside nested scopes are left alone (closure rebinding subtleties)
    for n in ast.walk(fn):
        if n is not fn and isinstance(n, FUNC + (ast.Lambda,)):
            for m in ast.walk(n):
                if isinstance(m, ast.Name) and isinstance(m.ctx, ast.Store):
                    banned.add(m.id)
                if isinstance(m, ast.arg):
                    banned.add(m.arg)
    return (stored - banned) - comp_vars


def _masked(node, locals_):
    class M(ast.NodeTransformer):
        def visit_Name(self, n):
            if n.id in locals_:
                return ast.copy_location(ast.Name(id="_", ctx=n.ctx), n)
            return n
    import copy
    try:
        fresh = ast.parse(ast.unparse(node), mode="eval").body if isinstance(node, ast.expr) else None
    except Exception:
        fresh = None
    if fresh is None:
        return "?"
    return " ".join(ast.unparse(M().visit(fresh)).split())


def _guards(node, fn, locals_, parents):
    out = []
    child = node
    p = parents.get(id(node))
    while p is not None and p is not fn:
        if isinstance(p, (ast.If, ast.While)):
            if child in p.body:
                out.append("T:" + _masked(p.test, locals_))
            elif child in p.orelse:
                out.append("F:" + _masked(p.test, locals_))
        elif isinstance(p, ast.ExceptHandler):
            out.append("except:" + (_masked(p.type, locals_) if p.type is not None else ""))
        child = p
        p = parents.get(id(p))
    return tuple(reversed(out))


def signatures(fn):
    """{name: (signature string, first position)} for fn's locals"""
    locals_ = local_set(fn)
    if not locals_:
        return {}
    parents = {}
    for n in ast.walk(fn):
        for c in ast.iter_child_nodes(n):
            parents[id(c)] = n
    defs = {}
    first = {}
    # position = pre-order rank in the function body, not the line number: statements inlined from a
    # helper keep the helper's line numbers, and the order that matters is the order of execution
    order = {}

    def rank(n):
        order[id(n)] = len(order)
        for c in ast.iter_child_nodes(n):
            rank(c)

    rank(fn)

    def add(name, desc, node):
        if name in locals_:
            defs.setdefault(name, []).append(desc)
            pos = (order.get(id(node), 0),)
            first[name] = min(first.get(name, pos), pos)

    def targets(t, value_text, node, kind, guards):
        if isinstance(t, ast.Name):
            add(t.id, (kind, value_text, guards), node)
        elif isinstance(t, (ast.Tuple, ast.List)):
            for i, e in enumerate(t.elts):
                targets(e, "%s[%d/%d]" % (value_text, i, len(t.elts)), node, kind, guards)
        elif isinstance(t, ast.Starred):
            targets(t.value, value_text + "[*]", node, kind, guards)

    for n in _own_nodes(fn):
        if isinstance(n, ast.Assign):
            g = _guards(n, fn, locals_, parents)
            for t in n.targets:
                targets(t, _masked(n.value, locals_), n, "=", g)
        elif isinstance(n, ast.AnnAssign) and n.value is not None:
            targets(n.target, _masked(n.value, locals_), n, "=", _guards(n, fn, locals_, parents))
        elif isinstance(n, ast.AugAssign):
            targets(n.target, type(n.op).__name__ + ":" + _masked(n.value, locals_), n, "aug", _guards(n, fn, locals_, parents))
        elif isinstance(n, (ast.For, ast.AsyncFor)):
            targets(n.target, _masked(n.iter, locals_), n, "for", _guards(n, fn, locals_, parents))
        elif isinstance(n, (ast.With, ast.AsyncWith)):
            for it in n.items:
                if it.optional_vars is not None:
                    targets(it.optional_vars, _masked(it.context_expr, locals_), n, "with", _guards(n, fn, locals_, parents))
        elif isinstance(n, ast.NamedExpr):
            targets(n.target, _masked(n.value, locals_), n, ":=", _guards(n, fn, locals_, parents))
    out = {}
    for name, ds in defs.items():
        h = hashlib.sha1(repr(sorted(ds)).encode()).hexdigest()[:16]
        out[name] = (h, first[name])
    return out


def keyed(fn):
    """{sig#k: name} with k numbering equal signatures by first definition position"""
    sigs = signatures(fn)
    groups = {}
    for name, (h, pos) in sigs.items():
        groups.setdefault(h, []).append((pos, name))
    out = {}
    for h, lst in groups.items():
        for k, (_, name) in enumerate(sorted(lst)):
            out["%s#%d" % (h, k)] = name
    return out


_ref = None


def reference():
    global _ref
    if _ref is None:
        p = os.path.join(os.path.dirname(os.path.dirname(os.path.abspath(__file__))), "reference", "locals.json")
        _ref = json.load(open(p)) if os.path.exists(p) else {}
    return _ref


def recover(module):
    """Rename, in place, the locals of every function of `module` to the reference names. Returns the
    number of names changed."""
    ref = reference().get(module.relpath)
    if not ref:
        return 0
    n_changed = 0
    for q, fn in module.funcs.items():
        want = ref.get(q)
        if not want:
            continue
        cur = keyed(fn)
        ren = {}
        for key, name in cur.items():
            r = want.get(key)
            if r is not None and r != name:
                ren[name] = r
        if not ren:
            continue
        current_names = set(cur.values())
        # avoid capture: a target name that is still in use by a local that is not itself renamed away
        for name, r in list(ren.items()):
            if r in current_names and r not in ren:
                del ren[name]
        if not ren:
            continue
        for n in ast.walk(fn):
            if isinstance(n, ast.Name) and n.id in ren:
                n.id = ren[n.id]
                n_changed += 1
    return n_changed
