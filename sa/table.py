"""Finite truth tables: interpret a boolean/selection expression of the analysed source over an explicit, finite
environment (no joblib code is executed - only the expression's own AST is folded over constants supplied by the rule).

ev(expr, env, fn=None): env maps the *source text* of atoms (`prefer`, `self._mode`, `sys.byteorder`,
`getattr(backend, 'uses_threads', False)`, ...) to Python values.  A Name that is not in env is resolved through its
single assignment inside `fn`.  Anything else raises Unknown, which rules turn into `Undecidable` (exit 2)."""
import ast


class Unknown(Exception):
    pass


def ev(e, env, fn=None, depth=0):
    if depth > 12:
        raise Unknown("definition chain too deep")
    txt = ast.unparse(e)
    if txt in env:
        return env[txt]
    if isinstance(e, ast.Constant):
        return e.value
    if isinstance(e, ast.BoolOp):
        v = None
        for x in e.values:
            v = ev(x, env, fn, depth)
            if isinstance(e.op, ast.And) and not v:
                return v
            if isinstance(e.op, ast.Or) and v:
                return v
        return v
    if isinstance(e, ast.UnaryOp) and isinstance(e.op, ast.Not):
        return not ev(e.operand, env, fn, depth)
    if isinstance(e, ast.UnaryOp) and isinstance(e.op, ast.USub):
        return -ev(e.operand, env, fn, depth)
    if isinstance(e, ast.IfExp):
        return ev(e.body, env, fn, depth) if ev(e.test, env, fn, depth) else ev(e.orelse, env, fn, depth)
    if isinstance(e, ast.Compare):
        l = ev(e.left, env, fn, depth)
        for op, c in zip(e.ops, e.comparators):
            r = ev(c, env, fn, depth)
            if isinstance(op, ast.Eq):
                ok = l == r
            elif isinstance(op, ast.NotEq):
                ok = l != r
            elif isinstance(op, ast.In):
                ok = l in r
            elif isinstance(op, ast.NotIn):
                ok = l not in r
            elif isinstance(op, ast.Is):
                ok = l is r or (l == r and isinstance(l, (str, bool, int, type(None))))
            elif isinstance(op, ast.IsNot):
                ok = not (l is r or (l == r and isinstance(l, (str, bool, int, type(None)))))
            elif isinstance(op, ast.Lt):
                ok = l < r
            elif isinstance(op, ast.LtE):
                ok = l <= r
            elif isinstance(op, ast.Gt):
                ok = l > r
            elif isinstance(op, ast.GtE):
                ok = l >= r
            else:
                raise Unknown(txt)
            if not ok:
                return False
            l = r
        return True
    if isinstance(e, ast.BinOp) and isinstance(e.op, (ast.Add, ast.Sub, ast.Mult, ast.FloorDiv, ast.Mod)):
        l, r = ev(e.left, env, fn, depth), ev(e.right, env, fn, depth)
        return {ast.Add: lambda: l + r, ast.Sub: lambda: l - r, ast.Mult: lambda: l * r, ast.FloorDiv: lambda: l // r, ast.Mod: lambda: l % r}[type(e.op)]()
    if isinstance(e, (ast.Tuple, ast.List, ast.Set)):
        return tuple(ev(x, env, fn, depth) for x in e.elts)
    if isinstance(e, ast.Call) and isinstance(e.func, ast.Name) and e.func.id in ("bool", "max", "min", "abs", "int", "len") and not e.keywords:
        args = [ev(a, env, fn, depth) for a in e.args]
        return {"bool": bool, "max": max, "min": min, "abs": abs, "int": int, "len": len}[e.func.id](*args)
    if isinstance(e, ast.Name) and fn is not None:
        defs = [a for a in ast.walk(fn) if isinstance(a, ast.Assign) and len(a.targets) == 1 and isinstance(a.targets[0], ast.Name) and a.targets[0].id == e.id]
        if len(defs) == 1:
            return ev(defs[0].value, env, fn, depth + 1)
    raise Unknown(txt)


def taken(g, stmt, env, fn=None, ignore=lambda test: False):
    """Is `stmt` executed when the atoms have the values of `env`?  Every guarding test that edge-dominates the
    statement (g.conditions_at) is folded over env and must come out with the polarity of the dominating edge.
    Tests for which `ignore(test)` holds are not folded (e.g. validation guards that raise). Raises Unknown."""
    for (_node, test, pol) in g.conditions_at(g.nodes_of(stmt)):
        if isinstance(_node, (ast.For, ast.AsyncFor)) or ignore(test):
            continue
        if bool(ev(test, env, fn)) != pol:
            return False
    return True


def run(g, env, fn=None, max_steps=400):
    """Walk the CFG of a small function from its entry under `env` (atoms -> values): tests are folded and the
    matching edge is followed, assignments to plain local names update the environment, every other simple statement
    is skipped (no effects are modelled).  Returns ("return", value) / ("raise", stmt) / ("fall", None).
    Raises Unknown for loops over unknown iterables, with-blocks are entered, try bodies are followed without
    exceptions."""
    env = dict(env)
    n = g.entry
    steps = 0
    while True:
        steps += 1
        if steps > max_steps:
            raise Unknown("path too long (loop?)")
        node = g.nodes[n]
        if n == g.exit:
            return ("fall", None)
        if n == g.xexit:
            return ("raise", None)
        a = node.ast
        if node.kind == "test":
            v = bool(ev(a.test, env, None))
            nxt = g.label_succ(n, "T" if v else "F")
            if not nxt:
                raise Unknown("constant-folded branch")
            n = nxt[0]
            continue
        if node.kind == "for":
            raise Unknown("for loop")
        if node.kind == "stmt" and isinstance(a, ast.Return):
            return ("return", ev(a.value, env, None) if a.value is not None else None)
        if node.kind == "stmt" and isinstance(a, ast.Raise):
            return ("raise", a)
        if node.kind == "stmt" and isinstance(a, ast.Assign) and len(a.targets) == 1 and isinstance(a.targets[0], ast.Name):
            try:
                env[a.targets[0].id] = ev(a.value, env, None)
            except Unknown:
                env.pop(a.targets[0].id, None)
        nxt = [t for (t, lab) in node.succ if lab != "exc"]
        if not nxt:
            nxt = [t for (t, lab) in node.succ]
        if not nxt:
            return ("fall", None)
        n = nxt[0]


def trace(g, env, max_steps=600, call_args=()):
    """Like run(), and records what the walk passed: returns (outcome, value, visited statements, calls) where `calls` is
    [(dotted callee, [argument values or Unknown]), ...] for the calls named in `call_args`, evaluated in the environment
    at that statement. AugAssign on plain locals is folded too. Nothing but the function's own expressions is evaluated."""
    env = dict(env)
    n = g.entry
    visited, calls = [], []
    steps = 0

    def note_calls(a):
        for c in ast.walk(a):
            if isinstance(c, ast.Call):
                nm = ast.unparse(c.func)
                if nm in call_args:
                    vals = []
                    for x in list(c.args) + [k.value for k in c.keywords]:
                        try:
                            vals.append(ev(x, env, None))
                        except Unknown:
                            vals.append(Unknown)
                    calls.append((nm, vals, c))

    while True:
        steps += 1
        if steps > max_steps:
            raise Unknown("path too long (loop?)")
        node = g.nodes[n]
        if n == g.exit:
            return ("fall", None, visited, calls)
        if n == g.xexit:
            return ("raise", None, visited, calls)
        a = node.ast
        if a is not None and node.kind in ("stmt", "test", "with"):
            visited.append(a)
        if node.kind == "test":
            note_calls(a.test)
            v = bool(ev(a.test, env, None))
            nxt = g.label_succ(n, "T" if v else "F")
            if not nxt:
                raise Unknown("constant-folded branch")
            n = nxt[0]
            continue
        if node.kind == "for":
            raise Unknown("for loop")
        if node.kind == "stmt":
            if isinstance(a, ast.Return):
                if a.value is not None:
                    note_calls(a.value)
                try:
                    val = ev(a.value, env, None) if a.value is not None else None
                except Unknown:
                    val = Unknown
                return ("return", val, visited, calls)
            if isinstance(a, ast.Raise):
                return ("raise", a, visited, calls)
            note_calls(a)
            if isinstance(a, ast.Assign) and len(a.targets) == 1 and isinstance(a.targets[0], ast.Name):
                try:
                    env[a.targets[0].id] = ev(a.value, env, None)
                except Unknown:
                    env.pop(a.targets[0].id, None)
            elif isinstance(a, ast.Assign) and len(a.targets) == 1 and isinstance(a.targets[0], (ast.Attribute, ast.Subscript)):
                key = ast.unparse(a.targets[0])
                try:
                    env[key] = ev(a.value, env, None)
                except Unknown:
                    env.pop(key, None)
            elif isinstance(a, ast.AugAssign) and isinstance(a.target, ast.Name) and isinstance(a.op, (ast.Add, ast.Sub)):
                try:
                    cur = ev(a.target, env, None)
                    d = ev(a.value, env, None)
                    env[a.target.id] = cur + d if isinstance(a.op, ast.Add) else cur - d
                except Unknown:
                    env.pop(a.target.id, None)
        nxt = [t for (t, lab) in node.succ if lab != "exc"] or [t for (t, lab) in node.succ]
        if not nxt:
            return ("fall", None, visited, calls)
        n = nxt[0]


def traces(g, env, call_args=(), max_paths=64, max_steps=600):
    """All walks of trace() when a test cannot be folded: both branches are explored (bounded). Yields the same tuples as
    trace(). A rule then quantifies over the walks of a row (every walk must ... / no walk may ...)."""
    out = []

    def route_exception(n, exc_node):
        """the node where a `raise X` executed at CFG node n continues: the first matching handler of the enclosing try
        (by class name; Exception / BaseException / bare catch everything raised here), else the function's exception exit"""
        name = None
        e = exc_node.exc
        if isinstance(e, ast.Call):
            e = e.func
        if isinstance(e, (ast.Name, ast.Attribute)):
            name = ast.unparse(e).split(".")[-1]
        cur = [t for (t, lab) in g.nodes[n].succ if lab == "exc"]
        seen = set()
        while cur:
            d = cur.pop(0)
            if d in seen:
                continue
            seen.add(d)
            dn = g.nodes[d]
            if dn.kind == "handler":
                h = dn.ast
                types = []
                if h.type is not None:
                    for t_ in (h.type.elts if isinstance(h.type, ast.Tuple) else [h.type]):
                        types.append(ast.unparse(t_).split(".")[-1])
                if h.type is None or name in types or "Exception" in types or "BaseException" in types:
                    return d
                continue
            if dn.kind == "dispatch":
                hs = [t for (t, lab) in dn.succ if g.nodes[t].kind == "handler"]
                for h_ in hs:
                    r = route_exception_handler(h_, name)
                    if r is not None:
                        return r
                cur.extend(t for (t, lab) in dn.succ if g.nodes[t].kind != "handler")
                continue
            if d == g.xexit:
                return d
            cur.extend(t for (t, lab) in dn.succ if lab == "exc")
        return g.xexit

    def route_exception_handler(hid, name):
        h = g.nodes[hid].ast
        if h.type is None:
            return hid
        types = [ast.unparse(t_).split(".")[-1] for t_ in (h.type.elts if isinstance(h.type, ast.Tuple) else [h.type])]
        return hid if (name in types or "Exception" in types or "BaseException" in types) else None

    def walk(n, env, visited, calls, steps, counts=None):
        counts = dict(counts or {})
        while True:
            steps += 1
            if steps > max_steps or len(out) >= max_paths:
                raise Unknown("too many / too long paths")
            node = g.nodes[n]
            counts[n] = counts.get(n, 0) + 1
            if counts[n] > 2:
                out.append(("loop", None, visited, calls)); return
            if n == g.exit:
                out.append(("fall", None, visited, calls)); return
            if n == g.xexit:
                out.append(("raise", None, visited, calls)); return
            a = node.ast
            if a is not None and node.kind in ("stmt", "test", "with"):
                visited = visited + [a]
            if node.kind == "test":
                calls = calls + _calls_in(a.test, env, call_args)
                try:
                    v = bool(ev(a.test, env, None))
                    nxt = g.label_succ(n, "T" if v else "F")
                    if not nxt:
                        raise Unknown("constant-folded branch")
                    n = nxt[0]
                    continue
                except Unknown:
                    for lab in ("T", "F"):
                        for t in g.label_succ(n, lab):
                            walk(t, dict(env), visited, calls, steps, counts)
                    return
            if node.kind == "for":
                raise Unknown("for loop")
            if node.kind == "stmt":
                if isinstance(a, ast.Return):
                    if a.value is not None:
                        calls = calls + _calls_in(a.value, env, call_args)
                    try:
                        val = ev(a.value, env, None) if a.value is not None else None
                    except Unknown:
                        val = Unknown
                    out.append(("return", val, visited, calls)); return
                if isinstance(a, ast.Raise):
                    tgt = route_exception(n, a) if a.exc is not None else g.xexit
                    if tgt == g.xexit or tgt is None:
                        out.append(("raise", a, visited, calls)); return
                    n = tgt
                    continue
                calls = calls + _calls_in(a, env, call_args)
                env = dict(env)
                if isinstance(a, ast.Assign) and len(a.targets) == 1 and isinstance(a.targets[0], (ast.Name, ast.Attribute, ast.Subscript)):
                    key = ast.unparse(a.targets[0])
                    try:
                        env[key] = ev(a.value, env, None)
                    except Unknown:
                        env.pop(key, None)
                elif isinstance(a, ast.AugAssign) and isinstance(a.target, ast.Name) and isinstance(a.op, (ast.Add, ast.Sub)):
                    try:
                        cur = ev(a.target, env, None); d = ev(a.value, env, None)
                        env[a.target.id] = cur + d if isinstance(a.op, ast.Add) else cur - d
                    except Unknown:
                        env.pop(a.target.id, None)
            nxt = [t for (t, lab) in node.succ if lab != "exc"] or [t for (t, lab) in node.succ]
            if not nxt:
                out.append(("fall", None, visited, calls)); return
            n = nxt[0]

    walk(g.entry, dict(env), [], [], 0)
    return out


def _calls_in(a, env, call_args):
    res = []
    for c in ast.walk(a):
        if isinstance(c, ast.Call):
            nm = ast.unparse(c.func)
            if nm in call_args:
                vals = []
                for x in list(c.args) + [k.value for k in c.keywords]:
                    try:
                        vals.append(ev(x, env, None))
                    except Unknown:
                        vals.append(Unknown)
                res.append((nm, vals, c))
    return res
