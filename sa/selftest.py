"""Self-test of the analysers: in-memory variants of the current tree.

Each variant replaces one text fragment of one file (located inside a named
function when `func` is given) and states what the property check must do:
  expect = "fire:<clause>"   the check must report a violation of that clause
  expect = "silent"          behaviour-preserving edit: exit 0, no violation
Variants whose fragment is not found in the current tree are reported as
`stale` (neither pass nor fail): the corpus is tied to the pinned tree.

Nothing is written to disk and nothing is executed: the variant source is
handed to the loader through `overrides`.
"""

import ast
import json
import os
import sys
import time
from concurrent.futures import ProcessPoolExecutor

from .cli import run_property
from .report import VERIF


def load_corpus():
    out = []
    d = os.path.join(VERIF, "selftest")
    for fn in sorted(os.listdir(d)):
        if fn.endswith(".json"):
            with open(os.path.join(d, fn), encoding="utf-8") as f:
                for v in json.load(f):
                    v["_file"] = fn
                    out.append(v)
    return out


def apply_variant(root, v):
    rel = v["file"]
    with open(os.path.join(root, rel), encoding="utf-8") as f:
        src = f.read()
    edits = v.get("edits") or [{"old": v["old"], "new": v["new"], "func": v.get("func")}]
    for e in edits:
        lo, hi = 0, len(src)
        if e.get("func"):
            tree = ast.parse(src)
            target = None
            parts = e["func"].split(".")

            def find(node, parts):
                for ch in ast.iter_child_nodes(node):
                    if isinstance(ch, (ast.FunctionDef, ast.ClassDef, ast.AsyncFunctionDef)) and ch.name == parts[0]:
                        return ch if len(parts) == 1 else find(ch, parts[1:])
                    if not isinstance(ch, (ast.FunctionDef, ast.ClassDef, ast.AsyncFunctionDef)):
                        r = find(ch, parts)
                        if r is not None:
                            return r
                return None

            target = find(tree, parts)
            if target is None:
                return None
            lines = src.splitlines(keepends=True)
            lo = sum(len(l) for l in lines[: target.lineno - 1])
            hi = sum(len(l) for l in lines[: target.end_lineno])
        seg = src[lo:hi]
        if seg.count(e["old"]) < 1:
            return None
        seg = seg.replace(e["old"], e["new"], 1)
        src = src[:lo] + seg + src[hi:]
    try:
        ast.parse(src)
    except SyntaxError:
        return "syntax"
    return {rel: src}


def run_variant(args):
    root, v = args
    ov = apply_variant(root, v)
    if ov is None:
        return v["id"], "stale", "fragment not found"
    if ov == "syntax":
        return v["id"], "FAIL", "variant does not parse"
    pid = v["property"]
    sys.stdout = open(os.devnull, "w")
    try:
        code, ctx = run_property(pid, root, v.get("tier", "quick"), overrides=ov, quiet=True, write_evidence=False, known=[])
    finally:
        sys.stdout = sys.__stdout__
    viol = sorted({o.clause for o in ctx.violations()})
    exp = v["expect"]
    if exp == "silent":
        ok = code == 0
        return v["id"], "ok" if ok else "FAIL", "exit %d viol=%s err=%s" % (code, viol, ctx.errors[:2])
    want = exp.split(":", 1)[1]
    ok = code == 1 and any(c == want or c.startswith(want) for c in viol)
    return v["id"], "ok" if ok else "FAIL", "exit %d viol=%s err=%s" % (code, viol, ctx.errors[:2])


def run_corpus(root, only=None, jobs=None):
    corpus = [v for v in load_corpus() if only is None or v["property"] in only or v["id"] in only]
    t0 = time.time()
    jobs = jobs or min(16, os.cpu_count() or 1)
    if len(corpus) > 4 and jobs > 1:
        with ProcessPoolExecutor(jobs) as ex:
            res = list(ex.map(run_variant, [(root, v) for v in corpus], chunksize=2))
    else:
        res = [run_variant((root, v)) for v in corpus]
    return corpus, res, time.time() - t0


def main(args):
    only = None
    extra = os.environ.get("SELFTEST_ONLY")
    if extra:
        only = set(extra.split(","))
    corpus, res, wall = run_corpus(args.repo, only)
    n_fail = 0
    for (vid, st, msg) in res:
        if st != "ok":
            print("%-6s %s  %s" % (st, vid, msg))
        if st == "FAIL":
            n_fail += 1
    print("selftest: %d variants, %d ok, %d stale, %d FAIL, %.1fs" % (
        len(res), sum(1 for r in res if r[1] == "ok"), sum(1 for r in res if r[1] == "stale"), n_fail, wall))
    return 1 if n_fail else 0
