"""Forward must-dataflow of one boolean flag per name over a function's CFG.

A rule supplies (a) which value expressions carry the flag, given the names that currently do, and (b) which names gain
the flag on a branch of a test (`if x == 0` false branch: x is not 0). The engine tracks, per CFG node, the set of
names (plain locals and dotted `self.attr` chains) that carry the flag on EVERY path to the node, together with the
pairs of names known to hold the same value (chained assignments `a = b = v`, copies `a = b`), so that refining one
name refines its copies. It is spelling-independent: chained or separate assignments, temporaries, clamp-then-store or
store-then-clamp all give the same verdict as long as the values flowing to the use carry the flag.

Assumptions, stated: attribute chains are treated like locals (no other method or thread rebinds them between the
definition and the use inside this one function body); calls do not rebind locals.
"""

import ast

from .cfg import _atoms
from .core import dotted


def _stored_names(node):
    out = set()
    for n in ast.walk(node):
        if isinstance(n, (ast.Name, ast.Attribute)) and isinstance(getattr(n, "ctx", None), (ast.Store, ast.Del)):
            d = dotted(n)
            if d:
                out.add(d)
    return out


def _kill(state, names):
    if not names:
        return state
    P, E = state
    # a store to `a` also invalidates what is known about `a.b`
    def hit(x):
        return any(x == n or x.startswith(n + ".") for n in names)
    return (frozenset(x for x in P if not hit(x)), frozenset(p for p in E if not any(hit(x) for x in p)))


def _gain(state, names):
    P, E = state
    names = set(names)
    changed = True
    while changed:
        changed = False
        for p in E:
            if (p & names) and not p <= names:
                names |= p
                changed = True
    return (P | frozenset(names), E)


def _meet(a, b):
    if a is None:
        return b
    if b is None:
        return a
    return (a[0] & b[0], a[1] & b[1])


def flag_states(g, value_has, refine):
    """{node id: (names with the flag, equal pairs)} on entry to each CFG node (None = unreachable).
    value_has(expr, has) -> bool   where has(name) tells whether a name carries the flag now
    refine(atom expr, polarity) -> iterable of dotted names that carry the flag when `atom` evaluates to `polarity`"""
    state_in = {g.entry: (frozenset(), frozenset())}
    work = [g.entry]

    def transfer(node, st):
        a = node.ast
        if node.kind == "stmt":
            if isinstance(a, ast.Assign) or (isinstance(a, ast.AnnAssign) and a.value is not None):
                targets = a.targets if isinstance(a, ast.Assign) else [a.target]
                simple = [dotted(t) for t in targets if dotted(t)]
                P0 = st[0]
                carries = value_has(a.value, lambda n: n in P0)
                src = dotted(a.value)
                st = _kill(st, _stored_names(a))
                if len(simple) == len(targets):
                    group = set(simple) | ({src} if src and src not in simple else set())
                    E = set(st[1])
                    lst = sorted(group)
                    for i in range(len(lst)):
                        for j in range(i + 1, len(lst)):
                            E.add(frozenset((lst[i], lst[j])))
                    st = (st[0], frozenset(E))
                    if carries:
                        st = (st[0] | frozenset(simple), st[1])
                return st
            if isinstance(a, (ast.FunctionDef, ast.AsyncFunctionDef, ast.ClassDef)):
                return _kill(st, {a.name})
            return _kill(st, _stored_names(a))
        if node.kind == "for":
            return _kill(st, _stored_names(a.target))
        if node.kind == "with":
            names = set()
            for it in a.items:
                if it.optional_vars is not None:
                    names |= _stored_names(it.optional_vars)
            return _kill(st, names)
        if node.kind == "handler":
            return _kill(st, {a.name} if a.name else set())
        if node.kind == "test":
            # walrus targets in the test
            return _kill(st, _stored_names(a.test))
        return st

    while work:
        nid = work.pop()
        node = g.nodes[nid]
        st_in = state_in[nid]
        st_out = transfer(node, st_in)
        for (t, lab) in node.succ:
            if lab == "exc":
                out = _meet(st_in, st_out)
            elif node.kind == "test" and lab in ("T", "F"):
                gained = set()
                for atom, pol in _atoms(node.ast.test, lab == "T"):
                    gained.update(x for x in refine(atom, pol) if x)
                out = _gain(st_out, gained) if gained else st_out
            else:
                out = st_out
            old = state_in.get(t)
            new = _meet(old, out) if old is not None else out
            if new != old:
                state_in[t] = new
                work.append(t)
    return state_in


def flag_at(g, states, astnode, name):
    """does `name` carry the flag on entry to every CFG node of the statement holding `astnode`?"""
    ids = g.nodes_of(astnode)
    live = [states.get(i) for i in ids if states.get(i) is not None]
    return bool(live) and all(name in s[0] for s in live)
