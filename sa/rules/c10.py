"""C10 - a dying loky worker yields a prompt error, never a hang, and workers heal."""

import ast

from ..cfg import cfg_of
from ..core import (
    ancestors, assigns_to, body_walk, call_attr, call_name, calls_in, const_value, dotted, enclosing_stmt, handler_catches,
    in_block, is_const, kwarg, nodes_of_type, parent, stores_to, unparse, walk_local, names_in, attrs_in,
)
from . import par

PE = "joblib/externals/loky/process_executor.py"
RE = "joblib/externals/loky/reusable_executor.py"
BK = "joblib/_parallel_backends.py"
EX = "joblib/executor.py"
MT = "_ExecutorManagerThread"
PROPERTY = "C10"
EXPLANATION = (
    "Static decision of the structural clauses of C10 on the vendored loky executor: the manager thread's single blocking "
    "wait receives the result pipe, the wake-up pipe and the sentinel of every worker process, and no other unbounded "
    "blocking receive exists in its loop; the outcome of a wait is 'broken' by default and cleared only on a received "
    "result or a wake-up; a broken outcome fails every pending future, kills the workers and joins, before any result is "
    "processed; submit raises the stored error under the shutdown lock; a broken or shut-down executor is replaced on the "
    "next request and the joblib backend forgets/re-arms its workers on abort; the worker-termination error is surfaced "
    "through the completion callback; sleep-polling loops that wait on worker state are escapable when the executor "
    "breaks; a worker sends back any BaseException of the task and exits when it cannot fetch a call item. Boundedness in "
    "time and OS delivery of sentinel readiness are NOT decided."
    ' backend.submit, which runs under the dispatch lock, never waits for the executor (no configure/shutdown/terminate/join); every early return of the completion callback is a sanctioned one.'
    ' On submit the missing workers are spawned BEFORE the manager thread is woken, so that its next wait watches their sentinels (C10.SENTINELS-FRESH, defect D-L2 repaired).'
)
ASSUMPTIONS = [
    "multiprocessing.connection.wait returns when any given connection or process sentinel is ready; a dead process's sentinel is ready",
    "concurrent.futures.Future.set_exception wakes the waiters and runs the done-callbacks",
]


def M(ctx, name):
    return ctx.repo.func(PE, "%s.%s" % (MT, name))


def sentinels(ctx):
    f = M(ctx, "wait_result_broken_or_wakeup")
    ws = [c for c in calls_in(f) if call_name(c) == "wait"]
    ctx.check(len(ws) == 1, ws[0] if ws else f, "one blocking wait in wait_result_broken_or_wakeup", "%d wait() calls" % len(ws))
    ctx.need(ws, "no wait() call")
    w = ws[0]
    arg = w.args[0]
    parts = []

    def flat(e):
        if isinstance(e, ast.BinOp) and isinstance(e.op, ast.Add):
            flat(e.left)
            flat(e.right)
        else:
            parts.append(e)
    flat(arg)
    texts = []
    for p in parts:
        v = p
        if isinstance(p, ast.Name):
            d = [a for a in nodes_of_type(f, ast.Assign) if p.id in stores_to(a)]
            v = d[0].value if len(d) == 1 else p
        texts.append(unparse(v, 300))

    def resolved(name):
        d = [a for a in nodes_of_type(f, ast.Assign) if name in stores_to(a)]
        return unparse(d[0].value) if len(d) == 1 else None
    joined = " ".join(texts)
    ctx.check("result_reader" in joined and resolved("result_reader") == "self.result_queue._reader", w, "the wait covers the result pipe", "the result pipe is not waited on")
    ctx.check("wakeup_reader" in joined and resolved("wakeup_reader") == "self.thread_wakeup._reader", w, "the wait covers the wake-up pipe", "the wake-up pipe is not waited on")
    sent = [t for t in texts if ".sentinel" in t]
    ok = bool(sent) and any("for p in" in t and "self.processes.values()" in t and " if " not in t for t in sent)
    ctx.check(ok, w, "the wait covers p.sentinel of every worker process (unfiltered comprehension over self.processes)",
              "the worker sentinels are not (all) part of the wait: the death of a worker does not wake the manager thread, pending futures hang")
    ctx.check(kwarg(w, "timeout", 1) is None, w, "no timeout: the three sources are the only wake-up reasons")
    # no other unbounded blocking receive in the manager loop
    n = 0
    for name in ("run", "add_call_item_to_queue", "process_result_item", "wait_result_broken_or_wakeup"):
        fn = M(ctx, name)
        for c in calls_in(fn):
            a = call_attr(c)
            n += 1
            if a in ("recv", "recv_bytes"):
                g = cfg_of(fn)
                ok = any(isinstance(t, ast.Compare) and isinstance(t.ops[0], ast.In) and dotted(t.comparators[0]) == "ready" and pol for (_, t, pol) in g.conditions_at(g.nodes_of(c)))
                ctx.check(ok, c, "recv() only on a connection reported ready by the wait", "a blocking recv() that is not guarded by readiness")
            if a == "get" and dotted(c.func.value) and "queue" in dotted(c.func.value):
                blk = kwarg(c, "block", 0)
                ctx.check(blk is not None and is_const(blk, False), c, "queue.get(block=False) in the manager loop", "a blocking queue.get in the manager loop: a dead worker can block the manager thread")
            if a == "join" and name != "process_result_item" and not c.args and not isinstance(c.func.value, ast.Constant):
                ctx.bad(c, "%s joins something inside the manager loop" % name)
    ctx.floor(n, 15, "calls scanned in the manager loop")


def sentinels_fresh(ctx):
    """The manager thread takes the list of worker sentinels each time it (re-)enters its wait. Workers spawned by the
    submitting thread AFTER the manager thread was woken are therefore not watched until something else wakes it: if they
    die, the futures they run never fail. On the submit path the spawn (`_ensure_executor_running` ->
    `_adjust_process_count`) must precede the wake-up, so that the snapshot taken after the wake-up contains them."""
    f = ctx.repo.func(PE, "ProcessPoolExecutor.submit")
    g = cfg_of(f)
    wk = [c for c in calls_in(f) if call_attr(c) == "wakeup" and "manager_thread_wakeup" in (dotted(c.func.value) or "")]
    sp = [c for c in calls_in(f) if call_name(c) in ("self._ensure_executor_running", "self._adjust_process_count")]
    if not wk:
        ctx.bad(f, "submit no longer wakes the manager thread: a queued work item is not handed to the workers", key=PE + "::ProcessPoolExecutor.submit::wake-up")
        return
    ctx.need(sp, "submit no longer (re)starts workers")
    for w in wk:
        ctx.check(g.every_path_to(g.nodes_of(w), g.nodes_of_all(sp)) and not g.path_exists(g.nodes_of(w), g.nodes_of_all(sp)), w,
                  "the workers that will run the item exist before the manager thread is woken (its next wait watches their sentinels)",
                  "the manager thread is woken before `%s`: it can re-enter its wait with a list of sentinels taken before the new workers were spawned "
                  "(all workers had exited on idle timeout) - if those workers die, nothing wakes it and the call hangs" % unparse(sp[0], 50))
    # the spawn helper really is what registers the processes the wait iterates over
    er = ctx.repo.func(PE, "ProcessPoolExecutor._ensure_executor_running")
    ctx.check(any(call_name(c) == "self._adjust_process_count" for c in calls_in(er)), er, "_ensure_executor_running spawns the missing workers")
    ad = ctx.repo.func(PE, "ProcessPoolExecutor._adjust_process_count")
    reg = [a for a in nodes_of_type(ad, ast.Assign) if any(t.startswith("self._processes[") for t in stores_to(a))]
    st = [c for c in calls_in(ad) if call_attr(c) == "start"]
    ga = cfg_of(ad)
    ctx.check(bool(reg) and bool(st) and ga.every_path_to(ga.nodes_of_all(reg), ga.nodes_of_all(st)), reg[0] if reg else ad, "a spawned worker is registered in the process table (the source of the sentinels) once started")


def default_broken(ctx):
    f = M(ctx, "wait_result_broken_or_wakeup")
    g = cfg_of(f)
    defs = [a for a in nodes_of_type(f, ast.Assign) if "is_broken" in stores_to(a)]
    init = [a for a in defs if is_const(a.value, True)]
    clear = [a for a in defs if is_const(a.value, False)]
    ctx.check(len(init) == 1 and all(g.every_path_to(g.nodes_of(c), g.nodes_of(init[0])) for c in clear), init[0] if init else f, "is_broken starts True",
              "is_broken does not start True: an unexplained wake-up (a dead worker's sentinel) is treated as healthy")
    ctx.check(all(isinstance(a.value, ast.Constant) for a in defs), defs[0], "is_broken is only assigned constants")
    ctx.floor(len(clear), 2, "sites clearing is_broken")
    for a in clear:
        conds = [(unparse(t), pol) for (_, t, pol) in g.conditions_at(g.nodes_of(a))]
        on_result = ("result_reader in ready", True) in conds and ("isinstance(result_item, _RemoteTraceback)", False) in conds
        on_wakeup = ("wakeup_reader in ready", True) in conds and ("result_reader in ready", False) in conds
        ctx.check(on_result or on_wakeup, a, "is_broken is cleared only for %s" % ("a received, well-formed result" if on_result else "a wake-up"),
                  "is_broken is cleared under %s" % conds)
    tw = [c for c in calls_in(f) if call_name(c) == "TerminatedWorkerError"]
    ok = False
    for c in tw:
        conds = [(unparse(t), pol) for (_, t, pol) in g.conditions_at(g.nodes_of(c))]
        ok = ok or (("result_reader in ready", False) in conds and ("wakeup_reader in ready", False) in conds)
    ctx.check(ok, tw[0] if tw else f, "neither pipe ready (so a sentinel fired) => TerminatedWorkerError", "the sentinel branch does not build TerminatedWorkerError")
    rets = nodes_of_type(f, ast.Return)
    ctx.check(rets and all(unparse(r.value) == "(result_item, is_broken, bpe)" for r in rets), rets[0] if rets else f, "returns (result_item, is_broken, bpe)")
    rc = [c for c in calls_in(f) if call_attr(c) == "recv"]
    for c in rc:
        hs = [h for a in ancestors(c) if isinstance(a, ast.Try) and in_block(c, a.body) for h in a.handlers]
        ctx.check(any(h.type is None or unparse(h.type) == "BaseException" for h in hs) and all(not any(isinstance(n, ast.Raise) for s in h.body for n in walk_local(s)) for h in hs), c,
                  "a result that fails to un-serialize leaves is_broken True (BrokenProcessPool) instead of killing the manager thread")


def fail_all(ctx):
    r = M(ctx, "run")
    g = cfg_of(r)
    t = [n for n in nodes_of_type(r, ast.If) if unparse(n.test) == "is_broken"]
    if not t:
        ctx.bad(r, "run() does not test is_broken", key="%s::%s.run::is_broken test" % (PE, MT))
        return
    tb = [c for c in calls_in(t[0]) if call_name(c) == "self.terminate_broken"]
    ctx.check(bool(tb) and dotted(tb[0].args[0]) == "bpe" and isinstance(t[0].body[-1], ast.Return), t[0], "broken => terminate_broken(bpe), then the manager thread ends", "broken outcome is not followed by terminate_broken + return")
    pr = [c for c in calls_in(r) if call_name(c) == "self.process_result_item"]
    for c in pr:
        ctx.check(any(i is t[0] and not pol for (i, _, pol) in g.conditions_at(g.nodes_of(c))), c, "results are processed only when not broken")
    un = [a for a in nodes_of_type(r, ast.Assign) if isinstance(a.value, ast.Call) and call_name(a.value) == "self.wait_result_broken_or_wakeup"]
    ctx.check(bool(un) and [dotted(e) for e in un[0].targets[0].elts] == ["result_item", "is_broken", "bpe"], un[0] if un else r, "run() unpacks the wait's outcome in the same order")
    f = M(ctx, "terminate_broken")
    gf = cfg_of(f)
    order = []
    for c in calls_in(f):
        cn = call_name(c)
        if cn in ("self.executor_flags.flag_as_broken", "self.pending_work_items.clear", "self.kill_workers", "self.join_executor_internals") or call_attr(c) == "set_exception":
            order.append((cn if call_attr(c) != "set_exception" else "set_exception", c))
    names = [n for n, _ in order]
    want = ["self.executor_flags.flag_as_broken", "set_exception", "self.pending_work_items.clear", "self.kill_workers", "self.join_executor_internals"]
    ctx.check(names == want, f, "terminate_broken: flag as broken -> fail every pending future -> clear -> kill workers -> join", "terminate_broken does %s" % names)
    se = [c for n, c in order if n == "set_exception"]
    for c in se:
        lp = [a for a in ancestors(c) if isinstance(a, ast.For)]
        ctx.check(bool(lp) and unparse(lp[0].iter) == "self.pending_work_items.values()" and dotted(c.args[0]) == f.args.args[1].arg and enclosing_stmt(c) in lp[0].body, c,
                  "every pending work item's future receives the error, unconditionally", "not every pending future is failed")
    for n, c in order:
        if n != "set_exception":
            ctx.check(gf.every_path_from([gf.entry], gf.nodes_of(c)), c, "%s on every path" % n.split(".")[-1])
    fb = ctx.repo.func(PE, "_ExecutorFlags.flag_as_broken")
    st = assigns_to(fb, "self.broken")
    ctx.check(bool(st) and dotted(st[0].value) == fb.args.args[1].arg, st[0] if st else fb, "the error is stored in the flags")
    kw = M(ctx, "kill_workers")
    lp = [w for w in nodes_of_type(kw, ast.While)]
    ctx.check(bool(lp) and unparse(lp[0].test) == "self.processes" and any(call_name(c) == "self.processes.popitem" for c in calls_in(lp[0])) and any(call_name(c) == "kill_process_tree" for c in calls_in(lp[0])), kw,
              "kill_workers pops and kills every remaining process (loop variant: the dict shrinks)")


def submit_guard(ctx):
    f = ctx.repo.func(PE, "ProcessPoolExecutor.submit")
    g = cfg_of(f)
    t = [n for n in nodes_of_type(f, ast.If) if unparse(n.test) == "self._flags.broken is not None"]
    put = [c for c in calls_in(f) if call_name(c) == "self._work_ids.put"]
    ctx.need(put, "submit no longer enqueues a work id")
    ok = bool(t) and any(isinstance(s_, ast.Raise) and unparse(s_.exc) == "self._flags.broken" for s_ in t[0].body) and isinstance(t[0].body[-1], ast.Raise)
    ctx.check(ok, t[0] if t else f, "submit on a broken executor raises the stored worker-termination error", "submit does not raise the stored error on a broken executor",
              key=None if t else PE + "::ProcessPoolExecutor.submit::broken test")
    if t:
        ctx.check(g.every_path_to(g.nodes_of_all(put), g.nodes_of(t[0])), t[0], "before anything is enqueued")
        ws = [w for w in ancestors(t[0]) if isinstance(w, ast.With)]
        ctx.check(bool(ws) and any(unparse(i.context_expr) == "self._flags.shutdown_lock" for i in ws[0].items) and in_block(put[0], ws[0].body), t[0], "test and enqueue are under the shutdown lock (atomic with flag_as_broken)")
    sd = [n for n in nodes_of_type(f, ast.If) if unparse(n.test) == "self._flags.shutdown"]
    ctx.check(bool(sd) and isinstance(sd[0].body[-1], ast.Raise), sd[0] if sd else f, "submit after shutdown raises")
    if sd and t:
        ctx.check(g.every_path_to(g.nodes_of(sd[0]), g.nodes_of(t[0])), t[0], "the broken test precedes the shutdown test (a broken executor is also flagged shut down: the worker-termination error must win)",
                  "the shutdown test is reached before the broken test: after a worker died, submit raises ShutdownExecutorError instead of the worker-termination error")
    rets = nodes_of_type(f, ast.Return)
    pw = [a for a in nodes_of_type(f, ast.Assign) if unparse(a.targets[0]) == "self._pending_work_items[self._queue_count]"]
    ctx.check(bool(pw) and g.every_path_to(g.nodes_of_all(put), g.nodes_of(pw[0])), pw[0] if pw else f, "the work item is recorded as pending before its id is queued (so terminate_broken can fail it)")
    er = [c for c in calls_in(f) if call_name(c) == "self._ensure_executor_running"]
    ctx.check(bool(er), er[0] if er else f, "workers and manager thread are (re)started on submit")


def heal(ctx):
    f = ctx.repo.func(RE, "_ReusablePoolExecutor.get_reusable_executor")
    g = cfg_of(f)
    t = [n for n in nodes_of_type(f, ast.If) if "not reuse" in unparse(n.test) and any(isinstance(r_, ast.Return) for r_ in n.body)]
    ctx.need(t, "reuse decision not found in get_reusable_executor")
    tt = t[0].test
    alts = sorted(unparse(v) for v in tt.values) if isinstance(tt, ast.BoolOp) and isinstance(tt.op, ast.Or) else []
    ctx.check(alts == sorted(["executor._flags.broken", "executor._flags.shutdown", "not reuse"]), t[0], "a broken, shut-down or non-reusable executor is never handed out again", "the rebuild condition is %s" % unparse(tt))
    body = t[0].body
    sh = [c for s in body for c in calls_in(s) if call_name(c) == "executor.shutdown"]
    drop = [a for a in body if isinstance(a, ast.Assign) and "_executor" in stores_to(a) and is_const(a.value, None)]
    rec = [r for r in body if isinstance(r, ast.Return) and isinstance(r.value, ast.Call) and call_name(r.value) == "cls.get_reusable_executor"]
    ctx.check(bool(sh) and bool(drop) and bool(rec) and body.index(enclosing_stmt(sh[0])) < body.index(drop[0]) < body.index(rec[0]), t[0],
              "old executor shut down -> singleton dropped -> new executor built", "the rebuild branch does not shut down, drop and rebuild in that order")
    if sh:
        ctx.check(is_const(kwarg(sh[0], "wait", 0), True), sh[0], "the old executor is shut down synchronously")
    new = [c for c in calls_in(f) if call_name(c) == "cls"]
    ctx.check(bool(new), new[0] if new else f, "a fresh executor instance is created when none exists")
    lk = [w for w in nodes_of_type(f, ast.With) if any(dotted(i.context_expr) == "_executor_lock" for i in w.items)]
    ctx.check(bool(lk) and in_block(t[0], lk[0].body), lk[0] if lk else f, "the decision is taken under the module lock")
    ab = ctx.repo.func(BK, "LokyBackend.abort_everything")
    ga = cfg_of(ab)
    term = [c for c in calls_in(ab) if call_name(c) == "self._workers.terminate"]
    forget = [a for a in assigns_to(ab, "self._workers") if is_const(a.value, None)]
    conf = [c for c in calls_in(ab) if call_name(c) == "self.configure"]
    ctx.check(bool(term) and is_const(kwarg(term[0], "kill_workers"), True), term[0] if term else ab, "abort kills the workers")
    ctx.check(bool(forget) and term and ga.every_path_to(ga.nodes_of(forget[0]), ga.nodes_of(term[0])) and ga.every_path_from([ga.entry], ga.nodes_of(forget[0])), forget[0] if forget else ab, "and forgets the executor on every path")
    ctx.check(bool(conf) and [(unparse(tt_), p) for (_, tt_, p) in ga.conditions_at(ga.nodes_of(conf[0]))] == [("ensure_ready", True)], conf[0] if conf else ab, "re-arming iff ensure_ready")
    cf = ctx.repo.func(BK, "LokyBackend.configure")
    gm = [a for a in assigns_to(cf, "self._workers") if isinstance(a.value, ast.Call) and call_name(a.value) == "get_memmapping_executor"]
    gc_ = cfg_of(cf)
    rets = nodes_of_type(cf, ast.Return)
    ctx.check(bool(gm) and all(gc_.every_path_to(gc_.nodes_of(r), gc_.nodes_of(gm[0])) for r in rets), gm[0] if gm else cf, "configure always asks get_memmapping_executor for a (possibly new) executor")
    te = ctx.repo.func(EX, "MemmappingExecutor.terminate")
    c = [c for c in calls_in(te) if call_name(c) == "self.shutdown"]
    ctx.check(bool(c) and dotted(kwarg(c[0], "kill_workers")) == "kill_workers", c[0] if c else te, "MemmappingExecutor.terminate shuts the executor down with the kill flag")
    sd = ctx.repo.func(PE, "ProcessPoolExecutor.shutdown")
    fl = [c for c in calls_in(sd) if call_name(c) == "self._flags.flag_as_shutting_down"]
    ctx.check(bool(fl) and dotted(fl[0].args[0]) == "kill_workers", fl[0] if fl else sd, "shutdown flags the executor (so that it is not reused)")


def surface(ctx):
    f = ctx.repo.func(BK, "LokyBackend.retrieve_result_callback")
    rets = [r for r in nodes_of_type(f, ast.Return) if isinstance(r.value, ast.Call) and call_attr(r.value) == "result"]
    ctx.check(bool(rets) and dotted(rets[0].value.func.value) == f.args.args[1].arg, rets[0] if rets else f, "the callback returns future.result(): a worker-termination error set on the future is re-raised here",
              "retrieve_result_callback does not go through future.result()")
    for h in [h for t in nodes_of_type(f, ast.Try) for h in t.handlers]:
        ctx.check(unparse(h.type) == "ShutdownExecutorError", h, "only ShutdownExecutorError is translated", "%s is swallowed/translated" % unparse(h.type))
    sub = ctx.repo.func(BK, "LokyBackend.submit")
    ad = [c for c in calls_in(sub) if call_attr(c) == "add_done_callback"]
    ctx.check(bool(ad), ad[0] if ad else sub, "the completion callback is attached to the future (runs on set_exception too)")
    par.c04_flags(ctx)


def escapable(ctx):
    """sleep-polling loops waiting on worker / work-item state"""
    n = 0
    for rel, mod in ((RE, ctx.repo.mod(RE)), (PE, ctx.repo.mod(PE))):
        for q, fn in mod.funcs.items():
            for lp in nodes_of_type(fn, ast.While):
                sleeps = [c for c in calls_in(lp) if call_name(c) in ("time.sleep", "sleep")]
                polls_state = any(k in ast.unparse(lp.test) for k in ("_processes", "_pending_work_items", "pending_work_items", "is_alive()", "exitcode", "get_n_children_alive"))
                body_trivial = all(isinstance(st_, (ast.Expr, ast.Pass)) for st_ in lp.body)
                if not sleeps and not (polls_state and body_trivial):
                    continue      # a polling loop = it sleeps, or it spins on worker / work-item state doing nothing else
                if q == "_process_worker":
                    continue
                n += 1
                t = lp.test
                txt = ast.unparse(t)
                names = attrs_in(t)
                mentions_broken = any(a.endswith("_flags.broken") or a.endswith("flags.broken") for a in names)
                # containers emptied by terminate_broken / kill_workers
                live_containers = any(a in ("self._pending_work_items", "self._processes", "self.pending_work_items", "self.processes") for a in names)
                # counts of alive children (a dead child is not alive) with an upper bound on attempts
                alive_count = "get_n_children_alive()" in txt
                snapshot = False
                for gen in [x for x in ast.walk(t) if isinstance(x, ast.comprehension)]:
                    it = dotted(gen.iter)
                    if it and not it.startswith("self."):
                        d = [a for a in nodes_of_type(fn, ast.Assign) if it in stores_to(a)]
                        if d and "list(" in unparse(d[0].value):
                            snapshot = True
                per_process_ok = "exitcode is not None" in txt or "exitcode is None" in txt
                # 0 is an exit code: a worker that left normally (idle time-out, clean shutdown) has exitcode 0, which is
                # falsy - "has exited" must be tested with `is (not) None`, never by truthiness
                truthy = [x for x in ast.walk(t) if isinstance(x, ast.Attribute) and x.attr == "exitcode" and isinstance(parent(x), (ast.BoolOp, ast.UnaryOp, ast.While, ast.If, ast.IfExp, ast.comprehension, ast.GeneratorExp, ast.ListComp))]
                if truthy:
                    ctx.bad(truthy[0], "polling loop `while %s` treats `exitcode` as a truth value: a worker that exited with code 0 counts as 'still starting', so the loop never ends for it "
                            "(the executor is not flagged broken by a clean exit)" % unparse(t, 100), key="%s::%s::exitcode tested by truthiness" % (rel, q))
                    continue
                if snapshot and not per_process_ok and not mentions_broken:
                    ctx.bad(lp, "polling loop `while %s` waits on a snapshot list of processes with a predicate that stays false forever for a worker that died "
                            "(is_alive() of a dead process never becomes true) and does not test the broken flag: the caller spins forever holding the executor locks" % unparse(t, 100))
                    continue
                ok = mentions_broken or live_containers or alive_count or per_process_ok
                ctx.check(ok, lp, "polling loop `while %s` in %s is escapable when the executor breaks (%s)" % (
                    unparse(t, 70), q, "tests the broken flag" if mentions_broken else "reads a container that terminate_broken empties" if live_containers else "counts live children" if alive_count else "per-process predicate cannot stay false forever"),
                    "polling loop `while %s` in %s cannot be left when a worker dies" % (unparse(t, 100), q))
    ctx.floor(n, 2, "polling loops in the loky executor")


def worker(ctx):
    f = ctx.repo.func(PE, "_process_worker")
    g = cfg_of(f)
    calls = [c for c in calls_in(f) if call_name(c) == "call_item"]
    ctx.need(calls, "_process_worker no longer calls call_item()")
    c = calls[0]
    tr = [a for a in ancestors(c) if isinstance(a, ast.Try) and in_block(c, a.body)]
    ok = bool(tr) and any((h.type is None or unparse(h.type) == "BaseException") for h in tr[0].handlers)
    ctx.check(ok, c, "the task runs inside try/except BaseException", "a task raising a non-Exception BaseException escapes the worker loop")
    if ok:
        h = [h for h in tr[0].handlers if h.type is None or unparse(h.type) == "BaseException"][0]
        put = [x for s in h.body for x in calls_in(s) if call_name(x) == "result_queue.put"]
        ctx.check(bool(put) and "_ResultItem" in unparse(put[0].args[0]) and "exception=" in unparse(put[0].args[0]), put[0] if put else h, "and its exception is sent back as the result of that work id")
    get = [x for x in calls_in(f) if call_name(x) == "call_queue.get"]
    ctx.need(get, "worker no longer gets call items from call_queue")
    trg = [a for a in ancestors(get[0]) if isinstance(a, ast.Try) and in_block(get[0], a.body)]
    hb = [h for h in trg[0].handlers if h.type is not None and unparse(h.type) == "BaseException"] if trg else []
    ok = bool(hb) and any(call_name(x) == "sys.exit" for s in hb[0].body for x in calls_in(s))
    ctx.check(ok, hb[0] if hb else get[0], "a failure to fetch/unpickle a call item makes the worker exit (its sentinel fires, the manager sees a broken pool)",
              "a worker that cannot fetch a call item keeps running: nobody notices the lost task")


UTILS = "joblib/externals/loky/backend/utils.py"


def broken_branch_total(ctx):
    """The manager thread must survive diagnosing a dead worker: the helpers it calls while building the
    TerminatedWorkerError cannot raise on an unusual exit code."""
    f = M(ctx, "wait_result_broken_or_wakeup")
    start = [c for c in calls_in(f) if call_name(c) == "get_exitcodes_terminated_worker"]
    ctx.need(start, "the broken branch no longer reports the workers' exit codes")
    seen, todo = [], [ctx.repo.func(UTILS, "get_exitcodes_terminated_worker")]
    while todo:
        fn = todo.pop()
        if any(fn is x for x in seen):
            continue
        seen.append(fn)
        for c in calls_in(fn):
            for t in ctx.res.resolve_call(c):
                if getattr(t, "_module", None) is not None and t._module.relpath == UTILS:
                    todo.append(t)
    mod = ctx.repo.mod(UTILS)
    mod_dicts = {t for st in mod.tree.body if isinstance(st, ast.Assign) and isinstance(st.value, (ast.Dict, ast.DictComp)) for t in stores_to(st)}
    n = 0
    for fn in seen:
        for node in body_walk(fn):
            need_exc = None
            if isinstance(node, ast.Subscript) and isinstance(node.ctx, ast.Load) and dotted(node.value) in mod_dicts and not isinstance(node.slice, ast.Constant):
                need_exc = "KeyError"
            if isinstance(node, ast.Call) and call_name(node) in ("signal.Signals",):
                need_exc = "ValueError"
            if need_exc is None:
                continue
            n += 1
            hs = [h for a_ in ancestors(node) if isinstance(a_, ast.Try) and in_block(node, a_.body) for h in a_.handlers]
            ctx.check(any(handler_catches(h, [need_exc]) for h in hs), node, "%s: `%s` is guarded against %s" % (fn._qualname, unparse(node, 50), need_exc),
                      "%s: `%s` raises %s for an exit code it does not know, and no handler catches it: the exception kills the executor manager thread while it reports a dead "
                      "worker, so the pending futures are never failed (the Parallel call hangs)" % (fn._qualname, unparse(node, 50), need_exc))
    ctx.floor(n, 1, "partial look-ups on the exit-code reporting path")
    ctx.ok(f, "exit-code reporting path: %d helper functions scanned" % len(seen))
    # ... and cannot wait forever either: every loop on this path counts a budget down with a well-founded test
    for fn in seen:
        for lp in nodes_of_type(fn, ast.While):
            t = lp.test
            conj = t.values if isinstance(t, ast.BoolOp) and isinstance(t.op, ast.And) else [t]
            decs = [a for a in nodes_of_type(lp, ast.AugAssign) if isinstance(a.op, ast.Sub) and isinstance(a.target, ast.Name)]
            ok, why = False, "no counter is decremented in the loop"
            for d in decs:
                cnt = d.target.id
                step = const_value(d.value)
                init = [a for a in nodes_of_type(fn, ast.Assign) if cnt in stores_to(a) and not any(a is x for x in ast.walk(lp))]
                start = const_value(init[0].value) if len(init) == 1 else None
                ordered = any(unparse(c) in ("%s > 0" % cnt, "0 < %s" % cnt, "%s >= 1" % cnt, "%s >= 0" % cnt, "0 <= %s" % cnt) for c in conj)
                truthy = any(unparse(c) in (cnt, "%s != 0" % cnt) for c in conj)
                uncond = all(isinstance(p_, (ast.While,)) or p_ is fn for p_ in [parent(d)])
                if not isinstance(step, (int, float)) or step <= 0 or not uncond:
                    why = "the budget `%s` is not decremented by a positive constant on every iteration" % cnt
                    continue
                if ordered:
                    ok = True
                elif truthy:
                    # `while ... and budget:` only ends if the countdown hits 0 exactly: integers, step dividing the start
                    if isinstance(step, int) and isinstance(start, int) and not isinstance(start, bool) and start >= 0 and start % step == 0:
                        ok = True
                    else:
                        why = "the loop tests the budget `%s` for truth, but it counts down from %r by %r and may never be exactly 0" % (cnt, start, step)
                else:
                    why = "the loop test `%s` does not bound the budget `%s`" % (unparse(t, 60), cnt)
            ctx.check(ok, lp, "%s: the wait `while %s` is bounded by a budget that runs out" % (fn._qualname, unparse(t, 50)),
                      "%s: `while %s` may never end (%s): when the dead worker's exit code cannot be collected the manager thread polls forever and the pending futures are never failed" % (fn._qualname, unparse(t, 60), why))


def run(ctx):
    ctx.run("C10.BROKEN-BRANCH-TOTAL", "R-ERRDISC", broken_branch_total)
    ctx.run("C10.SENTINELS", "R-FLOW", sentinels)
    ctx.run("C10.SENTINELS-FRESH", "R-ORDER", sentinels_fresh)
    ctx.run("C10.DEFAULT-BROKEN", "R-ORDER", default_broken)
    ctx.run("C10.FAIL-ALL", "R-ORDER", fail_all)
    ctx.run("C10.SUBMIT-GUARD", "R-ORDER", submit_guard)
    ctx.run("C10.HEAL", "R-ORDER", heal)
    ctx.run("C10.SURFACE", "R-FLOW", surface)
    ctx.run("C10.ESCAPABLE", "R-SIBLING", escapable)
    ctx.run("C10.WORKER", "R-ERRDISC", worker)
    ctx.run("C10.LOCK-ORDER", "R-LOCK", lock_order)
    ctx.run("C10.SUBMIT-NONBLOCKING", "R-LOCK", submit_nonblocking)
    ctx.run("C10.WAKEUP", "R-ORDER", wakeup_typestate)
    # the joblib side of healing: a failed call must leave no state that disables the next abort / re-arming
    ctx.run("C04.RESET", "R-RESET", par.c04_reset)
    ctx.run("C04.CLEANUP", "R-ORDER", par.c04_cleanup)
    ctx.run("C04.CALLBACK-TOTAL", "R-ORDER", par.c04_callback_total)


# ---------------------------------------------------------------------------
# lock order (no deadlock between submit / resize / shutdown / manager thread)

def submit_nonblocking(ctx):
    """backend.submit() runs inside Parallel's dispatch lock (dispatch_one_batch -> _dispatch -> submit). The completion
    callback of every batch needs that same lock, and so does the manager thread when it fails the futures of a broken
    executor. submit() may therefore not wait for the executor or its workers (re-configuration, shutdown, termination,
    joins): the thread it would wait for may be waiting for the lock submit() holds."""
    BLOCKING = {"configure", "terminate", "abort_everything", "shutdown", "_terminate_and_reset", "join", "get_memmapping_executor",
                "get_reusable_executor", "_get_pool", "wait", "result"}
    allowed = {"_get_pool"}     # lazily creating the pool waits for nobody
    n = 0
    for q in ("PoolManagerMixin.submit", "LokyBackend.submit", "SequentialBackend.submit", "ThreadingBackend.submit", "MultiprocessingBackend.submit"):
        if not ctx.repo.has_func(BK, q):
            continue
        fn = ctx.repo.func(BK, q)
        n += 1
        bad = []
        seen = set()
        def scan(f, depth):
            if id(f) in seen or depth > 2:
                return
            seen.add(id(f))
            for c in calls_in(f):
                a = call_attr(c)
                if a in BLOCKING and a not in allowed and not (isinstance(c.func, ast.Attribute) and isinstance(c.func.value, ast.Constant)):
                    bad.append((c, f))
                try:
                    tgs = ctx.res.resolve_call(c, polymorphic=False)
                except Exception:
                    tgs = []
                for t in tgs:
                    if getattr(t, "_module", None) is not None and t._module.relpath == BK and t is not fn:
                        scan(t, depth + 1)
        scan(fn, 0)
        for c, f in bad:
            ctx.bad(c, "%s (reached from %s) waits for the executor while the dispatch lock is held: the completion callback / the manager thread failing the futures of a broken "
                       "executor needs that lock, so a worker that dies while tasks are still being dispatched deadlocks the call" % (unparse(c, 70), q),
                    key="%s::%s::blocking call %s under the dispatch lock" % (BK, q, call_attr(c)))
        if not bad:
            ctx.ok(fn, "%s hands the task over without waiting for the executor" % q)
    ctx.floor(n, 2, "in-tree submit implementations")


def wakeup_typestate(ctx):
    """_ThreadWakeup (the pipe that wakes the manager thread): once closed it stays closed - close() latches the flag on the
    path that closes the two ends, and wakeup()/clear() touch the pipe only while the flag is down. Otherwise shutting down
    an executor whose manager thread has already gone (a pool broken while idle) raises OSError on the closed handle, the
    global executor is never reset and every later call fails the same way: the pool does not heal."""
    cls_q = "_ThreadWakeup"
    close = ctx.repo.func(PE, cls_q + ".close")
    g = cfg_of(close)
    ends = [c for c in calls_in(close) if call_name(c) in ("self._writer.close", "self._reader.close")]
    latch = [a for a in nodes_of_type(close, ast.Assign) if "self._closed" in stores_to(a) and is_const(a.value, True)]
    ok = bool(ends) and bool(latch) and all(g.every_path_to(g.nodes_of(e), g.nodes_of_all(latch)) or g.every_path_from(g.nodes_of(e), g.nodes_of_all(latch), None, skip_exc=True) for e in ends)
    ctx.check(ok, latch[0] if latch else close, "close() latches _closed on the path that closes the pipe ends",
              "_ThreadWakeup.close() closes the pipe without latching `_closed = True`: a later wakeup()/clear()/close() works on closed handles and raises OSError (shutdown of an executor "
              "whose manager thread already exited fails, the pool never heals)", key=None if latch else PE + "::_ThreadWakeup.close::latch")
    for q, ops in (("wakeup", ("self._writer.send_bytes",)), ("clear", ("self._reader.poll", "self._reader.recv_bytes"))):
        fn = ctx.repo.func(PE, cls_q + "." + q)
        g2 = cfg_of(fn)
        for c in [c for c in calls_in(fn) if call_name(c) in ops]:
            facts = g2.fact_set(g2.nodes_of(c))
            ctx.check(("self._closed", False) in facts, c, "%s() touches the pipe only while it is open" % q, "%s() uses the pipe without testing `_closed` (facts: %s)" % (q, sorted(facts)))
    for c in ends:
        facts = g.fact_set(g.nodes_of(c))
        ctx.check(("self._closed", False) in facts, c, "close() is idempotent (the ends are closed once)", "close() closes the ends again when already closed")

# ---------------------------------------------------------------------------

LOCK_IDS = {
    "self.shutdown_lock": "SHUTDOWN", "shutdown_lock": "SHUTDOWN", "self._shutdown_lock": "SHUTDOWN", "self._flags.shutdown_lock": "SHUTDOWN",
    "self.processes_management_lock": "PROCESSES", "executor._processes_management_lock": "PROCESSES", "self._processes_management_lock": "PROCESSES",
    "_global_shutdown_lock": "GLOBAL-SHUTDOWN",
    "_executor_lock": "EXECUTOR", "self._submit_resize_lock": "EXECUTOR",
}
REENTRANT = {"EXECUTOR"}
RECV_TYPES = {  # receiver expression -> classes whose methods it may denote
    "self._flags": [(PE, "_ExecutorFlags")], "self.executor_flags": [(PE, "_ExecutorFlags")],
    "executor": [(RE, "_ReusablePoolExecutor"), (PE, "ProcessPoolExecutor")],
    "executor_manager_thread": [],
}
LK_FILES = [PE, RE, EX]


def _with_locks(w):
    return [LOCK_IDS[dotted(i.context_expr)] for i in w.items if dotted(i.context_expr) in LOCK_IDS]


def _resolve_lk(ctx, call):
    out = list(ctx.res.resolve_call(call, polymorphic=False))
    f = call.func
    if isinstance(f, ast.Attribute):
        recv = dotted(f.value)
        for rel, cname in RECV_TYPES.get(recv, []):
            try:
                c = ctx.repo.cls(rel, cname)
            except Exception:
                continue
            m = ctx.res.method(rel, c, f.attr)
            if m is not None and m not in out:
                out.append(m)
        if recv == "cls" and f.attr == "get_reusable_executor":
            out.append(ctx.repo.func(RE, "_ReusablePoolExecutor.get_reusable_executor"))
    return [t for t in out if getattr(t, "_module", None) is not None and t._module.relpath in LK_FILES]


def _acquires(ctx, fn, depth, seen):
    """{lock id: description of how} acquired (transitively) by calling fn"""
    out = {}
    if depth < 0 or id(fn) in seen:
        return out
    seen = seen | {id(fn)}
    for n in body_walk(fn):
        if isinstance(n, (ast.With, ast.AsyncWith)):
            for l in _with_locks(n):
                out.setdefault(l, "%s takes %s" % (fn._qualname, l))
        if isinstance(n, ast.Call):
            for t in _resolve_lk(ctx, n):
                for l, how in _acquires(ctx, t, depth - 1, seen).items():
                    out.setdefault(l, "%s -> %s" % (fn._qualname, how))
    return out


def lock_order(ctx):
    edges = {}  # (outer, inner) -> (node, description)
    n_with = 0
    callbacks_under_lock = []
    for rel in LK_FILES:
        for q, fn in ctx.repo.mod(rel).funcs.items():
            for w in [n for n in body_walk(fn) if isinstance(n, (ast.With, ast.AsyncWith))]:
                outer = _with_locks(w)
                if not outer:
                    continue
                n_with += 1
                for st in w.body:
                    for n in walk_local(st):
                        if isinstance(n, (ast.With, ast.AsyncWith)):
                            for inner in _with_locks(n):
                                for o in outer:
                                    edges.setdefault((o, inner), (n, "%s: `with %s` nested in `with %s`" % (q, inner, o)))
                        if isinstance(n, ast.Call):
                            if call_attr(n) in ("set_exception", "set_result"):
                                callbacks_under_lock.append((n, q, outer))
                            for t in _resolve_lk(ctx, n):
                                for inner, how in _acquires(ctx, t, 3, set()).items():
                                    for o in outer:
                                        edges.setdefault((o, inner), (n, "%s holds %s and calls %s" % (q, o, how)))
    ctx.floor(n_with, 12, "`with <executor lock>` blocks in the loky executor")
    # (1) no re-acquisition of a non-reentrant lock
    for (o, i), (node, how) in sorted(edges.items(), key=lambda kv: kv[0]):
        if o == i:
            ctx.check(o in REENTRANT, node, "%s is re-entered only because it is an RLock (%s)" % (o, how),
                      "non-reentrant lock %s is acquired again while held (%s): the thread deadlocks on itself" % (o, how))
    # (2) the order relation is acyclic
    graph = {}
    for (o, i) in edges:
        if o != i:
            graph.setdefault(o, set()).add(i)
    order_ok = True
    for (o, i), (node, how) in sorted(edges.items(), key=lambda kv: kv[0]):
        if o == i:
            continue
        # is there a path i ->* o ?
        stack, seen = [i], set()
        back = False
        while stack:
            x = stack.pop()
            if x == o:
                back = True
                break
            if x in seen:
                continue
            seen.add(x)
            stack.extend(graph.get(x, ()))
        ctx.check(not back, node, "lock order %s -> %s is consistent with every other nesting (%s)" % (o, i, how),
                  "lock order cycle: %s is taken while holding %s here (%s), and elsewhere %s is taken while holding %s: two threads can deadlock" % (i, o, how, o, i))
    # (3) futures are completed (user callbacks run) with no executor lock held
    for node, q, outer in callbacks_under_lock:
        ctx.bad(node, "%s completes a future while holding %s: the completion callback takes joblib's dispatch lock and re-enters submit() (lock order inversion)" % (q, outer))
    n_done = sum(1 for rel in LK_FILES for q, fn in ctx.repo.mod(rel).funcs.items() for c in calls_in(fn) if call_attr(c) in ("set_exception", "set_result"))
    ctx.check(n_done >= 3 and not callbacks_under_lock, ctx.repo.func(PE, MT + ".process_result_item"), "%d future-completion sites, none under an executor lock" % n_done)
