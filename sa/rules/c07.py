"""C07 - argument canonicalisation binds parameters exactly as Python does."""

import ast
import inspect
import itertools
from collections import Counter

from ..cfg import cfg_of
from ..core import (
    ancestors, assigns_to, body_walk, call_attr, call_name, calls_in, const_value, dotted, enclosing_stmt, in_block,
    is_const, nodes_of_type, parent, stores_to, unparse, walk_local, names_in,
)

FI = "joblib/func_inspect.py"
PROPERTY = "C07"
EXPLANATION = (
    "Static decision of per-kind necessary conditions of C07 on func_inspect.filter_args. Recognised shapes: (A) the "
    "mapping is delegated to inspect.Signature.bind + apply_defaults; (B) a hand-rolled walk over signature.parameters. "
    "For (B): every member of inspect._ParameterKind is handled by the classification chain (R-TABLE); lists used in lock "
    "step have equal kind domains and defaults are looked up by name or by a tail offset over positional kinds only "
    "(R-DUAL); a positional read binds only positional-capable parameters, the keyword-only-passed-positionally error "
    "requires the absence of *args (decided by a truth table over the guarding conditions), and the '*' slice starts at "
    "the number of positional-capable parameters (kind-count arithmetic over list lengths); keyword handling, bound "
    "methods and the ignore list. Agreement with Signature.bind over ALL signatures and call shapes is an enumeration "
    "argument that this family does not make; any other shape of filter_args is reported undecidable, never a violation."
    " The caller's values are rendered (repr / formatting) only on the raising paths of filter_args."
    ' Parameter information comes from inspect.signature only (no co_varnames/argspec).'
)
ASSUMPTIONS = [
    "reference fact: the five members of inspect._ParameterKind of the running interpreter",
    "Python forces defaulted positional parameters to be a suffix of the positional parameters (and nothing similar for keyword-only ones)",
]

KINDS = [k.name for k in inspect._ParameterKind]
POSITIONAL = {"POSITIONAL_ONLY", "POSITIONAL_OR_KEYWORD"}


def _kind_of_test(t, pvar):
    """kinds named by a test `param.kind is/== param.X` or `in (..)`."""
    if isinstance(t, ast.Compare) and len(t.ops) == 1 and dotted(t.left) == pvar + ".kind":
        r = t.comparators[0]
        if isinstance(t.ops[0], (ast.Is, ast.Eq)):
            d = dotted(r)
            return {d.split(".")[-1]} if d else None
        if isinstance(t.ops[0], ast.In) and isinstance(r, (ast.Tuple, ast.List, ast.Set)):
            return {dotted(e).split(".")[-1] for e in r.elts if dotted(e)}
    if isinstance(t, ast.BoolOp) and isinstance(t.op, ast.Or):
        out = set()
        for v in t.values:
            k = _kind_of_test(v, pvar)
            if k is None:
                return None
            out |= k
        return out
    return None


class Shape:
    pass


def analyse(ctx):
    f = ctx.repo.func(FI, "filter_args")
    sh = Shape()
    sh.f = f
    binds = [c for c in calls_in(f) if call_attr(c) in ("bind", "bind_partial")]
    sh.delegates = bool(binds) and any(call_attr(c) == "apply_defaults" for c in calls_in(f))
    loops = [l for l in nodes_of_type(f, ast.For) if isinstance(l.iter, ast.Call) and call_attr(l.iter) == "values" and "parameters" in unparse(l.iter)]
    sh.class_loop = loops[0] if loops else None
    if sh.class_loop is None:
        return sh
    lp = sh.class_loop
    pvar = dotted(lp.target)
    sh.pvar = pvar
    # kind chain
    sh.handled = set()
    sh.has_else = False
    sh.list_domain = {}   # list name -> set of kinds under which param.name is appended
    sh.scalar_kind = {}   # scalar name -> kinds under which it is assigned
    sh.defaults = None    # ('list'|'dict', name, domain, node)

    def visit(stmts, kinds):
        for st in stmts:
            if isinstance(st, ast.If):
                k = _kind_of_test(st.test, pvar)
                if k is not None:
                    chain_kinds = set()
                    cur = st
                    while True:
                        kk = _kind_of_test(cur.test, pvar)
                        if kk is None:
                            break
                        sh.handled |= kk
                        chain_kinds |= kk
                        visit(cur.body, kk)
                        if len(cur.orelse) == 1 and isinstance(cur.orelse[0], ast.If) and _kind_of_test(cur.orelse[0].test, pvar) is not None:
                            cur = cur.orelse[0]
                            continue
                        if cur.orelse:
                            sh.has_else = True
                            sh.else_raises = any(isinstance(s, ast.Raise) for s in cur.orelse)
                            visit(cur.orelse, set(KINDS) - chain_kinds)
                        break
                    continue
                # other conditions (e.g. has default): same kinds
                visit(st.body, kinds)
                visit(st.orelse, kinds)
                continue
            for n in walk_local(st):
                if isinstance(n, ast.Call) and call_attr(n) == "append" and n.args:
                    lst = dotted(n.func.value)
                    if unparse(n.args[0]) == pvar + ".name":
                        sh.list_domain.setdefault(lst, set()).update(kinds)
                    elif unparse(n.args[0]) == pvar + ".default":
                        sh.defaults = ("list", lst, set(kinds) | (sh.defaults[2] if sh.defaults and sh.defaults[1] == lst else set()), n)
                if isinstance(n, ast.Assign):
                    for t in n.targets:
                        if isinstance(t, ast.Subscript) and unparse(t.slice) == pvar + ".name" and unparse(n.value) == pvar + ".default":
                            sh.defaults = ("dict", dotted(t.value), set(kinds), n)
                        elif isinstance(t, ast.Name) and unparse(n.value) == pvar + ".name":
                            sh.scalar_kind.setdefault(t.id, set()).update(kinds)
    visit(lp.body, set(KINDS))
    return sh


def _sentinel_identity(ctx, f):
    """`inspect.Parameter.empty` is a sentinel: "has a default" is an identity test.  `==`/`!=` would call the default
    value's own __eq__ (mock.ANY is equal to everything; an array compares element-wise and has no truth value)."""
    n = 0
    for c in ast.walk(f):
        if isinstance(c, ast.Compare) and len(c.ops) == 1:
            sides = [c.left, c.comparators[0]]
            if any(isinstance(x, ast.Attribute) and x.attr == "empty" for x in sides):
                n += 1
                ctx.check(isinstance(c.ops[0], (ast.Is, ast.IsNot)), c, "the 'no default' sentinel is tested by identity",
                          "`%s` compares a default value with the `empty` sentinel by equality: a default whose == is unusual (mock.ANY, array-likes) is dropped or makes filter_args raise" % unparse(c))
    return n


def kinds(ctx):
    sh = analyse(ctx)
    _sentinel_identity(ctx, sh.f)
    if sh.delegates and sh.class_loop is None:
        ctx.ok(sh.f, "shape A: binding is delegated to inspect.Signature.bind + apply_defaults (all kinds are the interpreter's own)")
        return
    ctx.need(sh.class_loop is not None, "filter_args has neither the delegation shape nor a classification loop over signature.parameters")
    missing = [k for k in KINDS if k not in sh.handled]
    if missing and sh.has_else:
        ctx.ok(sh.class_loop, "kinds %s fall into the else branch of the classification chain" % missing)
    for k in KINDS:
        if k in sh.handled or sh.has_else:
            ctx.ok(sh.class_loop, "parameter kind %s is handled by the classification chain" % k, key="%s::filter_args::kind %s" % (FI, k))
        else:
            ctx.bad(sh.class_loop, "parameter kind %s has no branch in the classification chain: such parameters are silently dropped from the canonical mapping "
                    "(two calls differing only in them share one cache key)" % k, key="%s::filter_args::kind %s" % (FI, k))
    # positional kinds feed the positional walk list; VAR_* are remembered as scalars
    walk = _walk_loop(sh)
    if walk is not None:
        L = _enum_list(walk)
        dom = sh.list_domain.get(L, set())
        ctx.check(POSITIONAL <= dom, sh.class_loop, "both positional kinds are appended to the walk list %s" % L,
                  "walk list %s is only fed by kinds %s" % (L, sorted(dom)))
    ctx.check(any("VAR_POSITIONAL" in v for v in sh.scalar_kind.values()) and any("VAR_KEYWORD" in v for v in sh.scalar_kind.values()), sh.class_loop,
              "*args and **kwargs parameter names are recorded")


def _walk_loop(sh):
    for l in nodes_of_type(sh.f, ast.For):
        if isinstance(l.iter, ast.Call) and call_name(l.iter) == "enumerate" and l is not sh.class_loop:
            return l
    return None


def _enum_list(lp):
    return dotted(lp.iter.args[0])


def _final_domain(sh, name):
    """kind domain of list `name` at the walk loop, following re-bindings
    `name = [x] + name` (method self) which do not change kinds."""
    return sh.list_domain.get(name, set())


def lockstep(ctx):
    sh = analyse(ctx)
    if sh.delegates and sh.class_loop is None:
        ctx.ok(sh.f, "shape A: defaults are applied by apply_defaults()")
        return
    ctx.need(sh.class_loop is not None and sh.defaults is not None, "default collection not recognised")
    kind, dname, ddom, dnode = sh.defaults
    walk = _walk_loop(sh)
    ctx.need(walk is not None, "positional walk loop (enumerate) not found")
    L = _enum_list(walk)
    idx_var, name_var = [dotted(e) for e in walk.target.elts]
    loads = [n for s in walk.body for n in walk_local(s) if isinstance(n, ast.Subscript) and dotted(n.value) == dname and isinstance(n.ctx, ast.Load)]
    ctx.need(loads, "no default look-up in the walk loop")
    for n in loads:
        if kind == "dict":
            ctx.check(dotted(n.slice) == name_var, n, "defaults are looked up by parameter name (mapping keyed by param.name)", "defaults mapping is indexed by %s" % unparse(n.slice))
            hs = [h for a in ancestors(n) if isinstance(a, ast.Try) and in_block(n, a.body) for h in a.handlers]
            from ..core import handler_catches
            ctx.check(any(handler_catches(h, ["KeyError"]) for h in hs), n, "a missing default (KeyError) is reported as a wrong number of arguments")
            continue
        # list indexed by position
        idx = n.slice
        if isinstance(idx, ast.Name):
            d = [a for s in walk.body for a in walk_local(s) if isinstance(a, ast.Assign) and idx.id in stores_to(a)]
            idx = d[0].value if len(d) == 1 else idx
        tail = isinstance(idx, ast.BinOp) and isinstance(idx.op, ast.Sub) and dotted(idx.left) == idx_var and unparse(idx.right) == "len(%s)" % L
        ctx.need(tail, "positional default look-up %s is not a recognised tail offset" % unparse(idx))
        ldom = _final_domain(sh, L)
        ok = ldom <= POSITIONAL and ddom >= ldom
        ctx.check(ok, n, "tail-offset alignment of defaults with %s is sound (domain %s is positional only)" % (L, sorted(ldom)),
                  "defaults list %s (filled for kinds %s) is aligned with the tail of %s (kinds %s): Python only forces defaults to be a suffix among positional "
                  "parameters, so a required keyword-only parameter after a defaulted one gets the wrong default or is rejected" % (dname, sorted(ddom), L, sorted(ldom)))


# -- tiny propositional engine over the guarding conditions -------------------------

def _atoms(e, out):
    if isinstance(e, ast.BoolOp):
        for v in e.values:
            _atoms(v, out)
    elif isinstance(e, ast.UnaryOp) and isinstance(e.op, ast.Not):
        _atoms(e.operand, out)
    else:
        out.add(_norm_atom(e)[0])


def _norm_atom(e):
    """(canonical text, polarity) for a leaf comparison"""
    if isinstance(e, ast.Compare) and len(e.ops) == 1:
        l, r = unparse(e.left), unparse(e.comparators[0])
        op = e.ops[0]
        if isinstance(op, ast.NotIn):
            return "%s in %s" % (l, r), False
        if isinstance(op, ast.In):
            return "%s in %s" % (l, r), True
        if isinstance(op, ast.IsNot):
            return "%s is %s" % (l, r), False
        if isinstance(op, ast.Is):
            return "%s is %s" % (l, r), True
        if isinstance(op, ast.GtE):
            return "%s < %s" % (l, r), False
        if isinstance(op, ast.Lt):
            return "%s < %s" % (l, r), True
        if isinstance(op, ast.Gt):
            return "%s < %s" % (r, l), True
        if isinstance(op, ast.LtE):
            return "%s < %s" % (r, l), False
    return unparse(e), True


def _eval(e, env):
    if isinstance(e, ast.BoolOp):
        vals = [_eval(v, env) for v in e.values]
        return all(vals) if isinstance(e.op, ast.And) else any(vals)
    if isinstance(e, ast.UnaryOp) and isinstance(e.op, ast.Not):
        return not _eval(e.operand, env)
    a, pol = _norm_atom(e)
    return env[a] if pol else not env[a]


def implied(conds, atom_text, want=True):
    """Do the guarding conditions [(expr, polarity)] imply atom == want ?
    Returns None if the atom does not occur."""
    atoms = set()
    for e, _ in conds:
        _atoms(e, atoms)
    if atom_text not in atoms:
        return None
    atoms = sorted(atoms)
    for vals in itertools.product([True, False], repeat=len(atoms)):
        env = dict(zip(atoms, vals))
        if all(_eval(e, env) == pol for e, pol in conds):
            if env[atom_text] != want:
                return False
    return True


def _kind_count(expr, sh, walk, depth=3):
    """Counter of parameter kinds counted by an integer expression built
    from len(list) / enumerate index / +,- ; None if not recognised."""
    if isinstance(expr, ast.Call) and call_name(expr) == "len" and expr.args:
        d = dotted(expr.args[0])
        if d in sh.list_domain:
            return Counter({k: 1 for k in sh.list_domain[d]})
        return None
    if isinstance(expr, ast.BinOp) and isinstance(expr.op, (ast.Add, ast.Sub)):
        # idx + 1 where idx enumerates the walk list  ==  len(list) after the loop
        if isinstance(expr.op, ast.Add) and walk is not None and dotted(expr.left) == dotted(walk.target.elts[0]) and const_value(expr.right) == 1:
            return Counter({k: 1 for k in sh.list_domain.get(_enum_list(walk), set())})
        a, b = _kind_count(expr.left, sh, walk, depth), _kind_count(expr.right, sh, walk, depth)
        if a is None or b is None:
            return None
        out = Counter(a)
        if isinstance(expr.op, ast.Add):
            out.update(b)
        else:
            out.subtract(b)
        return out
    if isinstance(expr, ast.Name) and depth > 0:
        d = [a for a in nodes_of_type(sh.f, ast.Assign) if expr.id in stores_to(a) and not (isinstance(a.value, ast.Constant))]
        if len(d) == 1:
            return _kind_count(d[0].value, sh, walk, depth - 1)
    return None


def positional(ctx):
    sh = analyse(ctx)
    if sh.delegates and sh.class_loop is None:
        ctx.ok(sh.f, "shape A: positional binding is Signature.bind's")
        return
    ctx.need(sh.class_loop is not None, "classification loop not found")
    walk = _walk_loop(sh)
    ctx.need(walk is not None, "walk loop not found")
    f = sh.f
    g = cfg_of(f)
    L = _enum_list(walk)
    idx_var, name_var = [dotted(e) for e in walk.target.elts]
    kw_lists = [n for n, d in sh.list_domain.items() if d == {"KEYWORD_ONLY"}]
    ldom = _final_domain(sh, L)
    reads = [n for s in walk.body for n in walk_local(s) if isinstance(n, ast.Subscript) and dotted(n.value) == "args" and dotted(n.slice) == idx_var and isinstance(n.ctx, ast.Load)]
    ctx.need(reads, "no positional read args[<index>] in the walk loop")

    # `index < <number of positional-capable parameters>` says the same as `name not in <keyword-only list>` (keyword-only
    # parameters come last in the walk list) - provided the count is exactly the positional-capable kinds AND is taken when
    # the measured lists have their final content (after the bound-method prepend).  Such atoms are rewritten before the
    # propositional reasoning; a count taken too early is not, so the tests built on it stay unproved.
    def _final(expr):
        defs_, lists_ = [], set()
        def coll(e, depth=3):
            for nm in [x for x in ast.walk(e) if isinstance(x, ast.Name)]:
                if nm.id in sh.list_domain:
                    lists_.add(nm.id)
                elif depth > 0:
                    d_ = [x for x in nodes_of_type(f, ast.Assign) if nm.id in stores_to(x) and not isinstance(x.value, ast.Constant)]
                    if len(d_) == 1:
                        defs_.append(d_[0]); coll(d_[0].value, depth - 1)
        coll(expr)
        for L_ in lists_:
            muts = [x for x in nodes_of_type(f, ast.Assign) if L_ in stores_to(x) and not (isinstance(x.value, ast.List) and not x.value.elts)]
            muts += [enclosing_stmt(c_) for c_ in calls_in(f) if call_attr(c_) in ("append", "insert", "extend") and dotted(c_.func.value) == L_]
            if any(g.path_exists(g.nodes_of(d_), g.nodes_of(m_)) for m_ in muts for d_ in defs_):
                return False
        return True

    class _Rw(ast.NodeTransformer):
        def visit_Compare(self, node):
            if len(node.ops) == 1 and isinstance(node.ops[0], ast.Lt) and dotted(node.left) == idx_var and kw_lists:
                cnt = _kind_count(node.comparators[0], sh, walk)
                if cnt is not None and {k: c for k, c in cnt.items() if c != 0} == {k: 1 for k in POSITIONAL} and _final(node.comparators[0]):
                    return ast.copy_location(ast.parse("%s not in %s" % (name_var, kw_lists[0]), mode="eval").body, node)
            return node

    def rw(t):
        return ast.fix_missing_locations(_Rw().visit(ast.parse(ast.unparse(t), mode="eval").body))
    for n in reads:
        conds = [(rw(t), pol) for (_, t, pol) in g.conditions_at(g.nodes_of(n))]
        if ldom <= POSITIONAL:
            ctx.ok(n, "the walk list only holds positional-capable parameters")
            continue
        ok = any(implied(conds, "%s in %s" % (name_var, kl), False) for kl in kw_lists)
        ctx.check(bool(ok), n, "a positional value binds a named parameter only when it is not keyword-only",
                  "args[%s] can be bound to a keyword-only parameter" % idx_var)
    # the keyword-only-passed-positionally error
    raises = [r for s in walk.body for r in walk_local(s) if isinstance(r, ast.Raise) and "Keyword-only" in ast.unparse(r)]
    varargs_names = [n for n, k in sh.scalar_kind.items() if k == {"VAR_POSITIONAL"}]
    for r in raises:
        conds = [(rw(t), pol) for (_, t, pol) in g.conditions_at(g.nodes_of(r))]
        ok = any(implied(conds, "%s is None" % v, True) for v in varargs_names)
        ctx.check(bool(ok), r, "`keyword-only passed as positional` is raised only when the function has no *args parameter",
                  "`keyword-only passed as positional` is raised even when the function has *args (surplus positionals belong to *args): valid calls such as f(1, 2, 3) for def f(a, *args, k=1) are rejected")
    # the '*' entry
    stars = [a for a in nodes_of_type(f, ast.Assign) if any(isinstance(t, ast.Subscript) and dotted(t.value) == "arg_dict" and const_value(t.slice) == "*" for t in a.targets)]
    ctx.need(stars, "arg_dict['*'] store not found")
    for a in stars:
        v = a.value
        if isinstance(v, ast.Name):
            d = [x for x in nodes_of_type(f, ast.Assign) if v.id in stores_to(x)]
            v = d[0].value if len(d) == 1 else v
        ok_shape = isinstance(v, ast.Subscript) and dotted(v.value) == "args" and isinstance(v.slice, ast.Slice) and v.slice.upper is None and v.slice.step is None and v.slice.lower is not None
        ctx.need(ok_shape, "'*' entry is not args[<n>:]")
        cnt = _kind_count(v.slice.lower, sh, walk)
        ctx.need(cnt is not None, "start of the '*' slice (%s) is not a recognised count of parameters" % unparse(v.slice.lower))
        cnt = {k: c for k, c in cnt.items() if c != 0}
        ok = cnt == {k: 1 for k in POSITIONAL if k in sh.handled or True} and set(cnt) == POSITIONAL
        ctx.check(ok, a, "the '*' slice starts after exactly the positional-capable parameters (%s)" % unparse(v.slice.lower),
                  "the '*' slice starts at %s, which counts kinds %s: with keyword-only parameters present, leading surplus positionals are cut off" % (unparse(v.slice.lower), cnt))
        conds = g.conditions_at(g.nodes_of(a))
        ctx.check(any(implied([(t, pol)], "%s is None" % vn, False) for (_, t, pol) in conds for vn in varargs_names), a, "'*' is present iff the function has a *args parameter")
        # the count must be taken when the measured lists have their final content
        # (after the classification loop and after the bound-method prepend, which also prepends to args)
        def_stmts, lists = [], set()

        def collect(e, depth=3):
            for nm in [x for x in ast.walk(e) if isinstance(x, ast.Name)]:
                if nm.id in sh.list_domain:
                    lists.add(nm.id)
                elif depth > 0:
                    d_ = [x for x in nodes_of_type(f, ast.Assign) if nm.id in stores_to(x) and not isinstance(x.value, ast.Constant)]
                    if len(d_) == 1:
                        def_stmts.append(d_[0])
                        collect(d_[0].value, depth - 1)
        collect(v.slice.lower)
        if not def_stmts:
            def_stmts = [a]
        for L_ in sorted(lists):
            muts = [x for x in nodes_of_type(f, ast.Assign) if L_ in stores_to(x) and not (isinstance(x.value, ast.List) and not x.value.elts)]
            muts += [enclosing_stmt(c_) for c_ in calls_in(f) if call_attr(c_) in ("append", "insert", "extend") and dotted(c_.func.value) == L_]
            late = [m_ for m_ in muts for d_ in def_stmts if g.path_exists(g.nodes_of(d_), g.nodes_of(m_))]
            ctx.check(not late, def_stmts[0], "the count of positional parameters is taken after %s has its final content" % L_,
                      "the count %s is computed before %s is modified (%s): for bound methods the instance is prepended afterwards, so '*' starts one element too early" % (
                          unparse(def_stmts[0], 60), L_, unparse(late[0], 50) if late else ""))


def in_block_(node, block):
    return any(any(x is node for x in ast.walk(s_)) for s_ in block)


def kw(ctx):
    sh = analyse(ctx)
    if sh.delegates and sh.class_loop is None:
        ctx.ok(sh.f, "shape A: keyword binding is Signature.bind's")
        return
    f = sh.f
    loops = [l for l in nodes_of_type(f, ast.For) if isinstance(l.iter, ast.Call) and "kwargs.items()" in unparse(l.iter)]
    ctx.need(loops, "keyword loop not found")
    lp = loops[0]
    ctx.check(call_name(lp.iter) == "sorted", lp, "keywords are visited in sorted order (surplus keywords are collected deterministically)")
    name_var = dotted(lp.target.elts[0])
    skips = [x for s_ in lp.body for x in walk_local(s_) if isinstance(x, (ast.Continue, ast.Break))]
    ctx.check(not skips, skips[0] if skips else lp, "every given keyword is bound, collected under '**' or rejected (no continue/break in the keyword loop)",
              "the keyword loop skips some keywords (%s): they vanish from the canonical mapping" % (unparse(enclosing_stmt(skips[0]), 60) if skips else ""))
    chain = [s for s in lp.body if isinstance(s, ast.If) and not all(isinstance(x, (ast.Continue, ast.Break, ast.Pass)) for x in s.body)]
    if len(chain) != 1:
        if skips:
            return
        ctx.need(False, "keyword loop body is not one if/elif/else chain")
    c = chain[0]
    t1 = c.test
    conj = t1.values if isinstance(t1, ast.BoolOp) and isinstance(t1.op, ast.And) else [t1]
    ctx.check(any(unparse(x) == "%s in arg_dict" % name_var for x in conj), c, "a keyword naming a bound parameter overrides/sets that parameter")
    # the value of a keyword that names a parameter reaches arg_dict[name]: either the keyword loop OVERWRITES the entry,
    # or the parameter walk reads kwargs[name] for every parameter not bound positionally (each alone is enough; a walk that
    # sometimes prefers the default is only repaired by an overwriting keyword loop)
    val_var = dotted(lp.target.elts[1])
    over = [a for a in c.body if isinstance(a, ast.Assign) and unparse(a) == "arg_dict[%s] = %s" % (name_var, val_var)]
    walk_ = _walk_loop(sh)
    walk_ok = False
    if walk_ is not None:
        gk = cfg_of(f)
        wname_ = dotted(walk_.target.elts[1])
        reads = [a for a in nodes_of_type(walk_, ast.Assign) if unparse(a) == "arg_dict[%s] = kwargs[%s]" % (wname_, wname_)]
        for a in reads:
            from ..core import cond_facts
            fc = [x for x in cond_facts([c_ for c_ in gk.conditions_at(gk.nodes_of(a)) if in_block_(c_[0], walk_.body)]) if "kwargs" in x[0] or "posonly" in x[0].lower() or "defaults" in x[0] or "len(args)" in x[0]]
            extra = [x for x in fc if not (x == ("%s in kwargs" % wname_, True) or (x[0].startswith("%s in " % wname_) and "posonly" in x[0].lower() and not x[1]) or (x[0].startswith("%s not in " % wname_) and "posonly" in x[0].lower() and x[1]) or x[0].startswith("arg_position < len(args)"))]
            walk_ok = walk_ok or not extra
    if over or walk_ok:
        ctx.ok(over[0] if over else c, "a keyword's value reaches its parameter (%s)" % ("keyword loop overwrites" + (" and the walk reads kwargs unconditionally" if walk_ok else "") if over else "the walk reads kwargs for every parameter not bound positionally"))
    else:
        ctx.bad(c, "the parameter walk does not always take a given keyword (it can prefer the default) and the keyword loop does not overwrite the entry either: calls that differ only in that keyword share one mapping",
                key="joblib/func_inspect.py::filter_args::keyword value reaches its parameter")
    po_lists = [n for n, d in sh.list_domain.items() if d == {"POSITIONAL_ONLY"}] if sh.class_loop is not None else []
    walk = _walk_loop(sh)
    if sh.class_loop is not None and walk is not None and "POSITIONAL_ONLY" in sh.list_domain.get(_enum_list(walk), set()):
        ok = any(unparse(x) in ["%s not in %s" % (name_var, p) for p in po_lists] for x in conj)
        ctx.check(ok, c, "a keyword never binds a positional-only parameter", "a keyword can bind a positional-only parameter (Python would put it in **kwargs or reject it)")
        # same in the walk loop
        g = cfg_of(f)
        wname = dotted(walk.target.elts[1])
        for n in [x for s in walk.body for x in walk_local(s) if isinstance(x, ast.Subscript) and dotted(x.value) == "kwargs" and isinstance(x.ctx, ast.Load)]:
            conds = [(t, pol) for (_, t, pol) in g.conditions_at(g.nodes_of(n))]
            ctx.check(any(implied(conds, "%s in %s" % (wname, p), False) for p in po_lists), n, "kwargs[name] is read only for non-positional-only parameters")
    ok2 = len(c.orelse) == 1 and isinstance(c.orelse[0], ast.If) and implied([(c.orelse[0].test, True)], _norm_atom(ast.parse("x is None", mode="eval").body)[0].replace("x", _varkw(sh)), False)
    ctx.check(bool(ok2), c, "otherwise it goes under '**' iff the function has a **kwargs parameter")
    if ok2:
        last = c.orelse[0].orelse
        ctx.check(any(isinstance(s, ast.Raise) and call_name(s.exc) == "TypeError" for s in last), c, "otherwise TypeError (unexpected keyword)", "an unexpected keyword is swallowed instead of raising TypeError")
        st = [a for a in c.orelse[0].body if isinstance(a, ast.Assign) and unparse(a) == "varkwargs[%s] = %s" % (name_var, dotted(lp.target.elts[1]))]
        ctx.check(bool(st), st[0] if st else c, "surplus keyword is stored under its own name")
    # the variadic slots '*' / '**' are not names a keyword can bind: they must be filled AFTER the keyword loop (while the
    # loop runs they are not in the mapping, so a keyword spelled "*" or "**" goes to the surplus keywords like any other)
    g_kw = cfg_of(f)
    slot_stores = [a for a in nodes_of_type(f, ast.Assign) if any(isinstance(t, ast.Subscript) and dotted(t.value) == "arg_dict" and const_value(t.slice) in ("*", "**") for t in a.targets)]
    kw_writes = [a for a in nodes_of_type(f, ast.Assign) if in_block(a, lp.body) and any(isinstance(t, ast.Subscript) and dotted(t.value) == "arg_dict" for t in a.targets)]
    for a in slot_stores:
        ctx.check(not any(g_kw.path_exists(g_kw.nodes_of(a), g_kw.nodes_of(w)) for w in kw_writes), a, "the variadic slot is filled after the keywords were distributed",
                  "`%s` is executed before the keyword loop: a keyword spelled like the slot (passed through **mapping) then finds it in the mapping and overwrites it, "
                  "so two different calls share one canonical mapping" % unparse(a, 50))
    stores = [a for a in nodes_of_type(f, ast.Assign) if any(isinstance(t, ast.Subscript) and dotted(t.value) == "arg_dict" and const_value(t.slice) == "**" for t in a.targets)]
    ctx.check(bool(stores) and dotted(stores[0].value) == "varkwargs", stores[0] if stores else f, "arg_dict['**'] is the surplus-keyword mapping")


def _varkw(sh):
    for n, k in getattr(sh, "scalar_kind", {}).items():
        if k == {"VAR_KEYWORD"}:
            return n
    return "arg_varkw"


def method(ctx):
    f = ctx.repo.func(FI, "filter_args")
    t = [n for n in nodes_of_type(f, ast.If) if unparse(n.test) == "inspect.ismethod(func)"]
    sh = analyse(ctx)
    if sh.delegates and sh.class_loop is None:
        ctx.ok(f, "shape A: bound methods are handled by inspect.signature")
        return
    if not t:
        narrowed = [n for n in nodes_of_type(f, ast.If) if "inspect.ismethod(func)" in unparse(n.test)]
        ctx.bad(narrowed[0] if narrowed else f, "the instance is no longer put back for EVERY bound method (condition: %s): methods bound to different objects (e.g. an inherited classmethod "
                "bound to two classes) get the same canonical mapping and share cache entries" % (unparse(narrowed[0].test) if narrowed else "none"), key=FI + "::filter_args::bound-method prepend")
        return
    walk = _walk_loop(sh)
    L = _enum_list(walk) if walk is not None else "arg_names"
    a_args = [a for a in t[0].body if isinstance(a, ast.Assign) and "args" in stores_to(a)]
    a_names = [a for a in t[0].body if isinstance(a, ast.Assign) and L in stores_to(a)]
    g_m = cfg_of(f)
    ins = [c for s_ in t[0].body for c in calls_in(s_) if call_name(c) == "args.insert" and len(c.args) == 2 and const_value(c.args[0]) == 0 and unparse(c.args[1]) == "func.__self__"]
    new_list = bool(a_args) and "func.__self__" in unparse(a_args[0].value) and isinstance(a_args[0].value, ast.BinOp) and dotted(a_args[0].value.right) == "args"
    ctx.check(new_list or bool(ins), a_args[0] if a_args else (ins[0] if ins else t[0]), "for bound methods the instance is prepended to the positional values",
              "for bound methods the instance is not prepended to the positional values")
    # the caller's sequence is never modified: in-place edits of `args` need an unconditional private copy first
    copies = [a for a in nodes_of_type(f, ast.Assign) if "args" in stores_to(a) and ((isinstance(a.value, ast.Call) and call_name(a.value) == "list") or isinstance(a.value, (ast.List, ast.ListComp))
              or (isinstance(a.value, ast.BinOp) and isinstance(a.value.left, ast.List)))]
    inplace = [c for c in calls_in(f) if isinstance(c.func, ast.Attribute) and dotted(c.func.value) == "args" and c.func.attr in ("insert", "append", "extend", "pop", "remove", "clear", "sort", "reverse")]
    inplace += [a for a in ast.walk(f) if isinstance(a, ast.AugAssign) and dotted(a.target) == "args"]
    inplace += [a for a in ast.walk(f) if isinstance(a, (ast.Assign, ast.Delete)) and any(isinstance(t_, ast.Subscript) and dotted(t_.value) == "args" for t_ in (a.targets if hasattr(a, "targets") else []))]
    for m_ in inplace:
        ctx.check(bool(copies) and g_m.every_path_to(g_m.nodes_of(m_), g_m.nodes_of_all(copies)), m_, "`%s` works on filter_args' own copy of the positional values" % unparse(m_, 50),
                  "`%s` modifies `args` in place, and on some path `args` is still the caller's own list: a second call with the same list object sees the instance inserted by the first" % unparse(m_, 50))
    if sh.class_loop is not None and a_names and isinstance(a_names[0].value, ast.BinOp) and isinstance(a_names[0].value.left, ast.List) and a_names[0].value.left.elts:
        selfn = dotted(a_names[0].value.left.elts[0])
        po = [n_ for n_, d_ in sh.list_domain.items() if d_ == {"POSITIONAL_ONLY"}]
        def _marks(a):
            # P = [self_name] + P  /  P = P + [self_name]  /  P.append(self_name)  /  P.insert(0, self_name): P keeps its own
            # elements and gains the instance name, nothing else
            if isinstance(a, ast.Assign) and len(a.targets) == 1 and dotted(a.targets[0]) in po and isinstance(a.value, ast.BinOp) and isinstance(a.value.op, ast.Add):
                sides = [a.value.left, a.value.right]
                lst = [x for x in sides if isinstance(x, ast.List) and len(x.elts) == 1 and dotted(x.elts[0]) == selfn]
                own = [x for x in sides if dotted(x) == dotted(a.targets[0])]
                return len(lst) == 1 and len(own) == 1
            if isinstance(a, ast.Expr) and isinstance(a.value, ast.Call) and isinstance(a.value.func, ast.Attribute) and dotted(a.value.func.value) in po:
                if a.value.func.attr == "append":
                    return len(a.value.args) == 1 and dotted(a.value.args[0]) == selfn
                if a.value.func.attr == "insert":
                    return len(a.value.args) == 2 and dotted(a.value.args[1]) == selfn
            return False
        marked = [a for a in t[0].body if _marks(a)]
        ctx.check(bool(po) and bool(marked), marked[0] if marked else t[0], "the instance parameter is bound by Python already: its name is treated as positional-only (a keyword of that name goes to **kwargs)",
                  "the name of the instance parameter (%s) is not marked positional-only: for `def m(self, **kw)` the valid call obj.m(self=3) overwrites the instance in the canonical "
                  "mapping, so calls on different objects share a cache key" % selfn, key=FI + "::filter_args::instance parameter is positional-only")
    ctx.check(bool(a_names) and isinstance(a_names[0].value, ast.BinOp) and dotted(a_names[0].value.right) == L and isinstance(a_names[0].value.left, ast.List), a_names[0] if a_names else t[0],
              "and its parameter name is prepended to the walk list (both or neither)", "the instance is prepended to args but its name is not prepended to %s" % L)


def no_format_on_success(ctx):
    """A valid call must come through filter_args without its values being formatted: rendering the caller's arguments
    (repr / %-formatting / str.format of `args`, `kwargs` or values taken from them) belongs to the error paths only.
    On the success path it is a needless way to fail (a `__repr__` that raises, `"%r" % a_tuple`) - and to be slow."""
    f = ctx.repo.func(FI, "filter_args")
    m = ctx.repo.mod(FI)
    # module-level helpers that only render values: they (transitively) return a string built by formatting
    renderers = set()
    for q, fn in m.funcs.items():
        if "." in q or fn is f:
            continue
        rets = [r for r in nodes_of_type(fn, ast.Return) if r.value is not None]
        fmt = [n for n in ast.walk(fn) if (isinstance(n, ast.BinOp) and isinstance(n.op, ast.Mod) and isinstance(n.left, ast.Constant) and isinstance(n.left.value, str))
               or (isinstance(n, ast.Call) and isinstance(n.func, ast.Attribute) and n.func.attr in ("format", "join")) or (isinstance(n, ast.Call) and call_name(n) == "repr")]
        if rets and fmt and all(isinstance(r.value, (ast.Call, ast.BinOp, ast.JoinedStr, ast.Name)) for r in rets) and q.endswith("_str"):
            renderers.add(q)
    user = {a.arg for a in f.args.args[2:4]}          # args, kwargs
    n = 0
    for c in calls_in(f):
        nm = call_name(c)
        renders = nm in renderers and any(names_in(a) & user for a in list(c.args) + [k.value for k in c.keywords])
        renders = renders or (nm == "repr" and c.args and bool(names_in(c.args[0]) & user))
        if not renders:
            continue
        n += 1
        on_error = any(isinstance(a, (ast.Raise, ast.ExceptHandler)) for a in ancestors(c))
        ctx.check(on_error, c, "the caller's values are rendered only while raising",
                  "`%s` renders the caller's arguments on the success path of filter_args: every valid call now depends on repr/formatting of its values "
                  "(a value whose repr or %%-formatting raises makes a valid call fail)" % unparse(c, 80))
    ctx.floor(n, 2, "renderings of the caller's values (error messages)")


def ignore(ctx):
    f = ctx.repo.func(FI, "filter_args")
    g = cfg_of(f)
    loops = [l for l in nodes_of_type(f, ast.For) if dotted(l.iter) == f.args.args[1].arg]
    ctx.need(loops, "ignore loop not found")
    lp = loops[0]
    item = dotted(lp.target)
    pops = [c for c in calls_in(lp) if call_name(c) in ("arg_dict.pop",)] + [d for s in lp.body for d in walk_local(s) if isinstance(d, ast.Delete)]
    ctx.check(len(pops) == 1 and (not isinstance(pops[0], ast.Call) or dotted(pops[0].args[0]) == item), pops[0] if pops else lp, "each ignored name removes exactly arg_dict[<that name>]",
              "the ignore loop removes something else than arg_dict[item]")
    rs = [r for s in lp.body for r in walk_local(s) if isinstance(r, ast.Raise)]
    ctx.check(bool(rs) and call_name(rs[0].exc) == "ValueError", rs[0] if rs else lp, "an unknown name in the ignore list raises ValueError")
    for r in rs:
        conds = [(t, pol) for (_, t, pol) in g.conditions_at(g.nodes_of(r))]
        ctx.check(implied(conds, "%s in arg_dict" % item, False) is True, r, "raised only when the name is not a key of the mapping")
        inner = [(t, pol) for (i_, t, pol) in g.conditions_at(g.nodes_of(r)) if any(a is lp for a in ancestors(i_))]
        ctx.check(len(inner) == 1, r, "and on no further condition (every unknown name is reported)", "unknown ignored names are only reported under the extra condition %s" % [unparse(t) for t, _ in inner[1:]])
    t = [n for n in nodes_of_type(f, ast.If) if unparse(n.test) == "isinstance(%s, str)" % f.args.args[1].arg and any(isinstance(s, ast.Raise) for s in n.body)]
    ctx.check(bool(t), t[0] if t else f, "a str ignore list is rejected")
    rets = nodes_of_type(f, ast.Return)
    ctx.check(any(dotted(r.value) == "arg_dict" for r in rets), f, "the filtered mapping is returned")
    ctx.check(all(g.every_path_to(g.nodes_of(r), g.nodes_of(lp)) for r in rets if dotted(r.value) == "arg_dict"), lp, "the ignore loop runs before the mapping is returned")
    # non-introspectable callables: everything goes under * and **
    early = [r for r in rets if isinstance(r.value, ast.Dict)]
    for r in early:
        items = {const_value(k): dotted(v) for k, v in zip(r.value.keys, r.value.values)}
        ctx.check(items == {"*": "args", "**": "kwargs"}, r, "callables without a Python signature keep all values under '*' and '**'")


def signature_fresh(ctx):
    """The signature walked is inspect.signature(func) of *this* function object, obtained at call time."""
    f = ctx.repo.func(FI, "filter_args")
    d = [a for a in nodes_of_type(f, ast.Assign) if "arg_sig" in stores_to(a)]
    ctx.need(d, "arg_sig definition not found")
    for a in d:
        v = a.value
        ok = isinstance(v, ast.Call) and call_name(v) == "inspect.signature" and dotted(v.args[0]) == "func"
        if not ok and isinstance(v, ast.Call):
            # a helper is fine if it simply returns inspect.signature(<its parameter>)
            for callee in ctx.res.resolve_call(v):
                rets = nodes_of_type(callee, ast.Return)
                p0 = callee.args.args[0].arg if callee.args.args else None
                ok = bool(rets) and all(isinstance(r.value, ast.Call) and call_name(r.value) == "inspect.signature" and dotted(r.value.args[0]) == p0 for r in rets) and dotted(v.args[0]) == "func"
        ctx.check(ok, a, "the signature is inspect.signature(func), computed for this function object at call time",
                  "the signature comes from %s: a remembered signature of another function object (same code, other defaults/closure) can be used" % unparse(v))
    # every piece of parameter information comes from inspect.signature - the one source that agrees with how Python binds
    # a call (it follows __wrapped__ and __signature__): names read off the code object (co_varnames, co_argcount) or the
    # legacy getargspec family describe the wrapper of a decorated function, not the callable that is bound
    BYPASS = ("co_varnames", "co_argcount", "co_kwonlyargcount", "co_posonlyargcount", "__defaults__", "__kwdefaults__", "getfullargspec", "getargspec", "getargs", "getcallargs")
    stray = [n for n in ast.walk(f) if isinstance(n, ast.Attribute) and n.attr in BYPASS]
    ctx.check(not stray, stray[0] if stray else f, "filter_args takes parameter names, kinds and defaults from inspect.signature only",
              "filter_args reads `%s`: parameter information taken from the code object / argspec does not follow __wrapped__ / __signature__ as Python's own binding "
              "(inspect.signature) does - for a decorated method the instance lands under the wrapper's first local name" % (unparse(stray[0], 60) if stray else ""))
    m = ctx.repo.mod(FI)
    for st in m.tree.body:
        if isinstance(st, ast.Assign) and isinstance(st.value, (ast.Dict,)) and not st.value.keys:
            name = stores_to(st)[0]
            writers = [q for q, fn in m.funcs.items() for n in ast.walk(fn) if isinstance(n, ast.Subscript) and isinstance(n.ctx, ast.Store) and dotted(n.value) == name]
            ctx.check(not writers, st, "module-level dict %s is not used as a cache by a function" % name, "module-level dict %s is filled by %s: canonicalisation depends on earlier calls" % (name, writers))


def run(ctx):
    ctx.run("C07.SIGNATURE", "R-WHO", signature_fresh)
    ctx.run("C07.KINDS", "R-TABLE", kinds)
    ctx.run("C07.LOCKSTEP", "R-DUAL", lockstep)
    ctx.run("C07.POSITIONAL", "R-FLOW", positional)
    ctx.run("C07.KW", "R-ORDER", kw)
    ctx.run("C07.METHOD", "R-ORDER", method)
    ctx.run("C07.IGNORE", "R-ORDER", ignore)
    ctx.run("C07.NO-FORMAT", "R-WHO", no_format_on_success)


def clauses(ctx):
    """for C02 / C06"""
    run(ctx)
