"""One module per property; each exposes PROPERTY, EXPLANATION, ASSUMPTIONS
and run(ctx)."""

import importlib

ALL = ["C%02d" % i for i in range(1, 21)]


def load(pid):
    try:
        return importlib.import_module("sa.rules.%s" % pid.lower())
    except ModuleNotFoundError as e:
        if e.name == "sa.rules.%s" % pid.lower():
            return None
        raise
