"""C18 - reduce_size enforces every limit by evicting the minimal LRU prefix."""

from . import mem

PROPERTY = "C18"
EXPLANATION = (
    "Static decision of the structural clauses of C18: the list fed to the selection loop is the store inventory sorted "
    "ascending by last access and not re-ordered; the selection is a test-before-take prefix loop (stop by break, no "
    "continue, append in order, accumulators updated per taken item); each of the three limits reaches both the early "
    "return and the stop test in the expected linear form; every selected entry is deleted; the inventory recognises "
    "entry directories by a regex whose length equals the digest length, sizes them over all their files and dates them "
    "by output.pkl's atime. Numerical minimality for all stores follows from these only under the arithmetic they state; "
    "atime semantics of the file system are trusted."
)
ASSUMPTIONS = [
    "list.sort is stable and ascending; datetime comparison is total",
    "os.path.getatime reflects the last access (mount options such as noatime are outside)",
]


def run(ctx):
    ctx.run("C18.LRU-ORDER", "R-ORDER", mem.lru_order)
    ctx.run("C18.PREFIX", "R-ORDER", mem.prefix)
    ctx.run("C18.ALL-LIMITS", "R-FLOW", mem.all_limits)
    ctx.run("C18.DELETE-ALL", "R-ORDER", mem.delete_all)
    ctx.run("C18.INVENTORY", "R-TABLE", mem.inventory)
    ctx.run("C05.DELETE-TOLERANT", "R-ERRDISC", mem.delete_tolerant)
