"""C14 - truncated or over-long files make load fail cleanly - never hang or lie."""

from . import mem, zf

PROPERTY = "C14"
EXPLANATION = (
    "Static decision of the structural clauses of C14: a declared loop variant for every while loop of the load path "
    "(BinaryZlibFile._fill_buffer / _read_block / _read_all, numpy_pickle_utils._read_bytes, read_array's chunk loop) - on "
    "every back-edge path the refill consumes bytes of the finite underlying file or a counter strictly decreases, and an "
    "empty read exits; exact-length reads (fewer bytes than requested => ValueError; array payloads only through "
    "_read_bytes); EOF is reported as 'no data', never fabricated; a load failure makes Memory recompute. What "
    "pickle._Unpickler / bz2 / lzma do on truncated input is trusted; a truncation that ends on a valid pickle boundary is "
    "pickle's STOP-opcode contract."
    ' The load-failure handler cannot itself fail on optional state: optional timestamp guarded, metadata keys tolerated (C06.OPTIONAL-TIMESTAMP, C05.META-TOLERANT).'
)
ASSUMPTIONS = [
    "the underlying file is finite and read() eventually returns b'' at its end",
    "zlib.decompressobj.decompress returns b'' and appends its input to unused_data once eof is reached",
    "pickle._Unpickler raises on truncated input",
]


def run(ctx):
    ctx.run("C14.PROGRESS", "R-PROGRESS", zf.progress)
    ctx.run("C14.EXACT", "R-ORDER", zf.exact)
    ctx.run("C14.EOF-NOT-DATA", "R-ORDER", zf.eof_not_data)
    ctx.run("C14.RECOMPUTE", "R-ERRDISC", mem.load_tolerant)
    ctx.run("C14.NO-SWALLOW", "R-ERRDISC", zf.no_swallow)
    ctx.run("C14.REWRITE", "R-ORDER", mem.dump_always_writes)
    ctx.run("C05.META-TOLERANT", "R-FLOW", mem.meta_tolerant)
    ctx.run("C06.OPTIONAL-TIMESTAMP", "R-FLOW", mem.optional_timestamp)
    ctx.run("C13.CURSOR", "R-DUAL", zf.cursor)
