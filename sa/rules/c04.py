"""C04 - task failures surface as that exception; Parallel stays reusable."""

from . import par

PROPERTY = "C04"
EXPLANATION = (
    "Static (AST/CFG) decision of the structural clauses of C04 listed in DESIGN.md section 5: outcome "
    "registered once under the dispatch lock (typestate), error status raises the abort flags, the stored "
    "exception object itself is re-raised, an exception of the input iterable is wrapped as a failed job, "
    "the abort test dominates every wait of the retrieval loop, the timeout reaches every wait, cleanup "
    "ordering in _get_outputs/_abort/_terminate_and_reset/abort_everything, completeness of the per-call "
    "state reset (R-RESET), freshness and use of the per-call id, worker-side exception capture. "
    "These are necessary conditions visible in the shape of the code on every path; termination, timing "
    "and the behaviour of the pools themselves are NOT decided."
    ' Every early return of the completion callback is a sanctioned one (stale call id / aborting / no retrieval callback); every attribute written while a call runs is re-initialised by a per-call prologue/epilogue.'
    " A registered error is always raised: _wait_retrieval answers True whenever _aborting is set (C04.ERROR-SURFACES, defect D-P4 repaired); the tracker's mode is decided by one capability flag (C01.STATUS-MODE)."
)
ASSUMPTIONS = [
    "CPython ast semantics; statement-level CFG with implicit exceptions modelled only inside try bodies",
    "ThreadPool / multiprocessing.Pool / loky invoke the completion callback at most once per submitted batch",
    "attribute `parallel` of BatchCompletionCallBack holds the Parallel instance (read from its __init__)",
]


def run(ctx):
    ctx.run("C04.ONCE", "R-ORDER/R-LOCK", par.c04_once)
    ctx.run("C04.FLAGS", "R-ORDER", par.c04_flags)
    ctx.run("C04.SAME-EXC", "R-WHO", par.c04_same_exc)
    ctx.run("C04.ITER-EXC", "R-ORDER", par.c04_iter_exc)
    ctx.run("C04.FAST", "R-ORDER", par.c04_fast)
    ctx.run("C04.TIMEOUT", "R-FLOW", par.c04_timeout)
    ctx.run("C04.TIMEOUT-UNORDERED", "R-ORDER", par.c04_timeout_unordered)
    ctx.run("C01.STOP", "R-FLOW", par.c01_stop)
    ctx.run("C01.CALLBACK-SIBLINGS", "R-SIBLING", par.c01_callback_siblings)
    ctx.run("C04.CLEANUP", "R-ORDER", par.c04_cleanup)
    ctx.run("C04.RESET", "R-RESET", par.c04_reset)
    ctx.run("C04.CALLID", "R-LOCK/R-ORDER", par.c04_callid)
    ctx.run("C04.CALLBACK-TOTAL", "R-ORDER", par.c04_callback_total)
    ctx.run("C04.WRAP", "R-ERRDISC", par.c04_wrap)
    ctx.run("C04.ERROR-SURFACES", "R-FLOW", par.c04_error_surfaces)
    ctx.run("C01.STATUS-MODE", "R-SIBLING", par.c01_status_mode)
