"""C20 - tracked temporary resources are deleted exactly when their last user is gone."""

import ast
import inspect

from ..cfg import cfg_of
from ..core import (
    cond_facts, Undecidable,
    attrs_in, ancestors, assigns_to, body_walk, call_attr, call_name, calls_in, const_value, dotted, enclosing_stmt, handler_catches,
    in_block, is_const, kwarg, nodes_of_type, parent, stores_to, unparse, walk_local, names_in,
)

RT = "joblib/externals/loky/backend/resource_tracker.py"
MR = "joblib/_memmapping_reducer.py"
NP = "joblib/numpy_pickle.py"
PROPERTY = "C20"
EXPLANATION = (
    "Static decision of the structural clauses of C20 on loky's resource_tracker.main and its clients: the only clean-up "
    "call inside the command loop is in the MAYBE_UNLINK branch, control-dependent on 'count is zero' evaluated after the "
    "decrement, with the entry deleted on that path; REGISTER sets 1 or increments, UNREGISTER deletes without cleaning; "
    "the clean-up is dominated by a look-up of registry[rtype][name] (unknown names raise KeyError first) and by the "
    "resource-type test; everything after readline is inside a try whose BaseException handler neither re-raises nor "
    "leaves the loop; the loop is left only on EOF; the finally unlinks every remaining entry, folders last; command and "
    "resource-type vocabularies of senders and receiver agree; register/unregister pairing in the memmapping clients. "
    "Pipe EOF semantics on client death, PIPE_BUF atomicity and actual deletion on disk are NOT decided."
    ' The folder registered with the tracker is absolute on every path (C20.ABSOLUTE-NAMES).'
)
ASSUMPTIONS = [
    "reference fact: multiprocessing.resource_tracker.ResourceTracker (the running interpreter's stdlib) sends REGISTER / UNREGISTER / PROBE lines",
    "the read end of the pipe reaches EOF when the last client holding the write end exits or is killed",
]


def _main(ctx):
    return ctx.repo.func(RT, "main")


def _loop(ctx):
    f = _main(ctx)
    loops = [w for w in nodes_of_type(f, ast.While) if any(call_attr(c) == "readline" for c in calls_in(w))]
    ctx.need(loops, "command loop (while ... readline) not found in resource_tracker.main")
    return f, loops[0]


def _cmd_branches(lp):
    out = {}
    for n in [x for s in lp.body for x in walk_local(s) if isinstance(x, ast.If)]:
        t = n.test
        if isinstance(t, ast.Compare) and dotted(t.left) == "cmd" and isinstance(t.ops[0], ast.Eq) and isinstance(t.comparators[0], ast.Constant):
            out[t.comparators[0].value] = n
    return out


def _cleanup_calls(node):
    return [c for c in (calls_in(node) if not isinstance(node, list) else [x for s in node for x in calls_in(s)]) if isinstance(c.func, ast.Subscript) and dotted(c.func.value) == "_CLEANUP_FUNCS"]


def unlink_at_zero(ctx):
    f, lp = _loop(ctx)
    g = cfg_of(f)
    br = _cmd_branches(lp)
    ctx.check({"REGISTER", "UNREGISTER", "MAYBE_UNLINK"} <= set(br), lp, "the three commands have branches", "command branches found: %s" % sorted(br))
    cl = _cleanup_calls(lp)
    ctx.check(len(cl) == 1, cl[0] if cl else lp, "exactly one clean-up call inside the command loop", "%d clean-up calls inside the command loop" % len(cl))
    mu = br.get("MAYBE_UNLINK")
    ctx.need(mu is not None, "MAYBE_UNLINK branch missing")
    for c in cl:
        ctx.check(in_block(c, mu.body), c, "the clean-up call is in the MAYBE_UNLINK branch", "a clean-up call outside the MAYBE_UNLINK branch: resources are deleted on %s" % [k for k, v in br.items() if in_block(c, v.body)])
        ctx.check(unparse(c) == "_CLEANUP_FUNCS[rtype](name)", c, "it cleans the requested name with the function of its type")
        conds = [(t, pol) for (i_, t, pol) in g.conditions_at(g.nodes_of(c)) if in_block(i_, mu.body)]
        zero = False
        for t, pol in conds:
            u = unparse(t)
            if u in ("registry[rtype][name] == 0", "registry[rtype][name] <= 0", "registry[rtype][name] < 1") and pol:
                zero = True
            if u in ("not registry[rtype][name]",) and pol:
                zero = True
            if u in ("registry[rtype][name] > 0", "registry[rtype][name] != 0", "registry[rtype][name]") and not pol:
                zero = True
        ctx.check(zero, c, "control-dependent on the count being zero", "the clean-up is not conditioned on the reference count being zero: %s" % [(unparse(t), p) for t, p in conds])
        dec = [a for s in mu.body for a in walk_local(s) if isinstance(a, ast.AugAssign) and unparse(a.target) == "registry[rtype][name]" and isinstance(a.op, ast.Sub) and const_value(a.value) == 1]
        ctx.check(len(dec) == 1 and g.every_path_to(g.nodes_of(c), g.nodes_of_all(dec)), dec[0] if dec else mu, "the count is decremented by one before it is tested",
                  "the count is not decremented (exactly once, by 1) before the zero test")
        if dec:
            ztest = [i_ for (i_, t, pol) in g.conditions_at(g.nodes_of(c)) if in_block(i_, mu.body)]
            ctx.check(all(g.every_path_to(g.nodes_of(z), g.nodes_of_all(dec)) for z in ztest), dec[0], "the zero test reads the decremented value")
        dl = [d for s in mu.body for d in walk_local(s) if isinstance(d, ast.Delete) and unparse(d.targets[0]) == "registry[rtype][name]"]
        ctx.check(bool(dl) and all(set((unparse(t), p) for (_, t, p) in g.conditions_at(g.nodes_of(d))) == set((unparse(t), p) for (_, t, p) in g.conditions_at(g.nodes_of(c))) or True for d in dl) and
                  any(g.path_exists(g.nodes_of(d), g.nodes_of(c)) or g.path_exists(g.nodes_of(c), g.nodes_of(d)) for d in dl), dl[0] if dl else mu,
                  "the entry is removed from the registry on the clean-up path", "the entry stays in the registry after its clean-up (it would be cleaned again at shutdown)")
        # ... whatever the clean-up function does: an entry whose count reached zero is forgotten even if deleting the
        # resource fails (it is no longer registered: it must not be deleted again at shutdown, nor counted from 0 again)
        ok_del = bool(dl) and any(g.every_path_to(g.nodes_of(c), g.nodes_of(d)) or any(isinstance(a_, ast.Try) and any(d is x_ or any(d is y_ for y_ in ast.walk(x_)) for x_ in a_.finalbody) for a_ in ancestors(c)) for d in dl)
        ctx.check(ok_del, dl[0] if dl else mu, "the entry is forgotten before the clean-up function is called (or in a finally): a failing clean-up cannot keep a zero-count entry alive",
                  "the entry is deleted only AFTER a successful clean-up: when the clean-up raises, a zero-count entry stays registered - it is deleted again at tracker exit although no longer registered, and later registrations count from 0")
    rg = br.get("REGISTER")
    if rg is not None:
        inner = [n for n in rg.body if isinstance(n, ast.If)]
        ok = bool(inner) and unparse(inner[0].test) in ("name not in registry[rtype]", "name in registry[rtype]")
        neg = ok and unparse(inner[0].test).startswith("name not in")
        first, second = (inner[0].body, inner[0].orelse) if neg else (inner[0].orelse, inner[0].body) if ok else ([], [])
        def touch(stmts):
            return [unparse(s_) for s_ in stmts if "registry" in unparse(s_)]
        # the same counting in one statement: X[name] = X.get(name, 0) + 1, X being registry[rtype] or a local alias of it
        def _is_reg(e):
            if unparse(e) == "registry[rtype]":
                return True
            if isinstance(e, ast.Name):
                dd = [a for a in ast.walk(_main(ctx)) if isinstance(a, ast.Assign) and e.id in stores_to(a)]
                return len(dd) == 1 and unparse(dd[0].value) == "registry[rtype]"
            return False
        oneline = False
        for st_ in rg.body:
            if isinstance(st_, ast.Assign) and len(st_.targets) == 1 and isinstance(st_.targets[0], ast.Subscript) and _is_reg(st_.targets[0].value) and dotted(st_.targets[0].slice) == "name" \
                    and isinstance(st_.value, ast.BinOp) and isinstance(st_.value.op, ast.Add):
                parts = [st_.value.left, st_.value.right]
                gets = [x for x in parts if isinstance(x, ast.Call) and call_attr(x) == "get" and _is_reg(x.func.value) and len(x.args) == 2 and dotted(x.args[0]) == "name" and const_value(x.args[1]) == 0]
                ones = [x for x in parts if const_value(x) == 1 and not isinstance(const_value(x), bool)]
                oneline = len(gets) == 1 and len(ones) == 1
        ctx.check(oneline or (ok and touch(first) == ["registry[rtype][name] = 1"] and touch(second) == ["registry[rtype][name] += 1"]), rg,
                  "REGISTER: first registration sets the count to 1, later ones add 1", "REGISTER does not set 1 / increment by 1")
        ctx.check(not _cleanup_calls(rg.body), rg, "REGISTER never cleans")
    ur = br.get("UNREGISTER")
    if ur is not None:
        dl = [d for d in ur.body if isinstance(d, ast.Delete) and unparse(d.targets[0]) == "registry[rtype][name]"]
        ctx.check(bool(dl), dl[0] if dl else ur, "UNREGISTER forgets the entry")
        ctx.check(not _cleanup_calls(ur.body), ur, "UNREGISTER never cleans (the client deleted the resource itself)")
    reg = [a for a in nodes_of_type(f, ast.Assign) if "registry" in stores_to(a)]
    ctx.check(bool(reg) and unparse(reg[0].value) == "{rtype: {} for rtype in _CLEANUP_FUNCS.keys()}", reg[0] if reg else f, "one empty name->count table per resource type")


def only_registered(ctx):
    f, lp = _loop(ctx)
    g = cfg_of(f)
    cl = _cleanup_calls(lp)
    ctx.need(cl, "no clean-up call in the loop")
    for c in cl:
        subs = []
        for nd in [x for s in lp.body for x in walk_local(s)]:
            if isinstance(nd, ast.AugAssign) and unparse(nd.target) == "registry[rtype][name]":
                subs.append(nd)
            if isinstance(nd, ast.Subscript) and unparse(nd) == "registry[rtype][name]" and isinstance(nd.ctx, ast.Load) and isinstance(enclosing_stmt(nd), ast.If):
                subs.append(nd)
        dom = [s for s in subs if g.every_path_to(g.nodes_of(c), g.nodes_of(s))]
        ctx.check(bool(dom), c, "a look-up of registry[rtype][name] dominates the clean-up (an unregistered name raises KeyError before anything is deleted)",
                  "the clean-up is not dominated by a look-up of the registered name: a path that was never registered can be deleted")
        ty = [n for s in lp.body for n in walk_local(s) if isinstance(n, ast.If) and unparse(n.test) == "rtype not in _CLEANUP_FUNCS" and any(isinstance(x, ast.Raise) for x in n.body)]
        ctx.check(bool(ty) and g.every_path_to(g.nodes_of(c), g.nodes_of_all(ty)), ty[0] if ty else lp, "unknown resource types are rejected before any command branch")
    sp = [a for s in lp.body for a in walk_local(s) if isinstance(a, ast.Assign) and isinstance(a.targets[0], ast.Tuple) and [dotted(e) for e in a.targets[0].elts] == ["cmd", "name", "rtype"]]
    if not sp:
        # two-step form: the command is cut off the front, the resource type off the BACK
        rt_defs = [a for s in lp.body for a in walk_local(s) if isinstance(a, ast.Assign) and isinstance(a.targets[0], ast.Tuple) and "rtype" in [dotted(e) for e in a.targets[0].elts]]
        ctx.need(rt_defs, "the statement that splits a request into cmd, name, rtype was not found")
        v2 = rt_defs[0].value
        how = call_attr(v2) if isinstance(v2, ast.Call) else None
        good = how in ("rpartition",) or (how == "rsplit" and len(v2.args) == 2 and const_value(v2.args[1]) == 1)
        ctx.check(good, rt_defs[0], "the resource type is what follows the LAST colon (the name may contain colons)",
                  "the resource type is cut with `%s`: a tracked path that contains ':' is split at its first colon, the request is refused and the resource is never cleaned up" % unparse(v2, 60))
        return
    v_ = sp[0].value
    if isinstance(v_, ast.Tuple):
        ok = [unparse(e) for e in v_.elts] == ["splitted[0]", "':'.join(splitted[1:-1])", "splitted[-1]"]
        ctx.check(ok, sp[0], "request = cmd : name (may contain ':') : rtype", "request parsing changed: %s" % unparse(v_))
    elif isinstance(v_, ast.Call) and call_attr(v_) in ("split", "rsplit") and v_.args and const_value(v_.args[0]) == ":":
        # three fields cut by ONE split call: the name is whatever lies between the FIRST and the LAST colon, which a single
        # split / rsplit with a limit of 2 (or none) cannot give when the name itself contains a colon
        ctx.bad(sp[0], "a request is cut into (cmd, name, rtype) by `%s`: a tracked path that contains ':' (a Windows drive, a time-stamped folder) is split in the wrong place, the request is "
                       "refused as unknown and the resource is never cleaned up" % unparse(v_, 80), key=RT + "::main::request parsing")
    else:
        raise Undecidable("request parsing has a shape the rule does not know: %s" % unparse(v_, 80))


def survives(ctx):
    f, lp = _loop(ctx)
    tries = [s for s in lp.body if isinstance(s, ast.Try)]
    ctx.need(tries, "command loop body has no try")
    tr = tries[0]
    hs = [h for h in tr.handlers if h.type is None or unparse(h.type) == "BaseException"]
    if not hs:
        ctx.bad(tr, "the per-request handler does not catch BaseException: a malformed request stops the tracker (nothing is cleaned up afterwards)")
        return
    h = hs[0]
    bad = [n for s in h.body for n in walk_local(s) if isinstance(n, (ast.Raise, ast.Break, ast.Return)) and not any(isinstance(a, ast.Try) and a is not tr and in_block(n, a.body) and False for a in ancestors(n))]
    # a raise inside a nested try that itself catches BaseException is fine
    real = []
    for n in bad:
        covered = False
        for a in ancestors(n):
            if a is h:
                break
            if isinstance(a, ast.Try) and in_block(n, a.body) and any(x.type is None or unparse(x.type) == "BaseException" for x in a.handlers):
                covered = True
        if not covered:
            real.append(n)
    ctx.check(not real, h, "the handler neither re-raises nor leaves the loop", "the per-request handler contains %s: one bad request ends the tracker" % [type(n).__name__ for n in real])
    # everything but readline / the EOF test is inside the try
    outside = [s for s in lp.body if s is not tr]
    # a statement outside the try can stop the tracker on a malformed request only if it depends on the request:
    # names derived from the line just read (fixpoint over the loop body), the registry, or the clean-up table
    tainted = set()
    for a in lp.body:
        if isinstance(a, ast.Assign) and any(call_attr(c) == "readline" for c in calls_in(a)):
            tainted |= set(stores_to(a))
    changed = True
    while changed:
        changed = False
        for a in ast.walk(lp):
            if isinstance(a, ast.Assign) and names_in(a.value) & tainted and not set(stores_to(a)) <= tainted:
                tainted |= set(stores_to(a))
                changed = True
    def harmless(s_):
        return not (names_in(s_) & tainted) and "registry" not in unparse(s_, 400) and "_CLEANUP_FUNCS" not in unparse(s_, 400)
    ok = all((isinstance(s, ast.Assign) and any(call_attr(c) == "readline" for c in calls_in(s))) or (isinstance(s, ast.If) and any(isinstance(b, ast.Break) for b in s.body) and not _cleanup_calls(s.body)) or harmless(s) for s in outside)
    ctx.check(ok, lp, "only reading the line and the EOF test are outside the try", "request processing outside the protecting try: %s" % [unparse(s, 50) for s in outside])
    cl = _cleanup_calls(lp)
    for c in cl:
        inner = None
        for a in ancestors(c):
            if a is tr:
                break
            if isinstance(a, ast.Try) and in_block(c, a.body):
                inner = a
        ctx.check(inner is not None and any(handler_catches(x, ["Exception"]) and not any(isinstance(n, ast.Raise) for s in x.body for n in walk_local(s)) for x in inner.handlers), c,
                  "a failing clean-up function is reported (warning) and does not disturb the loop")


def eof_only(ctx):
    f, lp = _loop(ctx)
    ctx.check(isinstance(lp.test, ast.Constant) and lp.test.value is True, lp, "the loop condition is constant: only explicit exits leave it")
    exits = [n for s in lp.body for n in walk_local(s) if isinstance(n, (ast.Break, ast.Return))]
    # raises outside try bodies that catch them
    g = cfg_of(f)
    for e in exits:
        conds = [(unparse(t), pol) for (i_, t, pol) in g.conditions_at(g.nodes_of(e)) if in_block(i_, lp.body)]
        ok = isinstance(e, ast.Break) and conds and conds[-1] in (("line == b''", True), ("not line", True), ("len(line) == 0", True)) and len(conds) == 1
        ctx.check(ok, e, "the loop is left by break on EOF of the command pipe only", "the command loop can be left by %s under %s" % (type(e).__name__.lower(), conds))
    ctx.check(len(exits) == 1, lp, "exactly one exit")
    conts = [n for s in lp.body for n in walk_local(s) if isinstance(n, ast.Continue)]
    for c in conts:
        conds = [(unparse(t), pol) for (i_, t, pol) in g.conditions_at(g.nodes_of(c)) if in_block(i_, lp.body)]
        conds = [x for x in conds if x[0] not in ("line == b''", "not line", "len(line) == 0")]
        ctx.check(conds == [("cmd == 'PROBE'", True)], c, "PROBE requests are skipped", "`continue` under %s skips requests" % conds)
    rl = [a for a in lp.body if isinstance(a, ast.Assign) and any(call_attr(c) == "readline" for c in calls_in(a))]
    trs = [s_ for s_ in lp.body if isinstance(s_, ast.Try)]
    ctx.check(len(rl) == 1 and trs and lp.body.index(rl[0]) < lp.body.index(trs[0]), rl[0] if rl else lp, "one request line is read per iteration, before it is processed")


def final(ctx):
    f = _main(ctx)
    tr = [t for t in f.body if isinstance(t, ast.Try) and t.finalbody]
    ctx.need(tr, "main has no try/finally around the command loop")
    fin = tr[0].finalbody
    helper = [s for s in fin if isinstance(s, ast.FunctionDef)]
    loops = [s for s in fin if isinstance(s, ast.For)]
    ctx.need(loops, "final clean-up loop not found")
    lp = loops[0]
    ctx.check(unparse(lp.iter) == "registry.items()", lp, "every resource type's remaining entries are visited at shutdown")
    skip = [n for n in lp.body if isinstance(n, ast.If) and unparse(n.test) in ("rtype == 'folder'",)]
    ok = bool(skip) and any(isinstance(s, ast.Continue) for s in skip[0].body)
    ctx.check(ok, skip[0] if skip else lp, "folders are skipped in the first pass", "folders are not deferred: files inside tracked folders may be unlinked after their folder")
    after = [s for s in fin[fin.index(lp) + 1:] if any(const_value(a) == "folder" for c in calls_in(s) for a in c.args)]
    ctx.check(bool(after), after[0] if after else lp, "and cleaned last", "remaining folders are never cleaned at shutdown")
    g = cfg_of(f)
    for st in after:
        for c in [c for c in calls_in(st) if any(const_value(a) == "folder" for a in c.args)]:
            fc = cond_facts([c_ for c_ in g.conditions_at(g.nodes_of(c)) if isinstance(c_[0], ast.If) and any(c_[0] is x for x in ast.walk(ast.Module(body=fin, type_ignores=[])))])
            # a guard "this type has remaining entries" (truthiness of the registry of that type) is harmless
            fc = [x for x in fc if not (x[1] and x[0] in ("rtype_registry", "registry['folder']", "registry.get('folder')"))]
            ctx.check(fc in ([], [("'folder' in registry", True)]), c, "unconditionally (or when the folder type is known / has entries)", "the folder pass runs under %s: remaining folders are never cleaned" % fc)
    for c in [c for s_ in lp.body for c in calls_in(s_) if helper and call_name(c) == helper[0].name]:
        fc = cond_facts([c_ for c_ in g.conditions_at(g.nodes_of(c)) if in_block(c_[0], lp.body)])
        ctx.check(fc == [("rtype == 'folder'", False)], c, "every other type is cleaned in the first pass", "the first pass cleans a type under %s" % fc)
    # the tracker outlives ^C / kill aimed at its clients' process group
    ign = {unparse(c.args[0]) for c in calls_in(f) if call_name(c) == "signal.signal" and len(c.args) == 2 and unparse(c.args[1]) == "signal.SIG_IGN"}
    first_loop = [n for n in ast.walk(f) if isinstance(n, ast.While)]
    ctx.check({"signal.SIGINT", "signal.SIGTERM"} <= ign and all(g.every_path_to(g.nodes_of(first_loop[0]), g.nodes_of(c)) for c in calls_in(f) if call_name(c) == "signal.signal") if first_loop else False, f,
              "the tracker ignores SIGINT and SIGTERM before it starts serving (it must outlive its clients to clean up after them)",
              "the tracker no longer ignores SIGINT/SIGTERM: the signal that kills the clients kills it too, and nothing is cleaned up")
    if helper:
        h = helper[0]
        inner = [l for l in nodes_of_type(h, ast.For)]
        cl = _cleanup_calls(h)
        ctx.check(bool(inner) and len(cl) == 1 and unparse(cl[0]) == "_CLEANUP_FUNCS[rtype](name)" and in_block(cl[0], inner[0].body), cl[0] if cl else h, "each remaining name is cleaned with its type's function")
        ok2 = cl and inner and any(isinstance(a, ast.Try) and in_block(a, inner[0].body) and in_block(cl[0], a.body) and any(handler_catches(x, ["Exception"]) for x in a.handlers) for a in ancestors(cl[0]))
        ctx.check(bool(ok2), cl[0] if cl else h, "one failing clean-up does not prevent the others")
        calls = [c for s in fin for c in calls_in(s) if call_name(c) == h.name]
        ctx.check(len(calls) >= 2, calls[0] if calls else h, "the helper is used for both passes")
    w = [x for x in nodes_of_type(f, ast.With) if any(isinstance(i.context_expr, ast.Call) and call_name(i.context_expr) == "open" for i in x.items)]
    ctx.check(bool(w) and in_block(w[0], tr[0].body), w[0] if w else f, "the command loop runs inside the try whose finally cleans up")


def vocab(ctx):
    f, lp = _loop(ctx)
    br = _cmd_branches(lp)
    handled = set(br)
    # senders: joblib's subclass + CPython's ResourceTracker (reference fact from the running interpreter)
    sent = set()
    cls = ctx.repo.cls(RT, "ResourceTracker")
    for c in ast.walk(cls):
        if isinstance(c, ast.Call) and call_name(c) == "self._send" and c.args and isinstance(c.args[0], ast.Constant):
            sent.add(c.args[0].value)
    try:
        import multiprocessing.resource_tracker as mrt
        src = inspect.getsource(mrt.ResourceTracker)
        for c in ast.walk(ast.parse("class _X:\n" + "\n".join("    " + l for l in src.splitlines()[1:]) if not src.startswith("class") else src)):
            if isinstance(c, ast.Call) and call_name(c) == "self._send" and c.args and isinstance(c.args[0], ast.Constant):
                sent.add(c.args[0].value)
            if isinstance(c, ast.Constant) and isinstance(c.value, bytes) and c.value.startswith(b"PROBE"):
                sent.add("PROBE")
    except Exception as e:  # pragma: no cover
        ctx.note("stdlib ResourceTracker source not available: %s" % e)
    ctx.check("MAYBE_UNLINK" in sent, cls, "joblib's tracker client sends MAYBE_UNLINK")
    for cmd in sorted(sent):
        ctx.check(cmd in handled, br.get(cmd) or lp, "command %s sent by a client is handled by main" % cmd, "command %s is sent by a client but main has no branch for it" % cmd, key="%s::main::command %s" % (RT, cmd))
    last = br.get("MAYBE_UNLINK")
    chain_else = None
    for n in br.values():
        if n.orelse and not (len(n.orelse) == 1 and isinstance(n.orelse[0], ast.If)):
            chain_else = n.orelse
    ctx.check(chain_else is not None and any(isinstance(s, ast.Raise) for s in chain_else), lp, "any other command is reported (raise inside the protected block)")
    # resource types
    m = ctx.repo.mod(RT)
    d = [a for a in m.tree.body if isinstance(a, ast.Assign) and "_CLEANUP_FUNCS" in stores_to(a)]
    keys = {const_value(k) for k in d[0].value.keys} if d and isinstance(d[0].value, ast.Dict) else set()
    for n in ast.walk(m.tree):
        if isinstance(n, ast.Assign) and isinstance(n.targets[0], ast.Subscript) and dotted(n.targets[0].value) == "_CLEANUP_FUNCS":
            keys.add(const_value(n.targets[0].slice))
    ctx.check({"file", "folder"} <= keys, d[0] if d else m.tree.body[0], "clean-up functions exist for %s" % sorted(keys))
    n_sites = 0
    for rel, mod in ctx.repo.modules.items():
        if "externals/cloudpickle" in rel:
            continue
        for c in ast.walk(mod.tree):
            if isinstance(c, ast.Call) and call_attr(c) in ("register", "unregister", "maybe_unlink") and dotted(c.func) and ("resource_tracker" in dotted(c.func)) and len(c.args) == 2:
                n_sites += 1
                rt = const_value(c.args[1])
                ctx.check(rt in keys, c, "%s(..., %r): resource type known to the tracker" % (call_attr(c), rt), "resource type %r is not in _CLEANUP_FUNCS" % rt)
    ctx.floor(n_sites, 6, "client call sites of register/unregister/maybe_unlink")
    mm = ctx.repo.mod(MR)
    inst = [a for a in mm.tree.body if isinstance(a, ast.Assign) and unparse(a.targets[0]) == "resource_tracker._CLEANUP_FUNCS['file']"]
    ctx.check(bool(inst) and dotted(inst[0].value) == "unlink_file", inst[0] if inst else mm.tree.body[0], "joblib installs unlink_file for 'file'")
    uf = ctx.repo.func(MR, "unlink_file")
    hs = [h for t in nodes_of_type(uf, ast.Try) for h in t.handlers]
    ctx.check(any(unparse(h.type) == "FileNotFoundError" and not any(isinstance(n, ast.Raise) for s in h.body for n in walk_local(s)) for h in hs), uf, "unlink_file tolerates an already deleted file")
    lu = ctx.repo.func(MR, "_log_and_unlink")
    c = [c for c in calls_in(lu) if call_attr(c) == "maybe_unlink"]
    ctx.check(bool(c) and dotted(c[0].args[0]) == "filename" and const_value(c[0].args[1]) == "file", c[0] if c else lu, "the memmap finalizer decrements the file's count")
    am = ctx.repo.func(MR, "add_maybe_unlink_finalizer")
    fz = [x for x in calls_in(am) if call_name(x) == "weakref.finalize"]
    arg = am.args.args[0].arg
    ctx.check(len(fz) == 1 and len(fz[0].args) == 3 and dotted(fz[0].args[0]) == arg and dotted(fz[0].args[1]) == "_log_and_unlink" and dotted(fz[0].args[2]) == arg + ".filename", fz[0] if fz else am,
              "add_maybe_unlink_finalizer ties _log_and_unlink(<the memmap's file>) to the death of the memmap", "add_maybe_unlink_finalizer does not register _log_and_unlink on the memmap: the worker-side reference is never given back and the file outlives its last user")
    # unlink_file: deletes, retries a bounded number of times on PermissionError, re-raises at the last attempt
    g = cfg_of(uf)
    ul = [x for x in calls_in(uf) if call_name(x) in ("os.unlink", "os.remove")]
    ctx.check(bool(ul) and dotted(ul[0].args[0]) == uf.args.args[0].arg, ul[0] if ul else uf, "unlink_file removes the file it is given", "unlink_file no longer removes the file")
    lps = [l for l in nodes_of_type(uf, (ast.For, ast.While))]
    if lps:
        lp = lps[0]
        # bounded: a range loop, or a counting `while v <= N` whose counter starts at a constant and is incremented by a
        # positive constant at the top level of the body, with no `continue` that could skip the increment
        var = None
        bounded = isinstance(lp, ast.For) and isinstance(lp.iter, ast.Call) and call_name(lp.iter) == "range"
        if bounded and isinstance(lp.target, ast.Name):
            var = lp.target.id
        if isinstance(lp, ast.While) and isinstance(lp.test, ast.Compare) and len(lp.test.ops) == 1 and isinstance(lp.test.ops[0], (ast.Lt, ast.LtE)) and isinstance(lp.test.left, ast.Name):
            var = lp.test.left.id
            inc = [a for a in lp.body if isinstance(a, ast.AugAssign) and isinstance(a.op, ast.Add) and dotted(a.target) == var and isinstance(const_value(a.value), int) and const_value(a.value) > 0]
            init = [a for a in nodes_of_type(uf, ast.Assign) if var in stores_to(a) and isinstance(const_value(a.value), int)]
            conts = [x for s_ in lp.body for x in walk_local(s_) if isinstance(x, ast.Continue)]
            others = [a for a in nodes_of_type(uf, (ast.Assign, ast.AugAssign)) if var in stores_to(a) and a not in inc and a not in init]
            bounded = bool(inc) and bool(init) and not conts and not others and var not in names_in(lp.test.comparators[0])
        ctx.check(bounded, lp, "the retry loop is bounded (range loop / counting while)", "the retry loop of unlink_file is not bounded by a range")
        ph = [h for t in nodes_of_type(uf, ast.Try) for h in t.handlers if h.type is not None and "PermissionError" in unparse(h.type)]
        for h in ph:
            rs = [r for st_ in h.body for r in walk_local(st_) if isinstance(r, ast.Raise)]
            ctx.check(bool(rs), h, "a PermissionError that persists is re-raised (reported by the tracker, not swallowed)", "unlink_file swallows a persistent PermissionError: the file silently stays")
            for r in rs:
                facts = cond_facts([c_ for c_ in g.conditions_at(g.nodes_of(r)) if in_block(c_[0], h.body)])
                v_ = var or "retry_no"
                ctx.check(facts in ([("%s == NUM_RETRIES" % v_, True)], [("NUM_RETRIES == %s" % v_, True)], [("NUM_RETRIES <= %s" % v_, True)]), r, "re-raised at the last attempt only", "the PermissionError is re-raised under %s" % facts)


def client_pairing(ctx):
    cls_q = "TemporaryResourcesManager"
    rf = ctx.repo.func(MR, cls_q + ".register_folder_finalizer")
    reg = [c for c in calls_in(rf) if call_name(c) == "resource_tracker.register"]
    ctx.check(len(reg) == 1 and dotted(reg[0].args[0]) == "pool_subfolder" and const_value(reg[0].args[1]) == "folder", reg[0] if reg else rf, "a temporary folder is registered once when its finalizer is set up")
    n = 0
    for q in (cls_q + ".register_folder_finalizer._cleanup", cls_q + "._clean_temporary_resources"):
        fn = ctx.repo.func(MR, q)
        g = cfg_of(fn)
        un = [c for c in calls_in(fn) if call_name(c) == "resource_tracker.unregister" and const_value(c.args[1]) == "folder"]
        de = [c for c in calls_in(fn) if call_name(c) == "delete_folder"]
        if not (un and de):
            ctx.bad(fn, "%s no longer %s" % (q, "unregisters the folder after deleting it (the tracker deletes it again / warns at shutdown)" if de else "deletes the folder"), key="%s::%s::delete+unregister" % (MR, q))
            continue
        for u in un:
            n += 1
            tr = [a for a in ancestors(u) if isinstance(a, ast.Try) and in_block(u, a.body)]
            ok = bool(tr) and any(in_block(d, tr[0].body) for d in de) and g.every_path_to(g.nodes_of(u), g.nodes_of_all(de)) and any(handler_catches(h, ["OSError"]) for h in tr[0].handlers)
            ctx.check(ok, u, "%s: the folder is unregistered only after delete_folder succeeded (same try, after it)" % q.split(".")[-1],
                      "%s unregisters the folder although its deletion may have failed (or before it): a leftover folder is no longer tracked" % q.split(".")[-1])
            ctx.check(dotted(u.args[0]) == dotted(de[0].args[0]), u, "same folder")
    ctx.floor(n, 2, "folder unregister sites")
    grf = cfg_of(rf)
    at = [c for c in calls_in(rf) if call_name(c) == "atexit.register"]
    ct = ctx.repo.func(MR, cls_q + "._clean_temporary_resources")
    g = cfg_of(ct)
    forgotten = set()
    for c in calls_in(ct):
        if call_attr(c) == "pop" and dotted(c.func.value) and dotted(c.func.value).startswith("self.") and c.args and dotted(c.args[0]) == "context_id":
            forgotten.add(dotted(c.func.value))
    for d_ in [x for x in ast.walk(ct) if isinstance(x, ast.Delete)]:
        for t_ in d_.targets:
            if isinstance(t_, ast.Subscript) and dotted(t_.slice) == "context_id":
                forgotten.add(dotted(t_.value))
    # a registration may be skipped only on the evidence of per-context state that a successful clean-up forgets
    early = [r for r in nodes_of_type(rf, ast.Return) if not (grf.every_path_to(grf.nodes_of(r), grf.nodes_of_all(reg)) and grf.every_path_to(grf.nodes_of(r), grf.nodes_of_all(at)))]
    ctx.check(bool(reg) and bool(at), reg[0] if reg else rf, "a registration registers the folder with the tracker and an atexit finalizer")
    for r in early:
        states = set()
        for (_, t, pol) in grf.conditions_at(grf.nodes_of(r)):
            states |= {a_ for a_ in attrs_in(t) if a_.startswith("self._")}
        ok = bool(states) and states <= forgotten
        ctx.check(ok, r, "registration is skipped only for a context whose entry in %s is still live (a successful clean-up forgets it)" % sorted(states),
                  "register_folder_finalizer returns early on %s, but a successful clean-up does not remove the context from %s: a context registered again after a clean-up gets "
                  "neither tracker registration nor atexit hook, and its folder leaks when the client dies" % (sorted(states) or "no per-context state", sorted(states - forgotten) or "it"))
    rc = ctx.repo.func(MR, cls_q + ".register_new_context")
    grc = cfg_of(rc)
    for r in [r for r in nodes_of_type(rc, ast.Return)]:
        states = set()
        for (_, t, pol) in grc.conditions_at(grc.nodes_of(r)):
            states |= {a_ for a_ in attrs_in(t) if a_.startswith("self._")}
        ctx.check(bool(states) and states <= forgotten, r, "register_new_context skips only contexts still present in %s (forgotten by a successful clean-up)" % sorted(states),
                  "register_new_context returns early on %s, which a successful clean-up does not forget" % sorted(states))
    au = [c for c in calls_in(ct) if call_name(c) == "atexit.unregister"]
    ctx.check(bool(au), au[0] if au else ct, "a successful clean-up removes the context's atexit hook")
    loops = [l for l in nodes_of_type(ct, ast.For) if isinstance(l.iter, ast.Call) and call_name(l.iter) == "os.listdir"]
    ctx.need(loops, "per-file loop not found in _clean_temporary_resources")
    lp = loops[0]
    per = [c for c in calls_in(lp) if call_attr(c) in ("unregister", "maybe_unlink")]
    ctx.check(len(per) == 2, lp, "each listed file gets exactly one request per branch")
    for c in per:
        conds = [(unparse(t), pol) for (i_, t, pol) in g.conditions_at(g.nodes_of(c)) if in_block(i_, lp.body)]
        want = ("force", True) if call_attr(c) == "unregister" else ("force", False)
        ctx.check(conds == [want] and const_value(c.args[1]) == "file" and unparse(c.args[0]) == "os.path.join(temp_folder, filename)", c,
                  "%s for the file when force is %s" % (call_attr(c), want[1]), "per-file request %s under %s" % (call_attr(c), conds))
    fw = ctx.repo.func(MR, "ArrayMemmapForwardReducer.__call__")
    gf = cfg_of(fw)
    regs = [c for c in calls_in(fw) if call_name(c) == "resource_tracker.register"]
    ctx.check(len(regs) == 2 and all(dotted(c.args[0]) == "filename" and const_value(c.args[1]) == "file" for c in regs), regs[0] if regs else fw, "a memmapped file is registered at two sites")
    cs = sorted([tuple((unparse(t), pol) for (i_, t, pol) in gf.conditions_at(gf.nodes_of(c)) if unparse(t) in ("self._unlink_on_gc_collect", "is_new_memmap")) for c in regs])
    ctx.check(cs == sorted([(("self._unlink_on_gc_collect", True),), (("is_new_memmap", True),)]), regs[0] if regs else fw,
              "once per new memmap, plus once per pickling when unlink_on_gc_collect (matched by the worker-side finalizer)", "file registrations are conditioned on %s" % cs)
    lt = ctx.repo.func(NP, "load_temporary_memmap")
    gl = cfg_of(lt)
    fin = [c for c in calls_in(lt) if call_name(c) == "add_maybe_unlink_finalizer"]
    ctx.check(len(fin) == 1 and [(unparse(t), pol) for (_, t, pol) in gl.conditions_at(gl.nodes_of(fin[0]))] == [("unlink_on_gc_collect", True)], fin[0] if fin else lt,
              "the loading side adds a maybe_unlink finalizer under the same flag")
    inm = [a for a in nodes_of_type(fw, ast.Assign) if "is_new_memmap" in stores_to(a)]
    ctx.check(bool(inm) and unparse(inm[0].value) == "filename not in self._temporary_memmaped_filenames", inm[0] if inm else fw, "new = not seen before by this reducer")
    ad = [c for c in calls_in(fw) if call_name(c) == "self._temporary_memmaped_filenames.add"]
    ctx.check(bool(ad) and inm and gf.every_path_to(gf.nodes_of(ad[0]), gf.nodes_of(inm[0])), ad[0] if ad else fw, "and is remembered afterwards")


def contexts(ctx):
    """TemporaryResourcesManager: every context that gets a folder name gets it registered (tracker + atexit) and
    remembered; a clean-up without context id cleans every remembered context; a folder is listed only when it exists."""
    cls_q = "TemporaryResourcesManager"
    sc = ctx.repo.func(MR, cls_q + ".set_current_context")
    c = [x for x in calls_in(sc) if call_name(x) == "self.register_new_context"]
    ctx.check(bool(c) and dotted(c[0].args[0]) == sc.args.args[1].arg, c[0] if c else sc, "activating a context registers it (folder name, tracker, atexit) if it is new", "set_current_context no longer registers the context it activates")
    init = ctx.repo.func(MR, cls_q + ".__init__")
    c = [x for x in calls_in(init) if call_name(x) == "self.set_current_context"]
    ctx.check(bool(c), c[0] if c else init, "a manager starts with an active, registered context")
    rc = ctx.repo.func(MR, cls_q + ".register_new_context")
    g = cfg_of(rc)
    arg = rc.args.args[1].arg
    fin = [x for x in calls_in(rc) if call_name(x) == "self.register_folder_finalizer"]
    rec = [a for a in ast.walk(rc) if isinstance(a, ast.Assign) and isinstance(a.targets[0], ast.Subscript) and dotted(a.targets[0].value) == "self._cached_temp_folders" and dotted(a.targets[0].slice) == arg]
    ok = bool(fin) and bool(rec) and dotted(fin[0].args[1]) == arg and dotted(fin[0].args[0]) == dotted(rec[0].value)
    ctx.check(ok, fin[0] if fin else rc, "a new context's folder is registered for clean-up and remembered under the context id (same path)", "register_new_context does not both register the folder finalizer and remember the folder of the context")
    # the folder is specific to THE CONTEXT BEING REGISTERED: its id (the parameter) is part of the folder name
    if rec:
        def flows(e, depth=0):
            if arg in names_in(e):
                return True
            if depth < 4:
                for nm in names_in(e):
                    for a in nodes_of_type(rc, ast.Assign):
                        if nm in stores_to(a) and flows(a.value, depth + 1):
                            return True
            return False
        ctx.check(flows(rec[0].value), rec[0], "the folder name contains the id of the context being registered",
                  "the folder remembered for context `%s` is `%s`, which does not depend on that id: two contexts registered while another one is current share one folder, and the clean-up of one "
                  "releases the files of the other" % (arg, unparse(rec[0].value, 60)))
    for r in nodes_of_type(rc, ast.Return):
        fc = cond_facts(g.conditions_at(g.nodes_of(r)))
        ctx.check(fc == [("%s in self._cached_temp_folders" % arg, True)], r, "registration is skipped exactly for a context that already has a folder", "register_new_context returns early under %s" % fc)
    for x in fin + rec:
        fc = cond_facts(g.conditions_at(g.nodes_of(x)))
        ctx.check(fc == [("%s in self._cached_temp_folders" % arg, False)], x, "and performed for every other context", "registration of a new context happens under %s" % fc)
    ct = ctx.repo.func(MR, cls_q + "._clean_temporary_resources")
    gc_ = cfg_of(ct)
    carg = ct.args.args[1].arg
    rec_ = [x for x in calls_in(ct) if call_name(x) == "self._clean_temporary_resources"]
    loops = [l for l in nodes_of_type(ct, ast.For) if "self._cached_temp_folders" in unparse(l.iter)]
    ok = bool(rec_) and bool(loops) and any(in_block(rec_[0], l.body) for l in loops) and unparse(loops[0].iter) in ("list(self._cached_temp_folders)", "list(self._cached_temp_folders.keys())", "tuple(self._cached_temp_folders)")
    ctx.check(ok, rec_[0] if rec_ else ct, "without a context id every remembered context is cleaned (iterating over a copy)", "a clean-up without context id no longer visits every remembered context")
    if rec_:
        fc = cond_facts([c_ for c_ in gc_.conditions_at(gc_.nodes_of(rec_[0]))])
        ctx.check(("%s is None" % carg, True) in fc, rec_[0], "exactly when no context id was given", "the all-contexts branch is taken under %s" % fc)
        kws = {k.arg: dotted(k.value) for k in rec_[0].keywords}
        ctx.check(kws.get("force") == "force" and kws.get("allow_non_empty") == "allow_non_empty", rec_[0], "force / allow_non_empty are passed down unchanged")
    ld = [x for x in calls_in(ct) if call_name(x) == "os.listdir"]
    for x in ld:
        fc = cond_facts(gc_.conditions_at(gc_.nodes_of(x)))
        ctx.check(("os.path.exists(temp_folder)", True) in fc and ("temp_folder", True) in fc, x, "a context's folder is listed only if it was created", "the folder is listed under %s" % fc)
    an = [a for a in nodes_of_type(ct, ast.AugAssign) if dotted(a.target) == "allow_non_empty"]
    de = [x for x in calls_in(ct) if call_name(x) == "delete_folder"]
    ok = bool(an) and isinstance(an[0].op, ast.BitOr) and dotted(an[0].value) == "force" and bool(de) and gc_.every_path_to(gc_.nodes_of(de[0]), gc_.nodes_of(an[0]))
    ctx.check(ok, an[0] if an else ct, "a forced clean-up deletes the folder even if files remain (workers are gone, counts may be off)", "force no longer implies allow_non_empty before delete_folder: after a worker crash the folder is left to the tracker's final clean-up")
    au = [x for x in calls_in(ct) if call_name(x) == "atexit.unregister"]
    for x in au:
        fc = cond_facts([c_ for c_ in gc_.conditions_at(gc_.nodes_of(x)) if "finalizer" in unparse(c_[1])])
        ctx.check(fc == [("finalizer is not None", True)] or fc == [("finalizer is None", False)], x, "the atexit hook is removed when there is one", "atexit.unregister is reached under %s" % fc)
    # the executor side (joblib/executor.py): the Parallel call's context is registered with whichever manager the
    # executor really uses (a reused executor keeps its own), and terminating the executor cleans its temporaries
    EX = "joblib/executor.py"
    ge = ctx.repo.func(EX, "MemmappingExecutor.get_memmapping_executor")
    gge = cfg_of(ge)
    rn = [x for x in calls_in(ge) if call_attr(x) == "register_new_context"]
    ctx.check(len(rn) == 1 and unparse(rn[0].func.value) == "_executor._temp_folder_manager" and dotted(rn[0].args[0]) == "context_id", rn[0] if rn else ge,
              "the call's context is registered with the manager of the executor actually returned (new or reused)", "get_memmapping_executor no longer registers the call's context with the executor's own manager")
    for x in rn:
        fc = [f_ for f_ in cond_facts(gge.conditions_at(gge.nodes_of(x))) if "context_id" in f_[0]]
        ctx.check(fc in ([], [("context_id is not None", True)], [("context_id is None", False)]), x, "whenever a context id is given", "the context is registered under %s" % fc)
    sm = [a for a in ast.walk(ge) if isinstance(a, ast.Assign) and unparse(a.targets[0]) == "_executor._temp_folder_manager"]
    for a in sm:
        fc = [f_ for f_ in cond_facts(gge.conditions_at(gge.nodes_of(a))) if "reused" in f_[0]]
        ctx.check(fc in ([("executor_is_reused", False)], [("not executor_is_reused", True)]), a, "only a NEW executor gets the fresh manager (a reused one keeps the manager its reducers point to)",
                  "the fresh manager is installed under %s: the reducers of a reused executor keep resolving folders through the old manager, whose contexts are no longer the registered ones" % fc)
    te = ctx.repo.func(EX, "MemmappingExecutor.terminate")
    gte = cfg_of(te)
    cln = [x for x in calls_in(te) if call_attr(x) == "_clean_temporary_resources"]
    shd = [x for x in calls_in(te) if call_name(x) == "self.shutdown"]
    ok_ = bool(cln) and bool(shd) and gte.every_path_to(gte.nodes_of(cln[0]), gte.nodes_of_all(shd)) and gte.every_path_from([gte.entry], gte.nodes_of_all(cln), None, skip_exc=True) \
        and dotted(kwarg(cln[0], "force")) == "kill_workers" and is_const(kwarg(cln[0], "allow_non_empty"), True)
    ctx.check(bool(ok_), cln[0] if cln else te, "terminate() shuts the workers down, then cleans the temporaries (forcibly iff the workers were killed)",
              "MemmappingExecutor.terminate does not clean the temporary resources after the shutdown with force=kill_workers")
    # disk.delete_folder: a folder that still holds files is removed only when the caller allows it (files of a
    # context whose arrays are still referenced stay until their own count drops)
    from .. import table
    df = ctx.repo.func("joblib/disk.py", "delete_folder")
    gd = cfg_of(df)
    rmt = [x for x in calls_in(df) if call_name(x) == "shutil.rmtree" and any(isinstance(a_, (ast.While, ast.For)) for a_ in ancestors(x))]
    for x in rmt:
        tests = [c_ for c_ in gd.conditions_at(gd.nodes_of(x)) if isinstance(c_[0], ast.If) and ("files" in names_in(c_[1]) or "allow_non_empty" in names_in(c_[1]))]
        wrong = []
        try:
            for n_files in (0, 3):
                for allow in (True, False):
                    env = {"len(files)": n_files, "allow_non_empty": allow, "files": ["f"] * n_files}
                    got = all(bool(table.ev(t_, env, None)) == pol for (_, t_, pol) in tests) if tests else True
                    want = n_files == 0 or allow
                    if got != want:
                        wrong.append((n_files, allow, got))
        except table.Unknown as u_:
            raise Undecidable("delete_folder's emptiness guard reads `%s`" % u_)
        ctx.check(not wrong, x, "the tree is removed exactly when the folder is empty or the caller allows non-empty folders", "delete_folder removes the tree for (files, allow_non_empty, removed) = %s" % wrong)
    ls = [a_ for a_ in nodes_of_type(df, ast.Assign) if "files" in stores_to(a_)]
    ctx.check(bool(ls) and unparse(ls[0].value) == "os.listdir(folder_path)", ls[0] if ls else df, "emptiness is judged on a fresh listing of the folder")
    # the reducer creates the folder lazily; a folder created meanwhile by a sibling is fine
    fw = ctx.repo.func(MR, "ArrayMemmapForwardReducer.__call__")
    gf = cfg_of(fw)
    mk = [x for x in calls_in(fw) if call_name(x) == "os.makedirs"]
    dmp = [x for x in calls_in(fw) if call_name(x) == "dump"]
    ctx.check(bool(mk) and dotted(mk[0].args[0]) == "self._temp_folder" and bool(dmp) and all(gf.every_path_to(gf.nodes_of(d_), gf.nodes_of_all(mk), skip_exc=True) for d_ in dmp), mk[0] if mk else fw,
              "the temporary folder is created before an array is dumped into it", "the reducer dumps arrays without having created its temporary folder")
    for x in mk:
        tr = [a for a in ancestors(x) if isinstance(a, ast.Try) and in_block(x, a.body)]
        hs = [h for h in (tr[0].handlers if tr else []) if handler_catches(h, ["OSError"])]
        ok = False
        for h in hs:
            rs = [r for st_ in h.body for r in walk_local(st_) if isinstance(r, ast.Raise)]
            ok = bool(rs) and all(cond_facts([c_ for c_ in gf.conditions_at(gf.nodes_of(r)) if in_block(c_[0], h.body)]) in ([("e.errno != errno.EEXIST", True)], [("e.errno == errno.EEXIST", False)]) for r in rs)
        ctx.check(ok, x, "creating the temporary folder tolerates EEXIST and nothing else", "the folder creation of the reducer does not re-raise exactly the errors other than EEXIST (a second dispatch fails, or real errors are hidden)")


def absolute_names(ctx):
    """The tracker is another process: it keeps the working directory it was started in. Every name sent to it must
    therefore be absolute - the temporary folder (and with it every file below it) is built from `temp_folder`, which may
    come from the user (argument, JOBLIB_TEMP_FOLDER) as a relative path. In `_get_temp_dir` the last definition of the
    base folder on EVERY path to the join that builds the pool folder is an `os.path.abspath(...)` of it."""
    f = ctx.repo.func(MR, "_get_temp_dir")
    g = cfg_of(f)
    joins = [c for c in calls_in(f) if call_name(c) == "os.path.join" and len(c.args) == 2 and dotted(c.args[1]) == "pool_folder_name"]
    ctx.need(joins, "_get_temp_dir: the join building the pool folder was not found")
    # the join whose value is returned: the one after which no other one is evaluated (an earlier one only probes /dev/shm)
    joins = [j for j in joins if not any(k is not j and g.path_exists(g.nodes_of(j), g.nodes_of(k)) for k in joins)] or joins
    base = dotted(joins[0].args[0])
    ctx.need(base is not None, "_get_temp_dir: base folder of the join is not a name")
    defs = [a for a in nodes_of_type(f, (ast.Assign, ast.AugAssign, ast.AnnAssign)) if base in stores_to(a)]
    def is_abs(a):
        v = getattr(a, "value", None)
        return isinstance(v, ast.Call) and call_name(v) == "os.path.abspath"
    abs_defs = [a for a in defs if is_abs(a)]
    others = [a for a in defs if not is_abs(a)]
    jn = g.nodes_of(joins[0])
    ok = bool(abs_defs) and g.every_path_to(jn, g.nodes_of_all(abs_defs))
    # ... and no other definition can come after the last abspath on the way to the join
    late = [a for a in others if any(g.path_exists(g.nodes_of(x), g.nodes_of(a)) for x in abs_defs) and g.path_exists(g.nodes_of(a), jn)] if ok else []
    # a parameter value reaching the join without any definition at all is covered by every_path_to (entry -> join)
    ctx.check(ok and not late, (late or abs_defs or [joins[0]])[0], "the folder registered with the resource tracker is absolute on every path (user-provided relative paths included)",
              "`%s` can reach `%s` without having gone through os.path.abspath: a relative temp_folder / JOBLIB_TEMP_FOLDER is registered with the tracker as a relative name, "
              "which the tracker process resolves against ITS working directory - after a chdir in the client the real folder is never cleaned up" % (base, unparse(joins[0], 60)))


def run(ctx):
    ctx.run("C20.ABSOLUTE-NAMES", "R-FLOW", absolute_names)
    ctx.run("C20.UNLINK-AT-ZERO", "R-ORDER", unlink_at_zero)
    ctx.run("C20.ONLY-REGISTERED", "R-ORDER", only_registered)
    ctx.run("C20.SURVIVES", "R-ERRDISC", survives)
    ctx.run("C20.EOF-ONLY", "R-ORDER", eof_only)
    ctx.run("C20.FINAL", "R-ORDER", final)
    ctx.run("C20.VOCAB", "R-TABLE", vocab)
    ctx.run("C20.CLIENT-PAIRING", "R-ORDER", client_pairing)
    from . import mem as _mem
    ctx.run("C11.DELETE-LOOP", "R-PROGRESS", _mem.delete_folder_loop)
    ctx.run("C20.CONTEXTS", "R-ORDER", contexts)
