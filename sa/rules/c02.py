"""C02 - a Memory-cached function never returns a value belonging to other arguments."""

from . import c07, c08, mem

PROPERTY = "C02"
EXPLANATION = (
    "Static decision of the structural clauses of C02: the cache key is the digest of filter_args(func, ignore, args, "
    "kwargs) - all bound arguments flow into it - under a function id built from module path and name; one call_id "
    "definition serves the hit test, the load, the shelved reference and the store (no re-computation between test and "
    "use); writer and reader of an entry derive the same directory and base names; a shelved reference loads the id it "
    "was built with; plus the canonicalisation clauses of C07 (a wrong binding merges distinct calls) and the digest "
    "clauses of C08. Collision resistance of md5 over pickle streams and __reduce__ of user classes are NOT decided."
    ' A shelved reference hands out a freshly loaded value on every get(); partials are fingerprinted as themselves.'
)
ASSUMPTIONS = [
    "md5 over the pickle stream does not collide for distinct canonical mappings",
    "numpy_pickle.load returns what numpy_pickle.dump stored (C03)",
]


def run(ctx):
    ctx.run("C02.KEY-FLOW", "R-FLOW", mem.key_flow)
    ctx.run("C02.ONE-ID", "R-FLOW", mem.one_id)
    ctx.run("C02.PATHS", "R-DUAL", mem.paths)
    ctx.run("C02.SHELVE", "R-FLOW", mem.shelve)
    ctx.run("C06.CACHE-FORWARD", "R-FLOW", mem.cache_forward)
    ctx.run("C12.CHECK-DOMINATES", "R-ORDER", mem.check_dominates)
    ctx.run("C12.FRESH-SOURCE", "R-WHO", mem.fresh_source)
    ctx.run("C12.DIFF-WIPES", "R-ORDER", mem.diff_wipes)
    ctx.run("C12.FASTPATH-COHERENT", "R-WHO", mem.fastpath_coherent)
    ctx.run("C12.CODE-HASH", "R-FLOW", mem.code_hash)
    ctx.run("C12.GETSTATE", "R-WHO", mem.getstate_pure)
    ctx.run("C07.SIGNATURE", "R-WHO", c07.signature_fresh)
    ctx.run("C07.KINDS", "R-TABLE", c07.kinds)
    ctx.run("C07.LOCKSTEP", "R-DUAL", c07.lockstep)
    ctx.run("C07.POSITIONAL", "R-FLOW", c07.positional)
    ctx.run("C07.KW", "R-ORDER", c07.kw)
    ctx.run("C07.METHOD", "R-ORDER", c07.method)
    ctx.run("C07.IGNORE", "R-ORDER", c07.ignore)
    ctx.run("C07.NO-FORMAT", "R-WHO", c07.no_format_on_success)
    ctx.run("C08.PURE", "R-WHO", c08.pure)
    ctx.run("C08.UNORDERED", "R-TABLE", c08.unordered)
    ctx.run("C08.SEED", "R-WHO", c08.seed)
    ctx.run("C08.MEMO", "R-ORDER", c08.memo)
    ctx.run("C08.FEED-TOTAL", "R-FLOW", c08.feed_total)
    ctx.run("C08.PROTO", "R-FLOW", c08.proto)
    ctx.run("C08.NO-COLLAPSE", "R-TABLE", c08.no_collapse)
