"""C11 - concurrent users of one cache directory always get correct values."""

from . import mem

PROPERTY = "C11"
EXPLANATION = (
    "Static decision of the structural clauses of C11: per-writer unique temporary names (pid + thread identity), "
    "atomic publication (C05.ATOMIC-OWNERSHIP / PUBLISH-ORDER), and the error discipline of every raising file-system "
    "call on a path below the cache root (which a concurrent clear()/reduce_size() may delete at any moment): each such "
    "call is tolerant by API, or handled by a non-re-raising handler locally, or in every caller chain up to the public "
    "Memory API (call-graph closure over memory.py, _store_backends.py, disk.py). Interleavings are not enumerated: the "
    "clause is the necessary condition that no unprotected window exists in the text."
    ' Reads of the shared in-memory table of validated functions tolerate a concurrent removal (no check-then-act).'
)
ASSUMPTIONS = [
    "os.replace is atomic; os.path.exists / os.walk / rmtree(ignore_errors=True) do not raise for vanished paths",
    "the cache root itself is never deleted (clear() removes its sub-directories only)",
    "MemorizedResult.get documents KeyError for a vanished shelved entry (exempt)",
]


def run(ctx):
    ctx.run("C11.UNIQUE", "R-FLOW", mem.temp_name)
    ctx.run("C11.ATOMIC-OWNERSHIP", "R-WHO", mem.atomic_ownership)
    ctx.run("C11.PUBLISH-ORDER", "R-ORDER", mem.publish_order)
    ctx.run("C11.ERRDISC", "R-ERRDISC", mem.errdisc)
    ctx.run("C11.EEXIST", "R-ERRDISC", mem.eexist)
    ctx.run("C11.RECOMPUTE", "R-ERRDISC", mem.load_tolerant)
    ctx.run("C11.DELETE-TOLERANT", "R-ERRDISC", mem.delete_tolerant)
    ctx.run("C11.DELETE-LOOP", "R-PROGRESS", mem.delete_folder_loop)
    ctx.run("C11.TABLE-RACE", "R-ERRDISC", mem.table_race)
    ctx.run("C18.ALL-LIMITS", "R-FLOW", mem.all_limits)
