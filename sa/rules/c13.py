"""C13 - joblib's compressed file objects behave exactly like a plain byte stream."""

from . import zf

PROPERTY = "C13"
EXPLANATION = (
    "Static decision of the structural clauses of C13 on compressor.BinaryZlibFile: loop progress on every refill path "
    "(C14.PROGRESS), cursor/slice agreement (the slice handed out ends where the new offset is stored; slicing from 0 only "
    "after re-basing), position accounting (+= len(data) exactly once per data-producing path), completeness of _rewind, "
    "seek = rewind-iff-backwards then skip by reading, whence table 0/1/2/else, write forwards compress(data) and close "
    "writes compressor.flush() before closing, public methods run under the lock after their _check_*. Equality with a "
    "reference stream over all operation sequences is model-based-testing territory and is NOT decided; readline/readinto "
    "are inherited from io.BufferedIOBase (trusted)."
)
ASSUMPTIONS = [
    "zlib.decompressobj / compressobj semantics (unused_data, eof, flush)",
    "io.BufferedIOBase.readinto/readline are implemented on top of read()",
]


def run(ctx):
    ctx.run("C13.PROGRESS", "R-PROGRESS", zf.progress)
    ctx.run("C13.CURSOR", "R-DUAL", zf.cursor)
    ctx.run("C13.POS", "R-ORDER", zf.pos)
    ctx.run("C13.REWIND", "R-TABLE", zf.rewind)
    ctx.run("C13.WHENCE", "R-TABLE", zf.whence)
    ctx.run("C13.FLUSH", "R-ORDER", zf.flush)
    ctx.run("C13.OWNERSHIP", "R-WHO", zf.ownership)
    ctx.run("C13.GUARDS", "R-ORDER/R-LOCK", zf.guards)
    ctx.run("C13.MODE-GATES", "R-TABLE", zf.mode_gates)
    ctx.run("C03.MAGIC", "R-TABLE", zf.magic)
    ctx.run("C13.MODE-TYPESTATE", "R-WHO", zf.mode_typestate)
    ctx.run("C14.EOF-NOT-DATA", "R-ORDER", zf.eof_not_data)
