"""<Cxx>.TOTAL - the anchored mechanisms of a property are executable on every path (rule family R-DEFUSE).

Four exact, repository-wide facts are decided for every function of the files a property is anchored in.  None of them
is a style rule: each reported construct raises NameError / UnboundLocalError / AttributeError, or hands None to a
caller that used to get a value, whenever the path is executed - so whatever the mechanism was doing for the property
is no longer done there.

 (a) UNDEFINED NAME    a name read in a function that is bound nowhere: not a parameter/local of the function or of an
                       enclosing function, not bound at module level, not a builtin.
 (b) UNBOUND LOCAL     a local variable read at a statement that NO binding of that variable can reach in the CFG
                       (may-reach: a binding on some path is enough, so correlated conditions never raise an alarm).
 (c) LOST ATTRIBUTE    an attribute name that some class of the repository stored on the pinned tree
                       (reference/total.json) and that is still read in the property's files, but is now stored
                       nowhere in the repository (no `x.A = ...`, no class-level binding, no def, no setattr literal).
 (d) LOST RETURN VALUE a function that returned a value on every normal path on the pinned tree (reference) and now has
                       a normal path that falls off its end or hits a bare `return`.

(a) and (b) need no reference.  (c) and (d) compare with instances frozen on the pinned tree, which only narrows them:
without the reference they are skipped for names/functions it does not list.
"""

import ast
import builtins
import json
import os

from ..cfg import cfg_of
from ..core import Undecidable, dotted, unparse, walk_local, where as where_

HERE = os.path.dirname(os.path.dirname(os.path.dirname(os.path.abspath(__file__))))
REF = os.path.join(HERE, "reference", "total.json")

PROP_FILES = {}
_FILE_PROPS = {
    "joblib/parallel.py": ["C01", "C04", "C09", "C16", "C17", "C15"],
    "joblib/_parallel_backends.py": ["C01", "C04", "C15", "C17", "C10"],
    "joblib/_utils.py": ["C04", "C09"],
    "joblib/memory.py": ["C02", "C05", "C06", "C11", "C12", "C18", "C14"],
    "joblib/_store_backends.py": ["C02", "C05", "C11", "C18", "C06", "C12"],
    "joblib/disk.py": ["C11", "C18", "C20"],
    "joblib/func_inspect.py": ["C07", "C12", "C02", "C06"],
    "joblib/hashing.py": ["C08", "C02", "C06"],
    "joblib/compressor.py": ["C03", "C13", "C14"],
    "joblib/numpy_pickle.py": ["C03", "C14", "C19", "C20"],
    "joblib/numpy_pickle_utils.py": ["C03", "C14", "C19"],
    "joblib/backports.py": ["C19"],
    "joblib/_memmapping_reducer.py": ["C19", "C20"],
    "joblib/executor.py": ["C10", "C15", "C20"],
    "joblib/externals/loky/process_executor.py": ["C10"],
    "joblib/externals/loky/reusable_executor.py": ["C10", "C15"],
    "joblib/externals/loky/backend/resource_tracker.py": ["C20"],
    "joblib/externals/loky/backend/context.py": ["C15"],
    "joblib/externals/loky/backend/utils.py": ["C10"],
}
for _f, _ps in _FILE_PROPS.items():
    for _p in _ps:
        PROP_FILES.setdefault(_p, []).append(_f)

BUILTINS = set(dir(builtins)) | {"__file__", "__name__", "__doc__", "__builtins__", "__spec__", "__loader__", "__package__", "__path__", "__class__", "__debug__",
                                 # platform builtins that the code reads behind a platform test / try
                                 "WindowsError"}
SCOPES = (ast.FunctionDef, ast.AsyncFunctionDef, ast.Lambda, ast.ClassDef)
COMPS = (ast.ListComp, ast.SetComp, ast.DictComp, ast.GeneratorExp)


def _in_scope(root):
    """repository modules decided here (cloudpickle is vendored third-party code no property is anchored in)"""
    return lambda rel: rel.startswith("joblib/") and "externals/cloudpickle" not in rel and "/test/" not in rel


# ---------------------------------------------------------------------------
# name collection
# ---------------------------------------------------------------------------

def _targets(t, out):
    if isinstance(t, ast.Name):
        out.add(t.id)
    elif isinstance(t, (ast.Tuple, ast.List)):
        for e in t.elts:
            _targets(e, out)
    elif isinstance(t, ast.Starred):
        _targets(t.value, out)


def bound_here(scope):
    """Names bound in the body of `scope` itself (function or module), nested scopes not entered (their names are bound
    here, their bodies are not).  Comprehension targets and lambda parameters inside are included: over-approximation."""
    out, glob = set(), set()
    body = scope.body if not isinstance(scope, ast.Lambda) else [scope.body]
    stack = list(body) if isinstance(body, list) else [body]
    while stack:
        n = stack.pop()
        if isinstance(n, (ast.FunctionDef, ast.AsyncFunctionDef, ast.ClassDef)):
            out.add(n.name)
            for d in n.decorator_list:
                stack.append(d)
            continue
        if isinstance(n, ast.Lambda):
            for a in n.args.args + n.args.kwonlyargs + n.args.posonlyargs:
                out.add(a.arg)
            if n.args.vararg:
                out.add(n.args.vararg.arg)
            if n.args.kwarg:
                out.add(n.args.kwarg.arg)
            stack.append(n.body)
            continue
        if isinstance(n, ast.Name) and isinstance(n.ctx, (ast.Store, ast.Del)):
            out.add(n.id)
        elif isinstance(n, (ast.Import, ast.ImportFrom)):
            for a in n.names:
                out.add((a.asname or a.name).split(".")[0])
        elif isinstance(n, ast.ExceptHandler) and n.name:
            out.add(n.name)
        elif isinstance(n, (ast.Global, ast.Nonlocal)):
            glob.update(n.names)
        elif hasattr(ast, "MatchAs") and isinstance(n, getattr(ast, "MatchAs")) and n.name:
            out.add(n.name)
        stack.extend(ast.iter_child_nodes(n))
    return out, glob


def params(fn):
    a = fn.args
    out = {x.arg for x in a.args + a.kwonlyargs + a.posonlyargs}
    if a.vararg:
        out.add(a.vararg.arg)
    if a.kwarg:
        out.add(a.kwarg.arg)
    return out


def module_names(mod):
    names, _ = bound_here(mod.tree)
    star = any(isinstance(n, ast.ImportFrom) and any(a.name == "*" for a in n.names) for n in ast.walk(mod.tree))
    # names declared global inside functions and assigned there
    for n in ast.walk(mod.tree):
        if isinstance(n, ast.Global):
            names.update(n.names)
    return names, star


def enclosing_functions(fn):
    out = []
    p = getattr(fn, "_parent", None)
    while p is not None:
        if isinstance(p, (ast.FunctionDef, ast.AsyncFunctionDef, ast.Lambda)):
            out.append(p)
        p = getattr(p, "_parent", None)
    return out


def loads_in(fn):
    """(Name node) for every name read in the function, nested defs/lambdas/comprehensions included (their own
    bindings are in bound_here's over-approximation or added below)."""
    for n in ast.walk(fn):
        if isinstance(n, ast.Name) and isinstance(n.ctx, ast.Load):
            yield n


def nested_bound(fn):
    """names bound in scopes nested in fn (parameters and locals of inner defs, class bodies)"""
    out = set()
    for n in ast.walk(fn):
        if n is fn:
            continue
        if isinstance(n, (ast.FunctionDef, ast.AsyncFunctionDef, ast.Lambda)):
            out |= params(n)
            out |= bound_here(n)[0]
        elif isinstance(n, ast.ClassDef):
            out |= bound_here(n)[0]
    return out


# ---------------------------------------------------------------------------
# (a) undefined names
# ---------------------------------------------------------------------------

def undefined_names(mod, fn, mod_names):
    allowed = set(mod_names) | BUILTINS | params(fn) | bound_here(fn)[0] | nested_bound(fn)
    for e in enclosing_functions(fn):
        allowed |= params(e) | bound_here(e)[0]
    # class-level names are visible in the class body only; a method reading one is an error - but a function
    # *defined in a class body and called there* is rare enough to ignore (no such construct on the pinned tree)
    seen = set()
    for n in loads_in(fn):
        if n.id not in allowed and n.id not in seen:
            seen.add(n.id)
            yield n


# ---------------------------------------------------------------------------
# (b) definitely unbound locals
# ---------------------------------------------------------------------------

def _header_exprs(st):
    """expressions evaluated by the CFG node of statement `st` (bodies of compound statements are other nodes)"""
    if isinstance(st, (ast.If, ast.While)):
        return [st.test]
    if isinstance(st, (ast.For, ast.AsyncFor)):
        return [st.iter]
    if isinstance(st, (ast.With, ast.AsyncWith)):
        return [i.context_expr for i in st.items]
    if isinstance(st, ast.Try):
        return []
    if isinstance(st, ast.ExceptHandler):
        return [st.type] if st.type is not None else []
    if isinstance(st, (ast.FunctionDef, ast.AsyncFunctionDef)):
        return list(st.decorator_list) + [d for d in st.args.defaults] + [d for d in st.args.kw_defaults if d is not None]
    if isinstance(st, ast.ClassDef):
        return list(st.decorator_list) + list(st.bases) + [k.value for k in st.keywords]
    return [st]


def _uses(expr, out, shadow=frozenset()):
    """immediate reads of names in expr: lambdas deferred (skipped), comprehension targets shadow their own names"""
    if isinstance(expr, ast.Lambda):
        return
    if isinstance(expr, (ast.FunctionDef, ast.AsyncFunctionDef, ast.ClassDef)):
        return
    if isinstance(expr, COMPS):
        own = set()
        for gen in expr.generators:
            _targets(gen.target, own)
        sh = shadow | own
        # the first iterable is evaluated in the enclosing scope
        _uses(expr.generators[0].iter, out, shadow)
        for i, gen in enumerate(expr.generators):
            if i:
                _uses(gen.iter, out, sh)
            for c in gen.ifs:
                _uses(c, out, sh)
        for part in ([expr.key, expr.value] if isinstance(expr, ast.DictComp) else [expr.elt]):
            _uses(part, out, sh)
        return
    if isinstance(expr, ast.Name):
        if isinstance(expr.ctx, ast.Load) and expr.id not in shadow:
            out.append(expr)
        return
    for c in ast.iter_child_nodes(expr):
        _uses(c, out, shadow)


def _defs_of(st):
    out = set()
    if isinstance(st, ast.Assign):
        for t in st.targets:
            _targets(t, out)
    elif isinstance(st, ast.AugAssign):
        _targets(st.target, out)
    elif isinstance(st, ast.AnnAssign):
        if st.value is not None:
            _targets(st.target, out)
    elif isinstance(st, (ast.For, ast.AsyncFor)):
        _targets(st.target, out)
    elif isinstance(st, (ast.With, ast.AsyncWith)):
        for i in st.items:
            if i.optional_vars is not None:
                _targets(i.optional_vars, out)
    elif isinstance(st, (ast.Import, ast.ImportFrom)):
        for a in st.names:
            out.add((a.asname or a.name).split(".")[0])
    elif isinstance(st, (ast.FunctionDef, ast.AsyncFunctionDef, ast.ClassDef)):
        out.add(st.name)
    elif isinstance(st, ast.ExceptHandler):
        if st.name:
            out.add(st.name)
    for e in _header_exprs(st):
        if e is None:
            continue
        for n in ast.walk(e):
            if isinstance(n, ast.NamedExpr):
                _targets(n.target, out)
    return out


def _reaches_without_def(g, target, defnodes):
    """pessimistic: is `target` reachable from the entry along a path on which no binding statement COMPLETES?  A
    binding statement inside a try body that raises did not bind: its exception edge is followed, its normal edge not."""
    seen, stack = set(), [g.entry]
    while stack:
        n = stack.pop()
        if n in seen:
            continue
        seen.add(n)
        if n == target:
            return True
        for (t, lab) in g.nodes[n].succ:
            if n in defnodes and lab != "exc":
                continue
            if t not in seen:
                stack.append(t)
    return False


def unbound_locals(fn, must=False):
    """[(Name node, statement)] reads of a local that no binding can reach.  With must=True: reads that SOME path from
    the function entry reaches without passing a binding (path-insensitive; used only against the frozen reference)."""
    try:
        g = cfg_of(fn)
    except Undecidable:
        return []
    own, glob = bound_here(fn)
    par = params(fn)
    locs = own - glob - par
    if not locs:
        return []
    defs, uses = {}, []
    for node in g.nodes:
        st = node.ast
        if st is None:
            continue
        d = _defs_of(st)
        for nm in d:
            if nm in locs:
                defs.setdefault(nm, set()).add(node.id)
        us = []
        for e in _header_exprs(st):
            if e is not None:
                _uses(e, us)
        if isinstance(st, ast.AugAssign) and isinstance(st.target, ast.Name):
            us.append(st.target)
        walrus = {n.target.id for e in _header_exprs(st) if e is not None for n in ast.walk(e) if isinstance(n, ast.NamedExpr) and isinstance(n.target, ast.Name)}
        for n in us:
            if n.id in locs and n.id not in walrus:
                uses.append((n, node.id, st))
    if not uses:
        return []
    live = g.reach([g.entry])
    reach_cache = {}
    out = []
    for n, nid, st in uses:
        if nid not in live:
            continue
        nm = n.id
        if nm not in reach_cache:
            starts = set()
            for d in defs.get(nm, ()):
                for (t, _lab) in g.nodes[d].succ:
                    starts.add(t)
            reach_cache[nm] = g.reach(starts) if starts else set()
        if must:
            if _reaches_without_def(g, nid, defs.get(nm, set()) - {nid}):
                out.append((n, st))
        elif nid not in reach_cache[nm]:
            out.append((n, st))
    return out


# ---------------------------------------------------------------------------
# (c) attributes, (d) return totality: facts + reference
# ---------------------------------------------------------------------------

def attr_stores(repo, pred):
    """attribute names stored anywhere: x.A = ..., class-level bindings, defs, setattr(x, 'A', ...), namedtuple
    fields and __slots__ entries are over-approximated by every string literal that is an identifier in a class body"""
    st = set()
    dynamic = False
    for rel, m in repo.modules.items():
        if not pred(rel):
            continue
        for n in ast.walk(m.tree):
            if isinstance(n, ast.Attribute) and isinstance(n.ctx, (ast.Store, ast.Del)):
                st.add(n.attr)
            elif isinstance(n, ast.ClassDef):
                st |= bound_here(n)[0]
            elif isinstance(n, (ast.FunctionDef, ast.AsyncFunctionDef)):
                st.add(n.name)
            elif isinstance(n, ast.Call) and isinstance(n.func, ast.Name) and n.func.id == "setattr" and len(n.args) >= 2:
                if isinstance(n.args[1], ast.Constant) and isinstance(n.args[1].value, str):
                    st.add(n.args[1].value)
            elif isinstance(n, ast.keyword) and n.arg:
                st.add(n.arg)     # SimpleNamespace(a=...), namedtuple defaults, dict(a=...) used as __dict__
    return st


def self_attr_stores(repo, pred):
    """{attr: [class qualnames]} for `self.A = ...` inside methods (the reference population of (c))"""
    out = {}
    for rel, m in repo.modules.items():
        if not pred(rel):
            continue
        for q, fn in m.funcs.items():
            if "." not in q:
                continue
            for n in ast.walk(fn):
                if isinstance(n, ast.Attribute) and isinstance(n.ctx, ast.Store) and isinstance(n.value, ast.Name) and n.value.id == "self":
                    out.setdefault(n.attr, set()).add(rel + "::" + q.rsplit(".", 1)[0])
    return {k: sorted(v) for k, v in out.items()}


def falls_off(fn, was_total=False):
    """normal paths that end without `return <value>`: returns the list of offending statements (bare returns) or
    [fn] when the end of the body is reachable; None when undecidable or the function is a generator"""
    for n in walk_local(fn):
        if isinstance(n, (ast.Yield, ast.YieldFrom)):
            return None
    try:
        g = cfg_of(fn)
    except Undecidable:
        return None
    rets = [r for r in walk_local(fn) if isinstance(r, ast.Return)]
    valued = [r for r in rets if r.value is not None]
    if not valued and not was_total:
        return None
    bad = [r for r in rets if r.value is None and set(g.nodes_of(r)) & g.reach([g.entry])]
    via = set()
    for r in rets:
        via.update(g.nodes_of(r))
    r_ = g.reach([g.entry], avoid=via)
    if g.exit in r_:
        bad.append(fn)
    return bad


def value_total_functions(repo, pred):
    out = []
    for rel, q, fn in repo.all_functions(pred):
        b = falls_off(fn)
        if b is not None and not b:
            out.append(rel + "::" + q)
    return sorted(out)


def freeze(repo):
    pred = _in_scope(None)
    must = {}
    for rel, q, fn in repo.all_functions(pred):
        maybe = {n.id for n, _ in unbound_locals(fn, must=True)}
        own, glob = bound_here(fn)
        judged = sorted(own - glob - params(fn) - maybe)
        if judged:
            must[rel + "::" + q] = judged
    ref = {"self_attrs": self_attr_stores(repo, pred), "value_total": value_total_functions(repo, pred), "must_defined_locals": must}
    json.dump(ref, open(REF, "w"), indent=0, sort_keys=True)
    return ref


_ref_cache = None


def reference():
    global _ref_cache
    if _ref_cache is None:
        try:
            _ref_cache = json.load(open(REF))
        except (OSError, ValueError):
            _ref_cache = {}
    return _ref_cache


# ---------------------------------------------------------------------------
# the clause
# ---------------------------------------------------------------------------

def _mutable_registries(repo, mod):
    """{name: where it is mutated} for module-level names of `mod` bound to a container display / constructor and
    mutated (subscript store, del, or a mutating method) inside some function of the package"""
    def containers(m):
        out_ = set()
        for st in m.tree.body:
            if isinstance(st, ast.Assign) and len(st.targets) == 1 and isinstance(st.targets[0], ast.Name):
                v = st.value
                if isinstance(v, (ast.Dict, ast.List, ast.Set)) or (isinstance(v, ast.Call) and (dotted(v.func) or "").split(".")[-1] in
                                                                       ("dict", "list", "set", "OrderedDict", "defaultdict", "WeakKeyDictionary", "WeakValueDictionary", "deque")):
                    out_.add(st.targets[0].id)
        return out_
    cands = containers(mod)
    everywhere = set()
    for m in repo.modules.values():
        everywhere |= containers(m)
    for st in ast.walk(mod.tree):
        if isinstance(st, ast.ImportFrom) and st.level:
            for a in st.names:
                if a.name in everywhere:
                    cands.add(a.asname or a.name)
    out = {}
    if not cands:
        return out
    MUT = {"append", "add", "update", "pop", "popitem", "clear", "remove", "extend", "insert", "setdefault", "discard", "appendleft"}
    for rel, m in repo.modules.items():
        for q, fn in m.funcs.items():
            for n in ast.walk(fn):
                nm = None
                if isinstance(n, ast.Subscript) and isinstance(n.ctx, (ast.Store, ast.Del)) and isinstance(n.value, ast.Name):
                    nm = n.value.id
                elif isinstance(n, ast.Call) and isinstance(n.func, ast.Attribute) and n.func.attr in MUT and isinstance(n.func.value, ast.Name):
                    nm = n.func.value.id
                if nm in cands and nm not in out:
                    out[nm] = "%s::%s" % (rel, q)
    return out


def total(ctx):
    pid = ctx.pid
    files = PROP_FILES.get(pid, [])
    pred = _in_scope(None)
    ref = reference()
    n_fn = n_use = 0
    must_ref = ref.get("must_defined_locals", {})
    vt_ref = set(ref.get("value_total", ()))
    for rel in files:
        if rel not in ctx.repo.modules:
            continue
        mod = ctx.repo.modules[rel]
        names, star = module_names(mod)
        for q, fn in mod.funcs.items():
            n_fn += 1
            if not star:
                for n in undefined_names(mod, fn, names):
                    ctx.bad(n, "`%s` is read in %s but bound nowhere (no local, enclosing, module-level or builtin binding): NameError when this statement runs" % (n.id, q),
                            key="%s::%s::undefined name %s" % (rel, q, n.id))
            may = unbound_locals(fn)
            for n, st in may:
                ctx.bad(n, "local `%s` is read by `%s` in %s, but no assignment of it can reach that statement on any path: UnboundLocalError" % (n.id, unparse(st, 70), q),
                        key="%s::%s::unbound local %s" % (rel, q, n.id))
            full = rel + "::" + q
            if full in must_ref:
                for n, st in unbound_locals(fn, must=True):
                    if any(n is m_ for m_, _ in may) or n.id not in must_ref[full]:
                        continue      # only locals that every path assigned on the pinned tree are judged
                    ctx.bad(n, "local `%s` is read by `%s` in %s, and a path from the function entry reaches that statement without assigning it (every path assigned it on the pinned tree): UnboundLocalError on that path"
                            % (n.id, unparse(st, 70), q), key="%s::%s::unbound local %s" % (rel, q, n.id))
            if full in vt_ref:
                b = falls_off(fn, was_total=True)
                for x in b or ():
                    ctx.bad(x, "%s returned a value on every normal path; now %s: callers get None" % (q, "the end of the body is reachable" if x is fn else "a bare `return` is reachable"),
                            key="%s::%s::returns a value on every path" % (rel, q))
    # (c) per class: an attribute the class stored on itself on the pinned tree, still read somewhere in the property's
    # files, but stored by no method of the class, of its repository ancestors or descendants, nor bound at class level
    ref_attrs = ref.get("self_attrs", {})
    n_cls = 0
    if ref_attrs:
        by_class = {}
        for a, classes in ref_attrs.items():
            for c in classes:
                by_class.setdefault(c, set()).add(a)
        reads = {}
        for rel in files:
            if rel in ctx.repo.modules:
                for n in ast.walk(ctx.repo.modules[rel].tree):
                    if isinstance(n, ast.Attribute) and isinstance(n.ctx, ast.Load):
                        n_use += 1
                        reads.setdefault(n.attr, n)
        for rel in files:
            if rel not in ctx.repo.modules:
                continue
            mod = ctx.repo.modules[rel]
            for cq, cls in mod.classes.items():
                want = by_class.get(rel + "::" + cq)
                if not want:
                    continue
                n_cls += 1
                family = [(rel, cls)] + [(r_, c_) for (r_, c_) in ctx.res.mro(rel, cls)[1:]] + [(r_, c_) for (r_, c_) in ctx.res.subclasses(rel, cls)]
                have = set()
                dynamic = False
                for (r_, c_) in family:
                    have |= bound_here(c_)[0]
                    for n in ast.walk(c_):
                        if isinstance(n, ast.Attribute) and isinstance(n.ctx, ast.Store) and isinstance(n.value, ast.Name) and n.value.id in ("self", "cls", "obj"):
                            have.add(n.attr)
                        elif isinstance(n, ast.Call) and isinstance(n.func, ast.Name) and n.func.id == "setattr":
                            dynamic = True
                        elif isinstance(n, ast.Attribute) and n.attr == "__dict__":
                            dynamic = True
                if dynamic:
                    continue
                for a in sorted(want - have):
                    if a in reads:
                        ctx.bad(reads[a], "class %s stored `self.%s` on the pinned tree and `.%s` is still read (%s), but no method of the class (or of its ancestors/descendants in the repository) stores it any more: AttributeError"
                                % (cq, a, a, where_(reads[a])), key="%s::%s::attribute %s is read but never stored" % (rel, cq, a))
    # (f) swapped arguments: a positional argument that is a variable named exactly like ANOTHER parameter of the
    # (resolved, in-repository) callee than the one it lands on - e.g. after a signature was re-ordered and a
    # positional call site was not.  Only name-for-name evidence counts: the variable's name must be a parameter name of
    # the callee, at a different position, and the parameter it lands on must have a different name.
    n_calls = 0
    for rel in files:
        if rel not in ctx.repo.modules:
            continue
        mod = ctx.repo.modules[rel]
        for q, fn in mod.funcs.items():
            for c in [x for x in walk_local(fn) if isinstance(x, ast.Call)]:
                if not c.args or any(isinstance(a, ast.Starred) for a in c.args):
                    continue
                try:
                    tg = ctx.res.resolve_call(c)
                except Exception:
                    tg = []
                if len(tg) != 1:
                    continue
                callee = tg[0]
                ps = [a.arg for a in callee.args.posonlyargs + callee.args.args]
                off = 1 if ps and ps[0] in ("self", "cls") and isinstance(c.func, ast.Attribute) or (ps and ps[0] == "self" and isinstance(c.func, ast.Name)) else 0
                n_calls += 1
                for i, a in enumerate(c.args):
                    nm = a.id if isinstance(a, ast.Name) else None
                    if nm is None or i + off >= len(ps):
                        continue
                    here = ps[i + off]
                    if nm != here and nm in ps[off:] and ps.index(nm) != i + off:
                        # the name it lands on must not itself be passed correctly elsewhere as keyword (then it would be a TypeError anyway)
                        ctx.bad(a, "`%s` is passed positionally to %s() where it lands on parameter `%s`, while the callee has a parameter named `%s` at another position: arguments are swapped "
                                   "(the signature and this call site disagree)" % (nm, callee.name, here, nm), key="%s::%s::swapped argument %s -> %s" % (rel, q, nm, callee.name))
    # (g) memoised functions: a function wrapped in a result cache (functools.lru_cache / cache / cached_property ...) must
    # not read a module-level container that the package mutates after import (a registry): its first answer would be
    # served after the registry has changed.
    for rel in files:
        if rel not in ctx.repo.modules:
            continue
        mod = ctx.repo.modules[rel]
        registries = _mutable_registries(ctx.repo, mod)
        for q, fn in mod.funcs.items():
            memo = [d for d in fn.decorator_list if "cache" in (dotted(d.func if isinstance(d, ast.Call) else d) or "").lower()]
            if not memo:
                continue
            read = sorted({n.id for n in ast.walk(fn) if isinstance(n, ast.Name) and isinstance(n.ctx, ast.Load) and n.id in registries})
            if read:
                ctx.bad(fn, "%s is memoised (%s) but reads %s, a module-level container that is modified after import (%s): the first answer is served after the registry has changed"
                        % (q, unparse(memo[0]), ", ".join(read), registries[read[0]]), key="%s::%s::memoised reader of %s" % (rel, q, read[0]))
    # (h) result memo in a process-lifetime container that the pinned tree does not have: a function that fills a new
    # module-level container and answers from it returns what it computed for an EARLIER call with the same key - for the
    # properties here (fresh reads of registries / affinity / dtype / file state, digests that depend on nothing but the
    # value) that is an answer from call history, not from the current input.
    from .. import normalise as _norm
    refg = _norm.reference_globals()
    for rel in files:
        if rel not in ctx.repo.modules or rel not in refg:
            continue
        mod = ctx.repo.modules[rel]
        known_g = set(refg[rel])
        new_containers = set()
        for st in mod.tree.body:
            if isinstance(st, ast.Assign) and len(st.targets) == 1 and isinstance(st.targets[0], ast.Name) and st.targets[0].id not in known_g:
                v = st.value
                if isinstance(v, (ast.Dict, ast.List, ast.Set)) or (isinstance(v, ast.Call) and (dotted(v.func) or "").split(".")[-1] in
                                                                       ("dict", "list", "set", "OrderedDict", "defaultdict", "WeakKeyDictionary", "WeakValueDictionary", "WeakSet", "deque")):
                    new_containers.add(st.targets[0].id)
        if not new_containers:
            continue
        for q, fn in mod.funcs.items():
            for G in sorted(new_containers):
                fills = [n for n in ast.walk(fn) if (isinstance(n, ast.Subscript) and isinstance(n.ctx, ast.Store) and dotted(n.value) == G)
                         or (isinstance(n, ast.Call) and isinstance(n.func, ast.Attribute) and dotted(n.func.value) == G and n.func.attr in ("setdefault", "add", "append", "update"))]
                reads = [n for n in ast.walk(fn) if (isinstance(n, ast.Subscript) and isinstance(n.ctx, ast.Load) and dotted(n.value) == G)
                         or (isinstance(n, ast.Call) and isinstance(n.func, ast.Attribute) and dotted(n.func.value) == G and n.func.attr in ("get", "pop"))]
                if not (fills and reads):
                    continue
                answered = False
                for r in [x for x in ast.walk(fn) if isinstance(x, ast.Return) and x.value is not None]:
                    if any(n is y for n in reads for y in ast.walk(r.value)):
                        answered = True
                    for nm in [y.id for y in ast.walk(r.value) if isinstance(y, ast.Name)]:
                        for a in [z for z in ast.walk(fn) if isinstance(z, ast.Assign) and nm in [getattr(t, "id", None) for t in z.targets]]:
                            if any(n is y for n in reads for y in ast.walk(a.value)):
                                answered = True
                if answered:
                    ctx.bad(reads[0], "%s answers from `%s`, a new process-lifetime container that it fills itself: a later call with the same key gets what was computed for an earlier one, "
                                      "whatever changed in between (and whatever the key does not capture)" % (q, G), key="%s::%s::result memo %s" % (rel, q, G))
    ctx.ok(None, "%d functions of %d files: no undefined name, no local read without a reaching binding, no value-returning function that can fall off its end; %d classes keep storing every attribute they stored on the pinned tree (%d attribute reads)"
           % (n_fn, len(files), n_cls, n_use), key="%s::<files of %s>::executable on every path" % ("joblib", pid))
    ctx.floor(n_fn, 1, "functions analysed by %s.TOTAL" % pid)
