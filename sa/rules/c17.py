"""C17 - parallel_config settings are scoped, thread-local and correctly prioritised."""

import ast

from ..cfg import cfg_of
from ..core import (
    assigns_to, attrs_in, body_walk, call_attr, call_name, calls_in, const_value, dict_items, dotted, enclosing_stmt,
    is_const, kwarg, nodes_of_type, parent, ancestors, stores_to, unparse, walk_local, names_in, in_block,
)
from .par import PAR, BK, F, _single_defs

PROPERTY = "C17"
EXPLANATION = (
    "Static decision of the structural clauses of C17: the active configuration lives in a threading.local and is "
    "only touched through getattr/setattr(_backend, 'config'); the previous configuration is read before the new "
    "one is installed and restored unconditionally on exit; the installed configuration is a copy updated with the "
    "non-sentinel entries only; _get_config_param tests explicit > context > default in that order; the key tables "
    "(default_parallel_config, parallel_config.__init__, new_config, Parallel.__init__) agree; a sentinel-defaulted "
    "parameter is never used raw before being resolved (taint rule); require='sharedmem' without shared-memory "
    "support returns the default thread backend; prefer only acts without an explicit backend; hints are validated. "
    "Third-party backends and never-entered contexts are outside what is decided."
)
ASSUMPTIONS = [
    "threading.local gives per-thread attributes",
    "_Sentinel instances are only created in default_parallel_config (checked: R-WHO)",
]


def _sentinel_params(fn):
    """parameter names whose default is default_parallel_config[<key>] -> key"""
    out = {}
    a = fn.args
    pos = a.posonlyargs + a.args
    for p, d in zip(pos[len(pos) - len(a.defaults):], a.defaults):
        if isinstance(d, ast.Subscript) and dotted(d.value) == "default_parallel_config":
            out[p.arg] = const_value(d.slice)
    for p, d in zip(a.kwonlyargs, a.kw_defaults):
        if d is not None and isinstance(d, ast.Subscript) and dotted(d.value) == "default_parallel_config":
            out[p.arg] = const_value(d.slice)
    return out


def tls(ctx):
    m = ctx.repo.mod(PAR)
    binds = [a for a in m.tree.body if isinstance(a, ast.Assign) and any(isinstance(t, ast.Name) and t.id == "_backend" for t in a.targets)]
    ctx.check(len(binds) == 1 and isinstance(binds[0].value, ast.Call) and call_name(binds[0].value) == "threading.local", binds[0] if binds else m.tree.body[0],
              "module-level _backend is bound exactly once, to threading.local()", "_backend is not a single threading.local(): settings would leak across threads",
              key=None if binds else PAR + "::<module>::_backend binding")
    n = 0
    for node in ast.walk(m.tree):
        if isinstance(node, ast.Name) and node.id == "_backend" and isinstance(node.ctx, ast.Load):
            p = parent(node)
            ok = isinstance(p, ast.Call) and call_name(p) in ("getattr", "setattr") and p.args and p.args[0] is node and len(p.args) >= 2 and const_value(p.args[1]) == "config"
            ok = ok or (isinstance(p, ast.Attribute) and p.value is node and p.attr == "config")
            n += 1
            ctx.check(ok, node, "access to the `config` slot of the thread-local only", "the thread-local is used in another way: %s" % unparse(p or node))
        if isinstance(node, ast.Name) and node.id == "_backend" and isinstance(node.ctx, ast.Store) and enclosing_stmt(node) not in binds:
            ctx.bad(node, "_backend is re-bound")
        if isinstance(node, ast.Global) and "_backend" in node.names:
            ctx.bad(node, "`global _backend`")
    ctx.floor(n, 4, "uses of the thread-local")
    # no module-global dict holding the active config
    for rel, mod in ctx.repo.modules.items():
        for node in ast.walk(mod.tree):
            if isinstance(node, ast.ImportFrom) and any(a.name == "_backend" for a in node.names) and "test" not in rel:
                ctx.bad(node, "%s imports the thread-local directly" % rel)
    # default_parallel_config is never mutated
    for node in ast.walk(m.tree):
        if isinstance(node, ast.Subscript) and dotted(node.value) == "default_parallel_config" and isinstance(node.ctx, (ast.Store, ast.Del)):
            ctx.bad(node, "default_parallel_config is mutated")
        if isinstance(node, ast.Call) and call_name(node) in ("default_parallel_config.update", "default_parallel_config.pop", "default_parallel_config.clear", "default_parallel_config.setdefault"):
            ctx.bad(node, "default_parallel_config is mutated")


def save_restore(ctx):
    init = F(ctx, "parallel_config.__init__")
    g = cfg_of(init)
    reads = [a for a in assigns_to(init, "self.old_parallel_config")]
    if not reads:
        ctx.bad(init, "parallel_config.__init__ no longer saves the previous configuration: nothing can be restored on exit", key=PAR + "::parallel_config.__init__::save of the previous configuration")
        return
    for a in reads:
        v = a.value
        ctx.check(isinstance(v, ast.Call) and call_name(v) == "getattr" and dotted(v.args[0]) == "_backend" and const_value(v.args[1]) == "config" and len(v.args) == 3 and dotted(v.args[2]) == "default_parallel_config",
                  a, "previous configuration = getattr(_backend, 'config', default_parallel_config)")
    sets = [a for a in nodes_of_type(init, ast.Assign) if "_backend.config" in stores_to(a)]
    if not sets:
        ctx.bad(init, "parallel_config.__init__ no longer installs the new configuration in the thread-local", key=PAR + "::parallel_config.__init__::install")
        return
    for c in sets:
        ctx.check(g.every_path_to(g.nodes_of(c), g.nodes_of_all(reads)), c, "the previous configuration is read before the new one is installed",
                  "the new configuration is installed before the previous one was saved: exit restores the wrong settings")
        ctx.check(dotted(c.value) == "self.parallel_config", c, "what is installed is self.parallel_config")
        ctx.check(not g.path_exists(g.nodes_of(c), g.nodes_of_all(reads)), c, "the saved configuration is not overwritten after the installation",
                  "old_parallel_config is (re)read after the new configuration was installed: exit restores the wrong settings")
    # a context whose constructor fails is never exited: nothing may raise once the new configuration is installed
    for c in sets:
        late = [r for r in nodes_of_type(init, ast.Raise) if g.path_exists(g.nodes_of(c), g.nodes_of(r))]
        ctx.check(not late, late[0] if late else c, "parallel_config.__init__ cannot fail after the installation",
                  "parallel_config.__init__ can raise after the new configuration was installed: __exit__ never runs for an object whose constructor failed, so the rejected settings stay active in the thread")
    for cq, cd in ctx.repo.mod(PAR).classes.items():
        if any(dotted(b) in ("parallel_config", "parallel_backend") for b in cd.bases):
            sub_init = ctx.repo.mod(PAR).funcs.get(cq + ".__init__")
            if sub_init is None:
                continue
            gs = cfg_of(sub_init)
            sup = [x for x in calls_in(sub_init) if (call_name(x) or "").endswith("__init__") and ("super()" in (call_name(x) or "") or "parallel_config" in (call_name(x) or ""))]
            for x in sup:
                late = [r for r in nodes_of_type(sub_init, ast.Raise) if gs.path_exists(gs.nodes_of(x), gs.nodes_of(r))]
                ctx.check(not late, late[0] if late else x, "%s.__init__ validates before it installs (nothing raises after the parent constructor)" % cq,
                          "%s.__init__ can raise after the parent constructor installed the configuration: the with block is never entered, __exit__ never runs, and the rejected settings stay "
                          "active in the thread (and hide those of an enclosing context)" % cq)
    # in-package users: a context that is created must be left on every path - `with`, or unregister() in a `finally`
    for rel_, mod_ in ctx.repo.modules.items():
        if "externals/" in rel_:
            continue
        for q_, fn_ in mod_.funcs.items():
            for c_ in calls_in(fn_):
                if call_name(c_) not in ("parallel_config", "parallel_backend"):
                    continue
                p_ = parent(c_)
                if isinstance(p_, ast.withitem):
                    ctx.ok(c_, "%s::%s enters the context with `with` (restored on every exit)" % (rel_, q_))
                    continue
                ok_ = False
                if isinstance(p_, ast.Assign) and len(p_.targets) == 1 and isinstance(p_.targets[0], ast.Name):
                    v_ = p_.targets[0].id
                    for t_ in nodes_of_type(fn_, ast.Try):
                        if any(isinstance(x, ast.Call) and call_name(x) in (v_ + ".unregister", v_ + ".__exit__") for s_ in t_.finalbody for x in ast.walk(s_)):
                            ok_ = True
                    if any(isinstance(w, ast.With) and any(dotted(i.context_expr) == v_ for i in w.items) for w in nodes_of_type(fn_, ast.With)):
                        ok_ = True
                if isinstance(p_, ast.Return):
                    ok_ = True
                ctx.check(ok_, c_, "the context created in %s is left on every path" % q_,
                          "%s::%s installs a parallel_config without `with` / `finally`: when the code in between raises, the settings stay installed in that thread for good" % (rel_, q_))
    ex = F(ctx, "parallel_config.__exit__")
    ge = cfg_of(ex)
    un = [c for c in calls_in(ex) if call_name(c) == "self.unregister"]
    ctx.check(bool(un) and ge.every_path_from([ge.entry], ge.nodes_of_all(un)), un[0] if un else ex, "__exit__ reaches unregister() on every path (normal exit or exception)",
              "__exit__ does not always unregister: settings survive the with block", key=None if un else PAR + "::parallel_config.__exit__::unregister call")
    for r in nodes_of_type(ex, ast.Return):
        ctx.check(r.value is None or is_const(r.value, None) or is_const(r.value, False), r, "__exit__ does not swallow exceptions")
    ur = F(ctx, "parallel_config.unregister")
    gu = cfg_of(ur)
    st = [a for a in nodes_of_type(ur, ast.Assign) if "_backend.config" in stores_to(a)]
    ctx.check(bool(st) and gu.every_path_from([gu.entry], gu.nodes_of_all(st)) and all(dotted(c.value) == "self.old_parallel_config" for c in st),
              st[0] if st else ur, "unregister stores the saved configuration back, unconditionally", "unregister does not unconditionally restore the saved configuration")
    sub = ctx.repo.cls(PAR, "parallel_backend")
    ov = [s.name for s in sub.body if isinstance(s, ast.FunctionDef) and s.name in ("__exit__", "unregister")]
    ctx.check(not ov, sub, "parallel_backend overrides neither __exit__ nor unregister", "parallel_backend overrides %s" % ov)
    # restoring must not be undone by anything else storing into the saved config
    for fn in [s for s in ctx.repo.cls(PAR, "parallel_config").body if isinstance(s, ast.FunctionDef)]:
        for a in nodes_of_type(fn, ast.Assign):
            if "self.old_parallel_config" in stores_to(a) and fn.name != "__init__":
                ctx.bad(a, "old_parallel_config is re-assigned in %s" % fn.name)


def layer(ctx):
    init = F(ctx, "parallel_config.__init__")
    g = cfg_of(init)
    st = assigns_to(init, "self.parallel_config")
    ctx.need(st, "self.parallel_config is not built in __init__")
    comps, loops_ = [], []
    for a in st:
        v = a.value
        is_copy = (isinstance(v, ast.Call) and call_name(v) == "self.old_parallel_config.copy") or \
                  (isinstance(v, ast.Call) and call_name(v) in ("dict", "copy.copy") and len(v.args) == 1 and dotted(v.args[0]) == "self.old_parallel_config")
        is_merge = isinstance(v, ast.Dict) and v.keys and v.keys[0] is None and dotted(v.values[0]) == "self.old_parallel_config"
        ctx.check(is_copy or is_merge, a, "the new configuration starts as a COPY of the previous one (outer dict is not mutated, unset keys inherit)",
                  "the new configuration is not a copy of the previous one: %s" % unparse(v))
        if is_merge:
            for k_, v_ in zip(v.keys[1:], v.values[1:]):
                ctx.check(k_ is None and isinstance(v_, ast.DictComp), a, "merged with the filtered explicit settings")
                if k_ is None and isinstance(v_, ast.DictComp):
                    comps.append((a, v_))
    for c in [c for c in calls_in(init) if call_name(c) == "self.parallel_config.update"]:
        a0 = c.args[0] if c.args else None
        ctx.need(isinstance(a0, ast.DictComp) and len(a0.generators) == 1, "update argument is not a dict comprehension (shape not recognised)")
        comps.append((c, a0))
    for lp in nodes_of_type(init, ast.For):
        for s_ in [x for x in ast.walk(lp) if isinstance(x, ast.Assign) and any(isinstance(t, ast.Subscript) and dotted(t.value) == "self.parallel_config" for t in x.targets)]:
            loops_.append((lp, s_))
    ctx.need(comps or loops_, "no update of the copied configuration")
    for c, a0 in comps:
        gen = a0.generators[0]
        vname = gen.target.elts[1].id if isinstance(gen.target, ast.Tuple) else None
        filt = [i for i in gen.ifs if isinstance(i, ast.UnaryOp) and isinstance(i.op, ast.Not) and isinstance(i.operand, ast.Call) and call_name(i.operand) == "isinstance" and dotted(i.operand.args[0]) == vname and dotted(i.operand.args[1]) == "_Sentinel"]
        ctx.check(bool(filt) and len(gen.ifs) == 1, c, "only explicitly given (non-sentinel) entries override the inherited ones", "override filter is %s" % [unparse(i) for i in gen.ifs])
        ctx.check(isinstance(gen.iter, ast.Call) and call_name(gen.iter) == "new_config.items", c, "entries come from new_config")
        ctx.check(dotted(a0.key) == gen.target.elts[0].id and dotted(a0.value) == vname, c, "keys and values are copied unchanged")
    for lp, s_ in loops_:
        kname, vname = (lp.target.elts[0].id, lp.target.elts[1].id) if isinstance(lp.target, ast.Tuple) and len(lp.target.elts) == 2 else (None, None)
        facts = g.fact_set(g.nodes_of(s_))
        ctx.check(("isinstance(%s, _Sentinel)" % vname, False) in facts and len([f_ for f_ in facts if vname and vname in str(f_[0])]) == 1, s_,
                  "only explicitly given (non-sentinel) entries override the inherited ones", "the override loop stores an entry under %s" % sorted(facts))
        ctx.check(isinstance(lp.iter, ast.Call) and call_name(lp.iter) == "new_config.items", s_, "entries come from new_config")
        tgt = [t for t in s_.targets if isinstance(t, ast.Subscript)][0]
        ctx.check(dotted(tgt.slice) == kname and dotted(s_.value) == vname, s_, "keys and values are copied unchanged")
    for n in body_walk(init):
        if isinstance(n, ast.Subscript) and dotted(n.value) == "self.old_parallel_config" and isinstance(n.ctx, (ast.Store, ast.Del)):
            ctx.bad(n, "the previous configuration dict is mutated")
        if isinstance(n, ast.Call) and call_name(n) in ("self.old_parallel_config.update", "self.old_parallel_config.pop", "self.old_parallel_config.clear"):
            ctx.bad(n, "the previous configuration dict is mutated")


def priority(ctx):
    f = ctx.repo.func(PAR, "_get_config_param")
    g = cfg_of(f)
    p, cc, k = [a.arg for a in f.args.args]
    dflt = "default_parallel_config[%s]" % k

    def is_explicit(t):
        return unparse(t) == "%s is not %s" % (p, dflt)

    def is_ctx(t):
        return unparse(t) == "%s[%s] is not %s" % (cc, k, dflt)
    rets = nodes_of_type(f, ast.Return)
    ctx.need(len(rets) >= 3, "fewer than three returns in _get_config_param")
    seen = set()
    for r in rets:
        conds = [(t, pol) for (_, t, pol) in g.conditions_at(g.nodes_of(r))]
        v = unparse(r.value)
        if v == p:
            seen.add("explicit")
            ctx.check(any(is_explicit(t) and pol for t, pol in conds) and len(conds) == 1, r, "explicit value returned iff the parameter is not its sentinel (first test)")
        elif v == "%s[%s]" % (cc, k):
            seen.add("context")
            ctx.check(any(is_explicit(t) and not pol for t, pol in conds) and any(is_ctx(t) and pol for t, pol in conds), r, "context value returned only when nothing explicit was given and the context sets the key")
        elif v == "%s.default_value" % p or v == "%s.default_value" % dflt:
            seen.add("default")
            ctx.check(any(is_explicit(t) and not pol for t, pol in conds) and any(is_ctx(t) and not pol for t, pol in conds), r, "default returned only when neither explicit nor context value exists")
        else:
            ctx.bad(r, "unexpected return %s in _get_config_param" % v)
    ctx.check(seen == {"explicit", "context", "default"}, f, "explicit > context > default: all three outcomes present")


    # the last fallback of n_jobs is the default of the backend that was CHOSEN for this Parallel (the one stored as
    # self._backend), not of whatever backend is active in the context
    init_ = ctx.repo.func(PAR, "Parallel.__init__")
    sb = [a for a in assigns_to(init_, "self._backend")]
    chosen = dotted(sb[0].value) if sb else None
    dn = [a for a in nodes_of_type(init_, ast.Assign) if "n_jobs" in stores_to(a) and isinstance(a.value, ast.Attribute) and a.value.attr == "default_n_jobs"]
    ctx.check(bool(dn) and chosen is not None and all(dotted(a.value.value) == chosen for a in dn), dn[0] if dn else init_, "the n_jobs fallback is %s.default_n_jobs, the backend stored as self._backend" % chosen,
              "the n_jobs fallback reads %s.default_n_jobs, but the backend used by this Parallel is `%s`" % ([dotted(a.value.value) for a in dn], chosen))

def _dict_literal_keys(node):
    if isinstance(node, ast.Dict):
        return [const_value(k) for k in node.keys]
    return None


def keys(ctx):
    m = ctx.repo.mod(PAR)
    d = [a for a in m.tree.body if isinstance(a, ast.Assign) and any(isinstance(t, ast.Name) and t.id == "default_parallel_config" for t in a.targets)]
    ctx.need(len(d) == 1 and isinstance(d[0].value, ast.Dict), "default_parallel_config literal not found")
    dk = _dict_literal_keys(d[0].value)
    for k_, v in zip(d[0].value.keys, d[0].value.values):
        ctx.check(isinstance(v, ast.Call) and call_name(v) == "_Sentinel", k_, "default for %r is a _Sentinel" % const_value(k_))
    init = F(ctx, "parallel_config.__init__")
    sp = _sentinel_params(init)
    ctx.check(set(sp) == set(dk) and all(k_ == v for k_, v in sp.items()), init, "sentinel-defaulted parameters of parallel_config.__init__ = keys of default_parallel_config (%d), each defaulting to its own key" % len(dk),
              "parallel_config.__init__ sentinel parameters %s != default keys %s" % (sorted(sp.items()), sorted(dk)))
    nc = [a for a in nodes_of_type(init, ast.Assign) if "new_config" in stores_to(a)]
    ctx.need(nc and isinstance(nc[0].value, ast.Dict), "new_config literal not found")
    items = dict_items(nc[0].value)
    ctx.check(set(items) == set(dk), nc[0], "new_config has exactly the default keys", "new_config keys %s != %s" % (sorted(items), sorted(dk)))
    for k_, v in items.items():
        ctx.check(dotted(v) == k_, nc[0], "new_config[%r] is the parameter %s" % (k_, k_), "new_config[%r] = %s" % (k_, unparse(v)), key=PAR + "::parallel_config.__init__::new_config[%s]" % k_)
    pinit = F(ctx, "Parallel.__init__")
    psp = _sentinel_params(pinit)
    ctx.check(set(psp) == set(dk) and all(k_ == v for k_, v in psp.items()), pinit, "Parallel.__init__ has the same sentinel-defaulted parameters, each with its own key")
    resolved = set()
    for c in calls_in(pinit):
        if call_name(c) == "_get_config_param" and len(c.args) == 3:
            a0, a2 = c.args[0], c.args[2]
            if isinstance(a0, ast.Name) and isinstance(a2, ast.Constant):
                ctx.check(a0.id == a2.value, c, "_get_config_param(%s, ..., %r): variable and key agree" % (a0.id, a2.value), "parameter %s is resolved under key %r" % (a0.id, a2.value))
                resolved.add(a0.id)
            elif isinstance(a0, ast.Name) and isinstance(a2, ast.Name):
                # comprehension form: for param, k in [(max_nbytes, "max_nbytes"), ...]
                for comp in ast.walk(pinit):
                    if isinstance(comp, (ast.comprehension, ast.For)) and isinstance(comp.iter, (ast.List, ast.Tuple)) and isinstance(comp.target, ast.Tuple) and [dotted(e) for e in comp.target.elts] == [a0.id, a2.id]:
                        for e in comp.iter.elts:
                            ctx.check(isinstance(e, ast.Tuple) and dotted(e.elts[0]) == const_value(e.elts[1]), e, "(%s, %r) pair: variable and key agree" % (dotted(e.elts[0]), const_value(e.elts[1])),
                                      "pair %s resolves a parameter under another key" % unparse(e))
                            resolved.add(dotted(e.elts[0]))
    gab = [c for c in calls_in(pinit) if call_name(c) == "_get_active_backend"]
    ctx.need(gab, "Parallel.__init__ no longer calls _get_active_backend")
    for c in gab:
        for kw in c.keywords:
            ctx.check(dotted(kw.value) == kw.arg, c, "_get_active_backend(%s=%s)" % (kw.arg, kw.arg), "_get_active_backend receives %s=%s" % (kw.arg, unparse(kw.value)))
            resolved.add(kw.arg)
    missing = set(psp) - resolved - {"backend"}
    ctx.check(not missing, pinit, "every sentinel-defaulted parameter of Parallel.__init__ is resolved through _get_config_param/_get_active_backend", "never resolved: %s" % sorted(missing))
    # only default_parallel_config creates sentinels
    n = 0
    for rel, mod in ctx.repo.modules.items():
        for node in ast.walk(mod.tree):
            if isinstance(node, ast.Call) and call_name(node) == "_Sentinel":
                n += 1
                ok = rel == PAR and any(a is d[0] for a in ancestors(node))
                ctx.check(ok, node, "_Sentinel created inside default_parallel_config", "_Sentinel created elsewhere")
    ctx.floor(n, 8, "_Sentinel constructions")


def _raw_uses(ctx, fn, sp):
    """Uses of sentinel-defaulted parameters that may still hold the sentinel."""
    g = cfg_of(fn)
    out = []
    for pname, key in sp.items():
        # definitions that resolve the parameter
        resolving = []
        for a in nodes_of_type(fn, ast.Assign):
            if pname in stores_to(a):
                v = a.value
                if isinstance(v, ast.Call) and call_name(v) == "_get_config_param" and v.args and dotted(v.args[0]) == pname:
                    resolving.append(a)
                elif not (isinstance(v, ast.Subscript) and dotted(v.value) == "default_parallel_config"):
                    # any other re-binding (e.g. backend = active_backend) yields a non-sentinel
                    # unless it copies another raw parameter
                    if not (isinstance(v, ast.Name) and v.id in sp):
                        resolving.append(a)
        rn = g.nodes_of_all(resolving)

        def not_sentinel(test, pname=pname):
            """truth value of `test` that implies the parameter is not the sentinel"""
            def is_id(sub, op):
                return isinstance(sub, ast.Compare) and dotted(sub.left) == pname and len(sub.ops) == 1 and isinstance(sub.ops[0], op) and "default_parallel_config" in unparse(sub.comparators[0])
            if is_id(test, ast.Is) or (isinstance(test, ast.BoolOp) and isinstance(test.op, ast.Or) and any(is_id(v, ast.Is) for v in test.values)):
                return True   # assume the test true => drop the F edge? no: F edge means not sentinel
            return None
        ns_edges = set()
        for nd in g.nodes:
            if nd.kind != "test":
                continue
            t = nd.ast.test

            def is_id(sub, op):
                return isinstance(sub, ast.Compare) and dotted(sub.left) == pname and len(sub.ops) == 1 and isinstance(sub.ops[0], op) and "default_parallel_config" in unparse(sub.comparators[0])
            lab = None
            if is_id(t, ast.Is) or (isinstance(t, ast.BoolOp) and isinstance(t.op, ast.Or) and any(is_id(v, ast.Is) for v in t.values)):
                lab = "F"
            elif is_id(t, ast.IsNot) or (isinstance(t, ast.BoolOp) and isinstance(t.op, ast.And) and any(is_id(v, ast.IsNot) for v in t.values)):
                lab = "T"
            if lab:
                for (tt, l2) in nd.succ:
                    if l2 == lab:
                        ns_edges.add((nd.id, tt, l2))
        for n in body_walk(fn):
            if not (isinstance(n, ast.Name) and n.id == pname and isinstance(n.ctx, ast.Load)):
                continue
            p = parent(n)
            # (a) identity comparison
            if isinstance(p, ast.Compare) and all(isinstance(o, (ast.Is, ast.IsNot)) for o in p.ops):
                continue
            # (b) first argument of _get_config_param ; (c) same-named keyword of _get_active_backend
            if isinstance(p, ast.Call) and call_name(p) == "_get_config_param" and p.args and p.args[0] is n:
                continue
            if isinstance(p, ast.keyword) and p.arg == pname and isinstance(parent(p), ast.Call) and call_name(parent(p)) in ("_get_active_backend", "super().__init__"):
                continue
            if isinstance(p, ast.Call) and call_name(p) in ("_get_active_backend",):
                continue
            # (d) (param, "key") pair feeding the resolving comprehension / dict value filtered by isinstance(v, _Sentinel)
            if isinstance(p, ast.Tuple) and len(p.elts) == 2 and const_value(p.elts[1]) == key:
                continue
            if isinstance(p, ast.Dict) and isinstance(enclosing_stmt(n), ast.Assign) and "new_config" in stores_to(enclosing_stmt(n)):
                continue
            nodes = g.nodes_of(n)
            # (e)+(f): every path to the use passes a resolving definition or the
            # "is not the sentinel" edge of an identity test
            if not any(x in g.reach([g.entry], avoid=rn, avoid_edges=ns_edges) for x in nodes):
                continue
            out.append((pname, n))
    return out


def resolve_before_use(ctx):
    n_params = 0
    for q in ("Parallel.__init__", "_get_active_backend", "get_active_backend"):
        fn = F(ctx, q)
        sp = _sentinel_params(fn)
        n_params += len(sp)
        raw = _raw_uses(ctx, fn, sp)
        for pname, n in raw:
            ctx.bad(n, "sentinel-defaulted parameter `%s` is used raw (%s) before being resolved against the context: a value set by parallel_config is ignored here" % (pname, unparse(enclosing_stmt(n), 90)))
        ctx.ok(fn, "%s: %d sentinel-defaulted parameter(s) are only identity-tested, resolved, or used after resolution" % (q, len(sp)) if not raw else "%s scanned" % q)
    ctx.floor(n_params, 13, "sentinel-defaulted parameters")


def _inline(expr, fn, depth=3):
    """Substitute single-definition local names by their defining expression."""
    class T(ast.NodeTransformer):
        def visit_Name(self, node):
            if isinstance(node.ctx, ast.Load) and depth > 0:
                d = _single_defs(fn, node.id)
                if len(d) == 1 and not isinstance(d[0].value, ast.Call):
                    return _inline(d[0].value, fn, depth - 1)
                if len(d) == 1 and isinstance(d[0].value, ast.Call) and call_name(d[0].value) == "getattr":
                    return ast.Name(id=node.id, ctx=ast.Load())
            return node
    fresh = ast.parse(ast.unparse(expr), mode="eval").body  # detached copy (no parent links)
    return T().visit(fresh)


def sharedmem(ctx):
    f = ctx.repo.func(PAR, "_get_active_backend")
    g = cfg_of(f)
    target = None
    for n in nodes_of_type(f, ast.If):
        t = _inline(n.test, f)
        alts = t.values if isinstance(t, ast.BoolOp) and isinstance(t.op, ast.Or) else [t]
        for a in alts:
            if unparse(a) == "require == 'sharedmem' and (not supports_sharedmem)":
                target = n
    if target is None:
        ctx.bad(f, "no branch `require == 'sharedmem' and not supports_sharedmem` in _get_active_backend: the constraint is not enforced",
                key=PAR + "::_get_active_backend::sharedmem branch")
        return
    rets = [r for r in target.body if isinstance(r, ast.Return)]
    ctx.need(rets, "sharedmem branch does not return")
    r = rets[-1]
    first = r.value.elts[0] if isinstance(r.value, ast.Tuple) else r.value
    v = first
    if isinstance(first, ast.Name):
        d = [a for a in target.body if isinstance(a, ast.Assign) and first.id in stores_to(a)]
        v = d[0].value if d else first
    ok = isinstance(v, ast.Call) and isinstance(v.func, ast.Subscript) and dotted(v.func.value) == "BACKENDS" and dotted(v.func.slice) == "DEFAULT_THREAD_BACKEND"
    ctx.check(ok, r, "sharedmem without support => an instance of BACKENDS[DEFAULT_THREAD_BACKEND] is returned", "sharedmem fallback returns %s" % unparse(v))
    # `require` is resolved when tested
    res = [a for a in nodes_of_type(f, ast.Assign) if "require" in stores_to(a) and isinstance(a.value, ast.Call) and call_name(a.value) == "_get_config_param"]
    ctx.check(bool(res) and g.every_path_to(g.nodes_of(target), g.nodes_of_all(res)), target, "the tested `require` is the resolved one (explicit > context)")
    ss = _single_defs(f, "supports_sharedmem")
    ctx.check(len(ss) == 1 and unparse(ss[0].value) == "getattr(backend, 'supports_sharedmem', False)", ss[0] if ss else f, "support is read from the backend, defaulting to False")
    # class table
    m = ctx.repo.mod(PAR)
    dtb = [a for a in m.tree.body if isinstance(a, ast.Assign) and "DEFAULT_THREAD_BACKEND" in stores_to(a)]
    name = const_value(dtb[0].value) if dtb else None
    bk = [a for a in m.tree.body if isinstance(a, ast.Assign) and "BACKENDS" in stores_to(a)]
    cls_name = None
    if bk and isinstance(bk[0].value, ast.Dict):
        cls_name = dotted(dict_items(bk[0].value).get(name)) if name in dict_items(bk[0].value) else None
    ctx.check(cls_name is not None, dtb[0] if dtb else m.tree.body[0], "DEFAULT_THREAD_BACKEND %r names a registered backend class (%s)" % (name, cls_name))
    bmod = ctx.repo.mod(BK)
    n = 0
    for q, c in bmod.classes.items():
        sm = ctx.res.class_attr(BK, c, "supports_sharedmem")
        ut = ctx.res.class_attr(BK, c, "uses_threads")
        own = any(isinstance(s, ast.Assign) and "supports_sharedmem" in stores_to(s) for s in c.body)
        if sm is not None and is_const(sm, True):
            n += 1
            ctx.check(ut is not None and is_const(ut, True), c, "%s: supports_sharedmem => uses_threads" % q, "%s claims shared memory but is not thread-based" % q)
    ctx.floor(n, 2, "backends with supports_sharedmem")
    if cls_name:
        c = bmod.classes.get(cls_name)
        ctx.need(c is not None, "class %s not found" % cls_name)
        ctx.check(is_const(ctx.res.class_attr(BK, c, "supports_sharedmem"), True) and is_const(ctx.res.class_attr(BK, c, "uses_threads"), True), c,
                  "%s (the default thread backend) supports shared memory and uses threads" % cls_name)
    # Parallel.__init__ re-checks with the backend finally chosen
    pinit = F(ctx, "Parallel.__init__")
    chk = [n_ for n_ in nodes_of_type(pinit, ast.If) if "sharedmem" in unparse(n_.test) and any(isinstance(s, ast.Raise) for s in n_.body)]
    ctx.check(bool(chk) and "supports_sharedmem" in unparse(chk[0].test), chk[0] if chk else pinit, "Parallel.__init__ rejects an explicit backend without shared memory when sharedmem is required")
    if chk:
        cmp_ = [c_ for c_ in ast.walk(chk[0].test) if isinstance(c_, ast.Compare) and const_value(c_.comparators[0]) == "sharedmem"]
        lhs = cmp_[0].left if cmp_ else None
        ok = lhs is not None and unparse(lhs) == "self._backend_kwargs['require']"
        if lhs is not None and isinstance(lhs, ast.Name):
            d_ = _single_defs(pinit, lhs.id)
            ok = len(d_) == 1 and isinstance(d_[0].value, ast.Call) and call_name(d_[0].value) == "_get_config_param" and dotted(d_[0].value.args[0]) == "require"
        bk = [a_ for a_ in nodes_of_type(pinit, ast.Assign) if "self._backend_kwargs" in stores_to(a_)]
        ctx.check(ok, chk[0], "the constraint tested there is the RESOLVED require (explicit > context > default)",
                  "the shared-memory guard of Parallel.__init__ tests `%s`, not the resolved `require`: an explicit require='sharedmem' (or one from the context) can be missed" % (unparse(lhs) if lhs is not None else None))


def hint(ctx):
    f = ctx.repo.func(PAR, "_get_active_backend")
    n = 0
    for a in nodes_of_type(f, ast.Assign):
        if any(t in ("force_threads", "force_processes") for t in stores_to(a)):
            for sub in ast.walk(a.value):
                if isinstance(sub, ast.BoolOp) and isinstance(sub.op, ast.And) and any("prefer" in names_in(v) for v in sub.values if isinstance(v, ast.Compare)):
                    n += 1
                    ctx.check(any(unparse(v) == "not explicit_backend" for v in sub.values), a, "prefer=%s acts only when no backend was chosen explicitly" % [unparse(v) for v in sub.values if "prefer" in names_in(v)],
                              "prefer overrides an explicitly chosen backend")
    # (no instance floor here: the decision table below decides the forcing conditions as a whole)
    g = cfg_of(f)
    defs = [a for a in nodes_of_type(f, ast.Assign) if "explicit_backend" in stores_to(a)]
    ctx.need(defs, "explicit_backend is no longer computed in _get_active_backend")
    none_tests = [n_ for n_ in nodes_of_type(f, ast.If) if unparse(n_.test) == "backend is None"]
    for n_ in none_tests:
        mk = [a for a in n_.body if isinstance(a, ast.Assign) and "backend" in stores_to(a)]
        ctx.check(bool(mk) and unparse(mk[0].value) == "BACKENDS[DEFAULT_BACKEND](nesting_level=0)", mk[0] if mk else n_, "no backend anywhere => a fresh default backend at nesting level 0",
                  "when no backend is set, _get_active_backend does not create the default backend at nesting level 0")
    for a in defs:
        if is_const(a.value, False):
            conds = g.conditions_at(g.nodes_of(a))
            ctx.check(any(unparse(t) == "backend is None" and pol for (_, t, pol) in conds), a, "explicit_backend is False only when no backend is set in explicit arguments or context")
        elif is_const(a.value, True):
            ctx.check(bool(none_tests) and g.every_path_to(g.nodes_of_all(none_tests), g.nodes_of(a)), a, "explicit_backend starts True before the `backend is None` test")
        else:
            ok = unparse(a.value) in ("backend is not None", "not backend is None", "not (backend is None)")
            ctx.check(ok, a, "explicit_backend is `backend is not None`", "explicit_backend is computed as `%s`, not from whether a backend was set: prefer is wrongly ignored/applied" % unparse(a.value))
    for n_ in none_tests:
        fl = [a for a in n_.body if isinstance(a, ast.Assign) and "explicit_backend" in stores_to(a) and is_const(a.value, False)]
        already = any(not isinstance(a.value, ast.Constant) for a in defs)
        ctx.check(bool(fl) or already, n_, "no backend set => explicit_backend = False (so that prefer can act)",
                  "when no backend is set, explicit_backend is not cleared: prefer is ignored")
    for n_ in nodes_of_type(f, ast.If):
        if unparse(n_.test) == "force_processes":
            rets = [r for r in n_.body if isinstance(r, ast.Return)]
            ctx.check(bool(rets), n_, "prefer='processes' falls back to the default process backend")
    # decision table of the selection: the function's own expressions for force_threads / force_processes are folded
    # over every combination of (require, prefer, backend explicit?, backend shares memory?, backend uses threads?)
    from .. import table
    from ..core import Undecidable
    import itertools
    ft = [a for a in nodes_of_type(f, ast.Assign) if "force_threads" in stores_to(a)]
    fp = [a for a in nodes_of_type(f, ast.Assign) if "force_processes" in stores_to(a)]
    if len(ft) != 1 or len(fp) != 1:
        raise Undecidable("force_threads / force_processes are no longer single definitions")
    wrong = []
    rows = 0
    try:
        for require, prefer, explicit, shm, thr in itertools.product((None, "sharedmem"), (None, "threads", "processes"), (True, False), (True, False), (True, False)):
            if prefer == "processes" and require == "sharedmem":
                continue        # rejected earlier with ValueError
            env = {"require": require, "prefer": prefer, "explicit_backend": explicit, "supports_sharedmem": shm, "uses_threads": thr}
            got_t = bool(table.ev(ft[0].value, env, None))
            got_p = bool(table.ev(fp[0].value, env, None))
            want_t = (require == "sharedmem" and not shm) or (not explicit and prefer == "threads" and not thr)
            want_p = (not explicit) and prefer == "processes" and thr
            rows += 1
            if (got_t, got_p) != (want_t, want_p):
                wrong.append(((require, prefer, "explicit" if explicit else "default", "shm" if shm else "no-shm", "threads" if thr else "procs"), (got_t, got_p)))
    except table.Unknown as u:
        raise Undecidable("forcing conditions read `%s`, which the decision table does not model" % u)
    ctx.check(not wrong, ft[0], "decision table (%d rows): threads are forced exactly for an unmet sharedmem requirement or an unexplicit non-thread backend with prefer='threads'; processes exactly for an unexplicit thread backend with prefer='processes'" % rows,
              "backend selection is wrong for (require, prefer, backend, memory, kind) = %s" % wrong[:3])
    sup = [a for a in nodes_of_type(f, ast.Assign) if "supports_sharedmem" in stores_to(a)]
    ut = [a for a in nodes_of_type(f, ast.Assign) if "uses_threads" in stores_to(a)]
    ctx.check(len(sup) == 1 and unparse(sup[0].value) == "getattr(backend, 'supports_sharedmem', False)" and len(ut) == 1 and unparse(ut[0].value) == "getattr(backend, 'uses_threads', False)", sup[0] if sup else f,
              "the two backend traits are read from the candidate backend (absent = False)")
    g_ = cfg_of(f)
    for r in nodes_of_type(f, ast.Return):
        from ..core import cond_facts
        fc = [x for x in cond_facts(g_.conditions_at(g_.nodes_of(r))) if x[0] in ("force_threads", "force_processes")]
        first = r.value.elts[0] if isinstance(r.value, ast.Tuple) else r.value
        d_ = [a for a in nodes_of_type(f, ast.Assign) if isinstance(first, ast.Name) and first.id in stores_to(a)]
        src = unparse(d_[0].value, 200) if len(d_) == 1 and first.id != "backend" else unparse(first)
        if ("force_threads", True) in fc:
            ctx.check("DEFAULT_THREAD_BACKEND" in src, r, "forced threads => the default thread backend", "under force_threads the function returns %s" % src)
        elif ("force_processes", True) in fc:
            ctx.check("DEFAULT_PROCESS_BACKEND" in src and ("force_threads", False) in fc, r, "forced processes => the default process backend", "under force_processes the function returns %s" % src)
        else:
            ctx.check(unparse(first) == "backend" and ("force_threads", False) in fc and ("force_processes", False) in fc, r, "otherwise the candidate backend itself", "without forcing the function returns %s under %s" % (src, fc))


def passthrough(ctx):
    """Every outcome of _get_active_backend keeps the context configuration."""
    f = ctx.repo.func(PAR, "_get_active_backend")
    bc = _single_defs(f, "backend_config")
    ctx.check(len(bc) == 1 and unparse(bc[0].value) == "getattr(_backend, 'config', default_parallel_config)", bc[0] if bc else f,
              "the context configuration is read from the thread-local")
    rets = nodes_of_type(f, ast.Return)
    ctx.floor(len(rets), 3, "returns of _get_active_backend")
    for r in rets:
        ctx.need(isinstance(r.value, ast.Tuple) and len(r.value.elts) == 2, "return is not a (backend, config) pair")
        c = r.value.elts[1]
        v = c
        if isinstance(c, ast.Name) and c.id != "backend_config":
            d = _single_defs(f, c.id)
            v = d[0].value if len(d) == 1 else c
            # subscript stores into the copy: only n_jobs may be overridden
            for n in body_walk(f):
                if isinstance(n, ast.Subscript) and dotted(n.value) == c.id and isinstance(n.ctx, ast.Store):
                    ctx.check(const_value(n.slice) == "n_jobs", n, "the fallback configuration only overrides n_jobs", "the fallback configuration overrides %s" % unparse(n.slice))
        ok = unparse(v) in ("backend_config", "backend_config.copy()")
        ctx.check(ok, r, "returned configuration is the context configuration (or a copy of it)",
                  "returned configuration is %s: settings of the enclosing parallel_config are dropped on this path" % unparse(v))


def valid(ctx):
    f = ctx.repo.func(PAR, "_get_active_backend")
    g = cfg_of(f)
    for pname, table in (("prefer", "VALID_BACKEND_HINTS"), ("require", "VALID_BACKEND_CONSTRAINTS")):
        t = [n for n in nodes_of_type(f, ast.If) if unparse(n.test) == "%s not in %s" % (pname, table) and any(isinstance(s, ast.Raise) and call_name(s.exc) == "ValueError" for s in n.body)]
        ctx.check(bool(t), t[0] if t else f, "%s validated against %s (ValueError)" % (pname, table), "%s is not validated" % pname, key=None if t else PAR + "::_get_active_backend::validation of " + pname)
    c = [n for n in nodes_of_type(f, ast.If) if unparse(n.test) == "prefer == 'processes' and require == 'sharedmem'" and any(isinstance(s, ast.Raise) for s in n.body)]
    ctx.check(bool(c), c[0] if c else f, "prefer='processes' with require='sharedmem' raises", "the conflicting pair is not rejected", key=None if c else PAR + "::_get_active_backend::conflict test")
    m = ctx.repo.mod(PAR)
    for name, want in (("VALID_BACKEND_HINTS", {"processes", "threads", None}), ("VALID_BACKEND_CONSTRAINTS", {"sharedmem", None})):
        d = [a for a in m.tree.body if isinstance(a, ast.Assign) and name in stores_to(a)]
        vals = {const_value(e, "?") for e in d[0].value.elts} if d and isinstance(d[0].value, (ast.Tuple, ast.List, ast.Set)) else None
        ctx.check(vals == want, d[0] if d else m.tree.body[0], "%s = %s" % (name, sorted(map(str, want))))


def run(ctx):
    ctx.run("C17.TLS", "R-WHO", tls)
    ctx.run("C17.SAVE-RESTORE", "R-ORDER", save_restore)
    ctx.run("C17.LAYER", "R-FLOW", layer)
    ctx.run("C17.PRIORITY", "R-ORDER", priority)
    ctx.run("C17.KEYS", "R-TABLE", keys)
    ctx.run("C17.RESOLVE-BEFORE-USE", "R-FLOW", resolve_before_use)
    ctx.run("C17.SHAREDMEM", "R-TABLE/R-ORDER", sharedmem)
    ctx.run("C17.HINT", "R-ORDER", hint)
    ctx.run("C17.PASSTHROUGH", "R-FLOW", passthrough)
    ctx.run("C17.VALID", "R-TABLE", valid)
