"""C08 - joblib.hash is a deterministic, order-insensitive, type-discriminating digest."""

import ast
import copy
import symtable

from ..cfg import cfg_of
from ..core import (
    ancestors, assigns_to, body_walk, call_attr, call_name, calls_in, const_value, dotted, enclosing_func, enclosing_stmt,
    handler_catches, is_const, kwarg, nodes_of_type, parent, stores_to, unparse, walk_local, names_in, cond_facts,
)

HS = "joblib/hashing.py"
PROPERTY = "C08"
EXPLANATION = (
    "Static decision of the structural clauses of C08 on hashing.py: every builtin container whose default pickling "
    "iterates in hash order (dict, set, frozenset - reference fact about pickle._Pickler) has an order normaliser in "
    "Hasher, with distinguishable proxies per type; nothing seed-dependent (builtins.hash, id, repr of arbitrary objects) "
    "is reachable from the hasher - every call of the name `hash` inside hashing.py resolves to the module-level digest "
    "(symtable scoping); str/bytes are never memoised; the pickle protocol is a pinned integer literal and the digest "
    "covers the whole stream; hash names are restricted. Discrimination of differing leaves is pickle's and md5's and is "
    "NOT decided; sets whose elements are only partially ordered are outside these clauses (DESIGN.md section 10)."
    ' The digest returned by hash() is computed by a hasher constructed for that call on every path.'
)
ASSUMPTIONS = [
    "reference fact: pickle._Pickler saves dict via _batch_setitems and has dispatch entries save_set / save_frozenset iterating the container in hash order",
    "pickle protocol 3 opcode stream is a function of the value for the builtin scalar types",
]

UNORDERED = ["dict", "set", "frozenset"]


def _static_type(expr):
    """'set' for `set`, `type(set())`, `type(set([]))`; same for frozenset/dict."""
    d = dotted(expr)
    if d in ("set", "frozenset", "dict"):
        return d
    if isinstance(expr, ast.Call) and call_name(expr) == "type" and len(expr.args) == 1:
        a = expr.args[0]
        if isinstance(a, ast.Call) and call_name(a) in ("set", "frozenset", "dict"):
            return call_name(a)
        if isinstance(a, ast.Dict) and not a.keys:
            return "dict"
        if isinstance(a, ast.Set):
            return "set"
    return None


def _hasher(ctx):
    return ctx.repo.cls(HS, "Hasher")


def _sorted_feed(fn):
    """does the function feed something built by sorted(...) to the pickler?"""
    return [c for c in calls_in(fn) if call_name(c) == "sorted"]


def unordered(ctx):
    cls = _hasher(ctx)
    mod = ctx.repo.mod(HS)
    # dict
    bs = [m for m in cls.body if isinstance(m, ast.FunctionDef) and m.name == "_batch_setitems"]
    if not bs:
        ctx.bad(cls, "Hasher does not override _batch_setitems: dict items are hashed in insertion order", key=HS + "::Hasher::order normaliser for dict")
    else:
        f = bs[0]
        base = [c for c in calls_in(f) if call_name(c) == "Pickler._batch_setitems"]
        ok = bool(base) and all(any(call_name(x) == "sorted" for x in ast.walk(c.args[1])) for c in base if len(c.args) > 1)
        ctx.check(ok, f, "dict: every call of the base _batch_setitems is fed sorted(...) items", "dict items reach the pickler unsorted", key=HS + "::Hasher::order normaliser for dict")
        for c in base:
            s = [x for x in ast.walk(c.args[1]) if isinstance(x, ast.Call) and call_name(x) == "sorted"][0]
            ctx.check(kwarg(s, "reverse") is None and kwarg(s, "key") is None, c, "plain ascending sort of the items")
            # what is sorted: the items themselves, or pairs (something computed from the key, THE VALUE) - every key and
            # every value must still reach the digest
            src = s.args[0] if s.args else None
            items_p = f.args.args[1].arg if len(f.args.args) > 1 else None
            if isinstance(src, (ast.GeneratorExp, ast.ListComp)) and len(src.generators) == 1:
                gen = src.generators[0]
                tg = gen.target
                okp = isinstance(tg, ast.Tuple) and len(tg.elts) == 2 and all(isinstance(e, ast.Name) for e in tg.elts) and dotted(gen.iter) == items_p and not gen.ifs \
                    and isinstance(src.elt, ast.Tuple) and len(src.elt.elts) == 2 and dotted(src.elt.elts[1]) == tg.elts[1].id and tg.elts[0].id in names_in(src.elt.elts[0])
                ctx.check(bool(okp), c, "the fallback sorts (digest of the key, value) pairs of every item",
                          "the fallback feeds `%s` to the pickler: a key or a value of the dict no longer reaches the digest, so dicts that differ there share one digest" % unparse(src, 80))
            elif src is not None:
                ctx.check(dotted(src) == items_p, c, "the items themselves are sorted", "what is sorted is `%s`, not the dict's items" % unparse(src, 60))
        hs = [h for t in nodes_of_type(f, ast.Try) for h in t.handlers]
        ctx.check(any(handler_catches(h, ["TypeError"]) for h in hs), f, "unorderable keys fall back to sorting by the digest of the key")
    # dispatch table entries
    entries = {}
    for st in cls.body:
        if isinstance(st, ast.Assign):
            for t in st.targets:
                if isinstance(t, ast.Subscript) and dotted(t.value) == "dispatch":
                    ty = _static_type(t.slice)
                    if ty:
                        entries[ty] = (st, dotted(st.value))
    dsp = [st for st in cls.body if isinstance(st, ast.Assign) and "dispatch" in stores_to(st)]
    ctx.check(bool(dsp) and unparse(dsp[0].value) == "Pickler.dispatch.copy()", dsp[0] if dsp else cls, "Hasher.dispatch is a private copy of the pickler's table")
    proxies = {}
    for ty in ("set", "frozenset"):
        if ty not in entries:
            ctx.bad(cls, "%s has no dispatch entry in Hasher: its elements are pickled in hash order, which depends on PYTHONHASHSEED and insertion history "
                    "(the digest of a %s of strings changes from one process to the next)" % (ty, ty), key=HS + "::Hasher::order normaliser for " + ty)
            continue
        st, fname = entries[ty]
        fn = [m for m in cls.body if isinstance(m, ast.FunctionDef) and m.name == fname]
        ctx.need(fn, "dispatch[%s] refers to unknown function %s" % (ty, fname))
        saves = [c for c in calls_in(fn[0]) if call_name(c) in ("Pickler.save", "self.save")]
        ok = bool(saves) and isinstance(saves[0].args[-1], ast.Call)
        if not ok:
            ctx.bad(fn[0], "the normaliser registered for %s does not pickle a sorted proxy of the container: its elements never reach the digest in a canonical order" % ty, key=HS + "::Hasher::order normaliser for " + ty)
            continue
        proxy = call_name(saves[0].args[-1])
        proxies[ty] = proxy
        pc = mod.classes.get(proxy)
        ctx.need(pc is not None, "proxy class %s not found" % proxy)
        init = ctx.res.method(HS, pc, "__init__")
        srt = _sorted_feed(init) if init is not None else []
        ctx.check(bool(srt), st, "%s: dispatched to %s, which pickles proxy %s built from a sorted sequence" % (ty, fname, proxy),
                  "%s proxy %s does not sort its elements" % (ty, proxy), key=HS + "::Hasher::order normaliser for " + ty)
        ctx.check(dotted(saves[0].args[-1].args[0]) == fn[0].args.args[1].arg, saves[0], "the proxy is built from the container being saved")
    if len(proxies) == 2:
        ctx.check(proxies["set"] != proxies["frozenset"], cls, "set and frozenset use distinguishable proxies (%s / %s): type discrimination is kept" % (proxies["set"], proxies["frozenset"]),
                  "set and frozenset are normalised to the same proxy class: they would get the same digest")
    # proxies must not be picklable to the same thing as a builtin list etc.: they are plain classes with one attribute
    for ty, proxy in proxies.items():
        pc = mod.classes[proxy]
        init = ctx.res.method(HS, pc, "__init__")
        st_ = assigns_to(init, "self._sequence")
        ctx.check(bool(st_), st_[0] if st_ else pc, "%s stores the sorted elements in its state (pickled with the proxy class name)" % proxy)
        # the stored sequence is canonical: the OUTERMOST operation is a key-less ascending sort, of the elements
        # themselves (orderable case) or of their digests (fallback).  Sorting by a non-injective key (str, repr, type
        # name) leaves ties in iteration order, i.e. dependent on PYTHONHASHSEED and insertion history.
        for a_ in st_:
            v_ = a_.value
            is_sorted = isinstance(v_, ast.Call) and call_name(v_) == "sorted" and kwarg(v_, "key") is None and kwarg(v_, "reverse") is None and len(v_.args) == 1
            ctx.check(is_sorted, a_, "%s: the stored sequence is the result of a plain sorted(...)" % proxy,
                      "%s stores `%s`: the order of the stored elements is not a key-less sort of the elements or of their digests (ties / raw iteration order depend on the hash seed)" % (proxy, unparse(v_, 90)))
            if is_sorted and any(isinstance(x, ast.ExceptHandler) for x in ancestors(a_)):
                src_ = v_.args[0]
                elt = src_.elt if isinstance(src_, (ast.GeneratorExp, ast.ListComp)) else None
                ctx.check(elt is not None and isinstance(elt, ast.Call) and call_name(elt) == "hash" and len(src_.generators) == 1 and dotted(src_.generators[0].iter) == init.args.args[1].arg, a_,
                          "%s fallback: what is sorted are the digests of the elements of the container" % proxy, "%s fallback sorts `%s`, not the digests of the elements" % (proxy, unparse(src_, 80)))


def seed(ctx):
    mod = ctx.repo.mod(HS)
    table = symtable.symtable(mod.src, HS, "exec")
    top_hash = None
    try:
        top_hash = table.lookup("hash")
    except KeyError:
        pass
    ctx.check(top_hash is not None and top_hash.is_namespace(), mod.funcs.get("hash") or mod.tree.body[0], "module-level name `hash` is bound by `def hash` (the digest function)",
              "hashing.py no longer defines hash() at module level: inner calls of hash() would be builtins.hash", key=HS + "::<module>::def hash")

    # every scope: `hash` must be a global (not local, not a parameter)
    def scopes(t):
        yield t
        for c in t.get_children():
            yield from scopes(c)
    n = 0
    for sc in scopes(table):
        if sc is table:
            continue
        try:
            sym = sc.lookup("hash")
        except KeyError:
            continue
        if sc.get_type() == "class":
            # a method named `hash` on a class does not shadow the global inside other methods
            continue
        n += 1
        ctx.check(sym.is_global() and not sym.is_local() and not sym.is_parameter(), mod.funcs.get(sc.get_name(), mod.tree.body[0]),
                  "in scope %s the name `hash` resolves to the module-level digest" % sc.get_name(), "in scope %s the name `hash` is rebound locally" % sc.get_name(),
                  key="%s::%s::resolution of hash" % (HS, sc.get_name()))
    ctx.floor(n, 1, "scopes calling hash() inside hashing.py")
    # nothing else seed/identity dependent in the hasher classes
    banned = {"id", "repr", "builtins.hash", "object.__hash__", "random.random", "os.urandom", "time.time"}
    n_calls = 0
    for cname in ("Hasher", "_ConsistentSet", "_ConsistentFrozenSet", "_MyHash", "NumpyHasher"):
        c = mod.classes.get(cname)
        if c is None:
            continue
        for node in ast.walk(c):
            if isinstance(node, ast.Call):
                n_calls += 1
                cn = call_name(node)
                if cn in banned or (cn and cn.endswith(".__hash__")):
                    ctx.bad(node, "%s() is reachable from the hasher: the digest depends on the process (hash seed / addresses)" % cn)
    for node in ast.walk(mod.tree):
        if isinstance(node, (ast.Import, ast.ImportFrom)):
            for a in node.names:
                if a.name == "hash" or a.asname == "hash":
                    ctx.bad(node, "`hash` is imported: inner calls may resolve to another function")
    ctl = ast.parse("x = id(obj)")
    ctx.check(any(isinstance(nd, ast.Call) and call_name(nd) == "id" for nd in ast.walk(ctl)), mod.tree.body[0], "positive control matched; %d calls in the hasher classes scanned, none seed-dependent" % n_calls,
              key=HS + "::<hasher classes>::seed-independent")
    # fallbacks sort by digest
    for fn in [mod.funcs.get("_ConsistentSet.__init__"), mod.funcs.get("Hasher._batch_setitems")]:
        if fn is None:
            continue
        for h in [h for t in nodes_of_type(fn, ast.Try) for h in t.handlers]:
            cs = [c for s in h.body for c in calls_in(s) if call_name(c) == "hash"]
            # equivalent form: a FRESH hasher per element, `<HasherClass>(...).hash(x)` built inside the per-element
            # expression (a hasher shared between elements carries its pickle memo from one key to the next)
            hasher_names = {"Hasher", "NumpyHasher", "type(self)", "self.__class__"}
            for a_ in nodes_of_type(fn, ast.Assign):
                if len(a_.targets) == 1 and isinstance(a_.targets[0], ast.Name) and unparse(a_.value) in hasher_names:
                    hasher_names.add(a_.targets[0].id)
            fresh = [c for s in h.body for c in calls_in(s) if call_attr(c) == "hash" and isinstance(c.func, ast.Attribute) and isinstance(c.func.value, ast.Call) and unparse(c.func.value.func) in hasher_names
                     and any(isinstance(x, (ast.GeneratorExp, ast.ListComp)) for x in ancestors(c))]
            ctx.check(bool(cs) or bool(fresh), h, "the unorderable fallback in %s sorts by the joblib digest of each element (%s)" % (fn._qualname, "hash(x)" if cs else "a fresh hasher per element"),
                      "fallback in %s does not sort by a digest computed independently for each element" % fn._qualname)
    # constructor calls with positional arguments must hit hash_name in every class the callee may denote
    classes = {cn: mod.classes.get(cn) for cn in ("Hasher", "NumpyHasher")}
    first = {}
    for cn, c_ in classes.items():
        init = ctx.res.method(HS, c_, "__init__") if c_ is not None else None
        first[cn] = init.args.args[1].arg if init is not None and len(init.args.args) > 1 else None
    for q_, fn_ in mod.funcs.items():
        local_alias = {}
        for a_ in nodes_of_type(fn_, ast.Assign):
            if len(a_.targets) == 1 and isinstance(a_.targets[0], ast.Name) and unparse(a_.value) in ("type(self)", "self.__class__", "Hasher", "NumpyHasher"):
                local_alias[a_.targets[0].id] = unparse(a_.value)
        for c in calls_in(fn_):
            callee = unparse(c.func)
            callee = local_alias.get(callee, callee)
            if callee in ("Hasher", "NumpyHasher"):
                targets = [callee]
            elif callee in ("type(self)", "self.__class__") and q_.split(".")[0] in ("Hasher", "NumpyHasher"):
                targets = ["Hasher", "NumpyHasher"]
            else:
                continue
            if c.args:
                ctx.check(all(first.get(t_) == "hash_name" for t_ in targets), c, "%s(<positional>) reaches hash_name in %s" % (callee, "/".join(targets)),
                          "%s is called with a positional argument in %s, but the first parameter of %s.__init__ is `%s`: the digest algorithm is silently replaced by the default" % (
                              callee, q_, [t_ for t_ in targets if first.get(t_) != "hash_name"][:1], [first.get(t_) for t_ in targets if first.get(t_) != "hash_name"][:1]))


def memo(ctx):
    f = ctx.repo.func(HS, "Hasher.memoize")
    g = cfg_of(f)
    base = [c for c in calls_in(f) if call_name(c) == "Pickler.memoize"]
    ctx.need(base, "Hasher.memoize no longer delegates to Pickler.memoize")
    # shape-independent: the parent memoize is reached only under the fact `isinstance(obj, (bytes, str))` = False (guard
    # clause with return, or the call wrapped in the negated test - the same function)
    objp = f.args.args[1].arg
    for c in base:
        facts = [(t_, p_) for (_, t_, p_) in g.atoms_at(g.nodes_of(c)) if isinstance(t_, ast.Call) and call_name(t_) == "isinstance" and len(t_.args) == 2]
        guards = [(t_, p_) for (t_, p_) in facts if not p_]
        if not guards:
            ctx.bad(c, "str/bytes are memoised: two equal but distinct string objects hash differently from one shared object", key=HS + "::Hasher.memoize::str/bytes guard")
            continue
        t_ = guards[0][0]
        tys = t_.args[1]
        names = {dotted(e) for e in (tys.elts if isinstance(tys, ast.Tuple) else [tys])}
        ctx.check({"str", "bytes"} <= names, c, "memoisation is skipped for both str and bytes", "memoisation guard only covers %s" % sorted(names))
        ctx.check(dotted(t_.args[0]) == objp, c, "the guard tests the object being memoised")
        ctx.ok(c, "Pickler.memoize is reached only for objects that are not str/bytes")


def proto(ctx):
    f = ctx.repo.func(HS, "Hasher.__init__")
    cs = [c for c in calls_in(f) if call_name(c) == "Pickler.__init__"]
    if not cs:
        ctx.bad(f, "Hasher.__init__ does not initialise the pickler on its own stream with a pinned protocol", key=HS + "::Hasher.__init__::Pickler.__init__")
    for c in cs:
        p = kwarg(c, "protocol", 2)
        v = p
        if isinstance(p, ast.Name):
            d = [a for a in nodes_of_type(f, ast.Assign) if p.id in stores_to(a)]
            v = d[0].value if len(d) == 1 else p
        ctx.check(isinstance(v, ast.Constant) and isinstance(v.value, int), c, "the pickle protocol is the integer literal %s (not DEFAULT/HIGHEST_PROTOCOL, which vary with the interpreter)" % unparse(v),
                  "the pickle protocol is %s: digests change with the Python version" % (unparse(v) if v is not None else "the interpreter default"))
        own = len(c.args) >= 2 and (dotted(c.args[1]) == "self.stream" or (isinstance(c.args[1], ast.Name) and any(isinstance(a_.value, ast.Name) and a_.value.id == c.args[1].id for a_ in assigns_to(f, "self.stream"))))
        ctx.check(own, c, "the pickler writes into the hasher's own stream")
    hh = assigns_to(f, "self._hash")
    ctx.check(bool(hh) and isinstance(hh[0].value, ast.Call) and call_name(hh[0].value) == "hashlib.new" and dotted(hh[0].value.args[0]) == f.args.args[1].arg, hh[0] if hh else f, "digest object = hashlib.new(hash_name)")
    h = ctx.repo.func(HS, "Hasher.hash")
    g = cfg_of(h)
    dump = [c for c in calls_in(h) if call_name(c) == "self.dump"]
    upd = [c for c in calls_in(h) if call_name(c) == "self._hash.update"]
    ctx.check(bool(dump) and bool(upd) and g.every_path_to(g.nodes_of_all(upd), g.nodes_of_all(dump)), upd[0] if upd else h, "the whole pickled stream is fed to the digest after dumping")
    def _is_stream(e):
        if dotted(e) == "self.stream":
            return True
        if isinstance(e, ast.Name):
            d_ = [a for a in nodes_of_type(h, ast.Assign) if e.id in stores_to(a)]
            return len(d_) == 1 and dotted(d_[0].value) == "self.stream"
        return False
    gv = [a for a in nodes_of_type(h, ast.Assign) if isinstance(a.value, ast.Call) and isinstance(a.value.func, ast.Attribute) and a.value.func.attr == "getvalue" and _is_stream(a.value.func.value)]
    direct = bool(upd) and isinstance(upd[0].args[0], ast.Call) and isinstance(upd[0].args[0].func, ast.Attribute) and upd[0].args[0].func.attr == "getvalue" and _is_stream(upd[0].args[0].func.value)
    ctx.check(direct or (bool(gv) and upd and dotted(upd[0].args[0]) == gv[0].targets[0].id), gv[0] if gv else h, "digest input is stream.getvalue() (no truncation)")
    rd = [r for r in nodes_of_type(h, ast.Return) if isinstance(r.value, ast.Call) and call_name(r.value) == "self._hash.hexdigest"]
    ctx.check(bool(rd), h, "the hex digest is returned", "Hasher.hash does not return the hex digest")
    for r in rd:
        facts = cond_facts(g.conditions_at(g.nodes_of(r)))
        ctx.check(all(f == (h.args.args[2].arg, True) for f in facts), r, "whenever a digest is requested (%s)" % (facts or "unconditionally"), "the digest is returned under %s" % facts)
    for hd in [x for t_ in nodes_of_type(h, ast.Try) for x in t_.handlers]:
        from ..core import handler_reraises
        ctx.check(handler_reraises(hd), hd, "a pickling error aborts the digest (no digest of a partial stream)", "Hasher.hash swallows %s: the digest of a partially pickled value is returned" % (unparse(hd.type) if hd.type else "every exception"))
    top = ctx.repo.func(HS, "hash")
    t = [n for n in nodes_of_type(top, ast.If) if "hash_name not in" in unparse(n.test) and any(isinstance(s, ast.Raise) for s in n.body)]
    vn = [a for a in nodes_of_type(top, ast.Assign) if "valid_hash_names" in stores_to(a)]
    ctx.check(bool(t) and vn and {const_value(e) for e in vn[0].value.elts} == {"md5", "sha1"} and unparse(t[0].test) == "hash_name not in valid_hash_names", t[0] if t else top, "hash() accepts exactly md5 and sha1",
              "hash() does not reject exactly the names outside (md5, sha1)")
    hc = [c for c in calls_in(top) if call_name(c) in ("Hasher", "NumpyHasher")]
    ctx.check(len(hc) == 2 and all(dotted(kwarg(c, "hash_name")) == "hash_name" for c in hc), hc[0] if hc else top, "the requested hash name reaches the hasher")
    ctx.check(any(isinstance(r.value, ast.Call) and call_name(r.value) == "hasher.hash" and dotted(r.value.args[0]) == top.args.args[0].arg for r in nodes_of_type(top, ast.Return)), top, "hash(obj) digests obj itself")


def no_collapse(ctx):
    cls = _hasher(ctx)
    f = ctx.repo.func(HS, "Hasher.save")
    g = cfg_of(f)
    rebinds = [a for a in nodes_of_type(f, ast.Assign) if f.args.args[1].arg in stores_to(a)]
    t = [n for n in nodes_of_type(f, ast.If) if isinstance(n.test, ast.Call) and call_name(n.test) == "isinstance"]
    ctx.need(t, "Hasher.save type test not found")
    tys = t[0].test.args[1]
    names = [unparse(e) for e in (tys.elts if isinstance(tys, ast.Tuple) else [tys])]
    ctx.check(names == ["types.MethodType", "type({}.pop)"], t[0], "Hasher.save only rewrites bound methods / builtin methods (%s)" % names, "Hasher.save rewrites objects of types %s" % names)
    for a in rebinds:
        ctx.check(isinstance(a.value, ast.Call) and call_name(a.value) == "_MyHash" and any(i is t[0] for i in ancestors(a)), a, "methods are replaced by a _MyHash(name, instance[, class]) proxy")
    # what identifies the method: its name and its receiver - the module's NAME for a module-level builtin, the
    # instance itself (and its class) otherwise.  Anything coarser merges same-named methods of different receivers.
    obj_ = f.args.args[1].arg
    # decided over the three kinds of receiver (none / a module / any other object), whatever the order and spelling
    # of the branches: the receiver tests of the function itself are folded over each case (sa/table.py)
    from ..table import taken, Unknown
    isinst = unparse(t[0].test, 400)
    cases = {
        "None": ({"inst is None": True, "inst is not None": False, "type(inst) is type(pickle)": False, "type(inst) is not type(pickle)": True, "inst": None},
                 ["func_name", "inst"], "an unbound builtin by (function name, None)"),
        "module": ({"inst is None": False, "inst is not None": True, "type(inst) is type(pickle)": True, "type(inst) is not type(pickle)": False, "inst": "<module>"},
                   ["func_name", "inst.__name__"], "a builtin of a module is identified by (function name, module name)"),
        "object": ({"inst is None": False, "inst is not None": True, "type(inst) is type(pickle)": False, "type(inst) is not type(pickle)": True, "inst": "<object>"},
                   ["func_name", "inst", "cls"], "a bound method by (function name, instance, class)"),
    }
    proxies = [a for a in rebinds if isinstance(a.value, ast.Call) and call_name(a.value) == "_MyHash"]
    for kind, (env, want, good) in cases.items():
        env = dict(env)
        env[str(isinst)] = True
        try:
            hit = [a for a in proxies if taken(g, a, env, f, ignore=lambda tt: "inst" not in names_in(tt) and unparse(tt, 400) != isinst)]
        except Unknown as e:
            from ..core import Undecidable
            raise Undecidable("receiver tests of Hasher.save not understood: %s" % e)
        if len(hit) != 1:
            ctx.bad(f, "a method whose receiver is %s gets %d proxies (%s): methods of different receivers share one digest, or the method is pickled by reference" % (kind, len(hit), [unparse(a.value) for a in hit]),
                    key=HS + "::Hasher.save::proxy for receiver " + kind)
            continue
        # compared after expanding the single-assignment locals `inst` / `cls` (so `cls`, `inst.__class__` and
        # `obj.__self__.__class__` are one spelling)
        def _expand(e):
            e = ast.parse(ast.unparse(e), mode="eval").body
            for _ in range(3):
                for n_ in ast.walk(e):
                    for fld, val in ast.iter_fields(n_):
                        if isinstance(val, ast.Name) and val.id in ("inst", "cls"):
                            dd = [a for a in nodes_of_type(f, ast.Assign) if val.id in stores_to(a)]
                            if len(dd) == 1:
                                setattr(n_, fld, ast.parse(ast.unparse(dd[0].value), mode="eval").body)
                if isinstance(e, ast.Name) and e.id in ("inst", "cls"):
                    dd = [a for a in nodes_of_type(f, ast.Assign) if e.id in stores_to(a)]
                    if len(dd) == 1:
                        e = ast.parse(ast.unparse(dd[0].value), mode="eval").body
            return str(unparse(e))
        subst = {"inst": obj_ + ".__self__", "cls": obj_ + ".__self__.__class__", "inst.__name__": obj_ + ".__self__.__name__"}
        args_ = [_expand(x) for x in hit[0].value.args]
        want = [subst.get(w, w) for w in want]
        ctx.check(args_ == want, hit[0], good, "a method whose receiver is %s is hashed as _MyHash(%s): same-named methods of different receivers share one digest" % (kind, ", ".join(args_)))
    for nm, want in (("inst", obj_ + ".__self__"), ("cls", obj_ + ".__self__.__class__")):
        d_ = [a for a in nodes_of_type(f, ast.Assign) if nm in stores_to(a)]
        if not d_ and nm == "cls":
            continue   # inlined: the proxy arguments were compared in expanded form above
        ctx.check(bool(d_) and all(unparse(a.value) in (want, want.replace(obj_ + ".__self__", "inst")) for a in d_), d_[0] if d_ else f, "%s = %s" % (nm, want), "%s is computed as %s" % (nm, [unparse(a.value) for a in d_]))
    fn_defs = [a for a in nodes_of_type(f, ast.Assign) if "func_name" in stores_to(a)]
    ctx.check(len(fn_defs) >= 1 and all(unparse(a.value) in (obj_ + ".__func__.__name__", obj_ + ".__name__") for a in fn_defs), fn_defs[0] if fn_defs else f, "func_name is the method's own name")
    base = [c for c in calls_in(f) if call_name(c) == "Pickler.save"]
    ctx.check(bool(base) and g.every_path_from([g.entry], g.nodes_of_all(base)), base[0] if base else f, "everything else goes to the base pickler unchanged, on every path")
    # dispatch overrides: enumerate
    over = []
    for st in cls.body:
        if isinstance(st, ast.Assign):
            for tg in st.targets:
                if isinstance(tg, ast.Subscript) and dotted(tg.value) == "dispatch":
                    over.append((unparse(tg.slice), dotted(st.value), st))
    allowed_global = {"type(len)", "type(object)", "type(Pickler)", "type(pickle.dump)"}
    for key, fn, st in over:
        if fn == "save_global":
            ctx.check(key in allowed_global, st, "dispatch[%s] -> save_global (functions/classes hashed by qualified name)" % key, "dispatch[%s] -> save_global collapses values of that type to their type name" % key)
        else:
            ty = _static_type(st.targets[0].slice)
            ctx.check(ty in ("set", "frozenset"), st, "dispatch[%s] -> %s (order normaliser)" % (key, fn), "unexpected dispatch override for %s" % key)
    ctx.floor(len(over), 5, "dispatch overrides")
    # no reducer_override / persistent_id tricks
    for m in cls.body:
        if isinstance(m, ast.FunctionDef):
            ctx.check(m.name not in ("reducer_override", "persistent_id", "save_reduce", "save_long", "save_float", "save_bool", "save_str", "save_bytes", "save_tuple", "save_list"), m,
                      "method %s is not a scalar/sequence saver override" % m.name, "Hasher overrides %s: values of a builtin type may be mapped to one representation" % m.name)


def feed_total(ctx):
    """Every value handed to a hook of the Hasher hierarchy reaches the digest: each overriding method passes, on
    every normal path, through a call of the parent implementation (or a direct update of the digest).  A path that
    returns without feeding anything makes all values routed there share one digest."""
    mod = ctx.repo.mod(HS)
    n = 0
    for cname, parents in (("Hasher", ("Pickler",)), ("NumpyHasher", ("Hasher", "Pickler"))):
        cls = mod.classes.get(cname)
        ctx.need(cls is not None, "class %s not found" % cname)
        for m in cls.body:
            if not isinstance(m, ast.FunctionDef) or m.name in ("__init__", "hash"):
                continue
            g = cfg_of(m)
            feeds = [c for c in calls_in(m) if (call_name(c) or "").split(".")[0] in parents and len(c.args) >= 1 and dotted(c.args[0]) == "self"] + \
                    [c for c in calls_in(m) if call_name(c) == "self._hash.update"]
            exempt = set()
            if m.name == "memoize":
                # the one intended non-feeding path: str/bytes are not memoised (C08.MEMO decides its test)
                for r in nodes_of_type(m, ast.Return):
                    if any(isinstance(t, ast.Call) and call_name(t) == "isinstance" and pol for (_, t, pol) in g.conditions_at(g.nodes_of(r))):
                        exempt.update(g.nodes_of(r))
                # the same exemption when the parent call is wrapped in the negated test: the false edge of
                # `if not isinstance(obj, (bytes, str))` is the str/bytes path
                for n_ in g.nodes:
                    if n_.kind == "test" and isinstance(n_.ast, ast.If):
                        t_, pol_ = n_.ast.test, True
                        while isinstance(t_, ast.UnaryOp) and isinstance(t_.op, ast.Not):
                            t_, pol_ = t_.operand, not pol_
                        if isinstance(t_, ast.Call) and call_name(t_) == "isinstance":
                            exempt.update(g.label_succ(n_.id, "T" if pol_ else "F"))
            n += 1
            ok = bool(feeds) and g.every_path_from([g.entry], set(g.nodes_of_all(feeds)) | exempt, None, skip_exc=False)
            ctx.check(ok, m, "%s.%s: every normal path feeds the parent pickler / the digest" % (cname, m.name),
                      "%s.%s can return without handing the value to the parent pickler or the digest: every value routed through that path gets the same digest" % (cname, m.name))
            if m.name == "save":
                arg = m.args.args[1].arg
                last = [c for c in feeds if call_name(c) in ("Pickler.save", "Hasher.save")]
                ctx.check(bool(last) and all(dotted(c.args[1]) == arg for c in last), last[0] if last else m, "%s.save hands `%s` (possibly replaced by a proxy) to the parent" % (cname, arg),
                          "%s.save does not hand the saved object to the parent" % cname)
    ctx.floor(n, 7, "hook overrides in Hasher/NumpyHasher")
    # proxies keep their payload
    for pname, attr in (("_ConsistentSet", "_sequence"), ("_MyHash", "args")):
        pc = mod.classes.get(pname)
        ctx.need(pc is not None, "proxy class %s not found" % pname)
        init = ctx.res.method(HS, pc, "__init__")
        g = cfg_of(init)
        st = assigns_to(init, "self." + attr)
        ctx.check(bool(st) and g.every_path_from([g.entry], g.nodes_of_all(st), None), st[0] if st else init, "%s keeps its payload in self.%s on every path (it is what gets pickled)" % (pname, attr),
                  "%s.__init__ can finish without storing self.%s: every proxied value pickles to the same bytes" % (pname, attr))
    # numpy arrays (reached by Memory arguments): data bytes and a (class, dtype, shape, strides) descriptor
    ns = ctx.repo.func(HS, "NumpyHasher.save")
    g = cfg_of(ns)
    arr = [i for i in nodes_of_type(ns, ast.If) if "self.np.ndarray" in unparse(i.test, 400)]
    ctx.need(arr, "ndarray branch of NumpyHasher.save not found")
    fa = cond_facts([(arr[0], arr[0].test, True)])
    ctx.check(set(fa) == {("isinstance(obj, self.np.ndarray)", True), ("obj.dtype.hasobject", False)}, arr[0], "the raw-bytes branch is taken exactly for ndarrays without object dtype",
              "the raw-bytes branch of NumpyHasher.save is taken under %s" % fa)
    dt = [i for i in nodes_of_type(ns, ast.If) if "self.np.dtype" in unparse(i.test, 300)]
    for i in dt:
        ctx.check(unparse(i.test) == "isinstance(obj, self.np.dtype)" and any(call_name(c) == "self._hash.update" for c in calls_in(ast.Module(body=i.body, type_ignores=[]))), i,
                  "dtype objects are digested in isolation (no pickle memo interference)", "the dtype branch is taken under `%s`" % unparse(i.test))
    upd = [c for c in calls_in(ns) if call_name(c) == "self._hash.update" and any(i is arr[0] for i in ancestors(c)) and in_block_of(c, arr[0].body)]
    desc = [a for a in nodes_of_type(ns, ast.Assign) if isinstance(a.value, ast.Tuple) and in_block_of(a, arr[0].body) and ns.args.args[1].arg in stores_to(a)]
    ctx.check(bool(upd) and bool(desc) and g.every_path_to(g.nodes_of_all(desc), g.nodes_of_all(upd)), upd[0] if upd else arr[0], "ndarray: the data bytes are fed to the digest before the descriptor replaces the array",
              "ndarray: the array's bytes no longer reach the digest (arrays of equal shape and dtype collide)")
    if upd:
        src = unparse(upd[0].args[0], 400)
        ctx.check("obj_c_contiguous" in src, upd[0], "the bytes come from the contiguous view of the array")
        defs = [a for a in nodes_of_type(ns, ast.Assign) if "obj_c_contiguous" in stores_to(a)]
        ctx.check(bool(defs) and g.every_path_to(g.nodes_of_all(upd), g.nodes_of_all(defs)), defs[0] if defs else ns, "a contiguous view is chosen on every path (%d alternatives)" % len(defs))
        for a in defs:
            v = unparse(a.value)
            facts = cond_facts([c_ for c_ in g.conditions_at(g.nodes_of(a)) if c_[0] is not arr[0]])
            if v == "obj.flatten()" and ("obj.shape == ()", True) in facts:
                ctx.ok(a, "0-d arrays are flattened (they cannot be viewed as bytes)")
            elif v == "obj":
                ctx.check(("obj.flags.c_contiguous", True) in facts and ("obj.shape == ()", False) in facts, a, "the array itself is used only when C-contiguous", "a non C-contiguous array is hashed through its raw buffer (%s)" % facts)
            elif v == "obj.T":
                ctx.check(("obj.flags.f_contiguous", True) in facts and ("obj.shape == ()", False) in facts, a, "the transpose is used only when F-contiguous", "the transpose of a non F-contiguous array is hashed (%s)" % facts)
            else:
                ctx.check(v == "obj.flatten()" and ("obj.shape == ()", False) in facts, a, "otherwise a flattened copy is hashed", "contiguous view %s chosen under %s" % (v, facts))
    if desc:
        t = unparse(desc[0].value, 400)
        ctx.check(all(x in t for x in ("obj.dtype", "obj.shape", "obj.strides", "klass")), desc[0], "descriptor = (class, dtype, shape, strides)",
                  "the array descriptor %s lost one of class/dtype/shape/strides: arrays differing only there collide" % t)
        kl = [a for a in nodes_of_type(ns, ast.Assign) if "klass" in stores_to(a)]
        for a in kl:
            facts = cond_facts([c_ for c_ in g.conditions_at(g.nodes_of(a)) if c_[0] is not arr[0]])
            if unparse(a.value) == "self.np.ndarray":
                ctx.check(("self.coerce_mmap", True) in facts and any("self.np.memmap" in f[0] and f[1] for f in facts), a, "memmap is coerced to ndarray only on request (coerce_mmap) and only for memmaps",
                          "the class recorded for an array is forced to ndarray under %s" % facts)
            else:
                ctx.check(unparse(a.value) == "obj.__class__", a, "otherwise the array's own class is recorded")
        ctx.check(bool(kl) and g.every_path_to(g.nodes_of_all(desc), g.nodes_of_all(kl)), kl[0] if kl else ns, "the class is chosen on every path")


def in_block_of(node, block):
    return any(any(x is node for x in ast.walk(s)) for s in block)


def pure(ctx):
    """joblib.hash is a pure function of the value: no state survives from one digest to the next
    (a memo keyed by ==/hash() merges 1, 1.0 and True, and makes later digests depend on earlier ones)."""
    mod = ctx.repo.mod(HS)
    n_funcs = 0
    for q, fn in mod.funcs.items():
        n_funcs += 1
        for d in fn.decorator_list:
            dn = dotted(d.func) if isinstance(d, ast.Call) else dotted(d)
            ctx.check(dn not in ("functools.lru_cache", "lru_cache", "functools.cache", "cache"), fn, "%s is not memoised" % q,
                      "%s is memoised with %s: arguments that compare equal (1, 1.0, True; nested values are never type-checked) share one digest, and digests depend on the call history" % (q, dn))
    containers = {}
    for st in mod.tree.body:
        if isinstance(st, ast.Assign):
            v = st.value
            is_cont = isinstance(v, (ast.Dict, ast.List, ast.Set)) or (isinstance(v, ast.Call) and call_name(v) in ("dict", "list", "set", "collections.OrderedDict", "weakref.WeakKeyDictionary", "weakref.WeakValueDictionary", "collections.defaultdict"))
            if is_cont:
                for t in stores_to(st):
                    containers[t] = st
    for q, fn in mod.funcs.items():
        for n in ast.walk(fn):
            hit = None
            if isinstance(n, ast.Subscript) and isinstance(n.ctx, (ast.Store, ast.Del)) and dotted(n.value) in containers:
                hit = dotted(n.value)
            if isinstance(n, ast.Call) and isinstance(n.func, ast.Attribute) and dotted(n.func.value) in containers and n.func.attr in ("setdefault", "update", "append", "add", "clear", "pop", "insert", "extend"):
                hit = dotted(n.func.value)
            if hit:
                ctx.bad(n, "%s mutates the module-level container %s: digests are remembered across calls of joblib.hash (keyed by ==/hash(), and regardless of hash_name), so the "
                        "result depends on what was hashed before" % (q, hit))
    ctx.ok(mod.tree.body[0], "%d functions of hashing.py scanned: no memoisation decorator, no module-level container written by a function" % n_funcs, key=HS + "::<module>::no state across digests")
    cls = mod.classes.get("Hasher")
    init = ctx.res.method(HS, cls, "__init__")
    st = assigns_to(init, "self.stream")
    sv = st[0].value if st else None
    if isinstance(sv, ast.Name):
        d_ = [a for a in nodes_of_type(init, ast.Assign) if sv.id in stores_to(a)]
        sv = d_[0].value if len(d_) == 1 else sv
    ctx.check(sv is not None and unparse(sv) == "io.BytesIO()", st[0] if st else init, "every Hasher starts from an empty stream")
    top = ctx.repo.func(HS, "hash")
    hc = [c for c in calls_in(top) if call_name(c) in ("Hasher", "NumpyHasher")]
    ctx.check(bool(hc), top, "every call of hash() builds a fresh Hasher")
    # ... and the digest handed back is computed by such a fresh object on every path: every definition of the receiver of
    # the returned `.hash(obj)` inside hash() is a constructor call (a hasher fetched from a cache / pool / attribute keeps
    # its stream, memo and digest state - or is shared between threads)
    n_ret = 0
    for r in nodes_of_type(top, ast.Return):
        v = r.value
        if not (isinstance(v, ast.Call) and isinstance(v.func, ast.Attribute) and v.func.attr == "hash"):
            continue
        n_ret += 1
        recv = v.func.value
        if isinstance(recv, ast.Call):
            ctx.check(call_name(recv) in ("Hasher", "NumpyHasher"), r, "the digest is computed by a hasher built for this call")
            continue
        nm = dotted(recv)
        defs = [a for a in ast.walk(top) if isinstance(a, (ast.Assign, ast.AnnAssign, ast.AugAssign, ast.NamedExpr)) and nm in stores_to(a)]
        notfresh = [a for a in defs if not (isinstance(getattr(a, "value", None), ast.Call) and call_name(a.value) in ("Hasher", "NumpyHasher"))]
        ctx.check(bool(defs) and not notfresh, notfresh[0] if notfresh else r, "the digest is computed by a hasher built for this call (every definition of `%s` is a constructor call)" % nm,
                  "`%s` may be `%s`: the hasher that computes the digest is not built for this call - state of an earlier digest (or of another thread's digest in progress) "
                  "leaks into this one" % (nm, unparse(notfresh[0].value, 60) if notfresh and getattr(notfresh[0], "value", None) is not None else "?"))
    ctx.need(n_ret >= 1, "hash() no longer returns <hasher>.hash(obj)")


def run(ctx):
    ctx.run("C08.PURE", "R-WHO", pure)
    ctx.run("C08.UNORDERED", "R-TABLE", unordered)
    ctx.run("C08.SEED", "R-WHO", seed)
    ctx.run("C08.MEMO", "R-ORDER", memo)
    ctx.run("C08.PROTO", "R-FLOW", proto)
    ctx.run("C08.NO-COLLAPSE", "R-TABLE", no_collapse)
    ctx.run("C08.FEED-TOTAL", "R-FLOW", feed_total)


def clauses(ctx):
    run(ctx)
