"""C08 - joblib.hash is a deterministic, order-insensitive, type-discriminating digest."""

import ast
import symtable

from ..cfg import cfg_of
from ..core import (
    ancestors, assigns_to, body_walk, call_attr, call_name, calls_in, const_value, dotted, enclosing_func, enclosing_stmt,
    handler_catches, is_const, kwarg, nodes_of_type, parent, stores_to, unparse, walk_local, names_in,
)

HS = "joblib/hashing.py"
PROPERTY = "C08"
EXPLANATION = (
    "Static decision of the structural clauses of C08 on hashing.py: every builtin container whose default pickling "
    "iterates in hash order (dict, set, frozenset - reference fact about pickle._Pickler) has an order normaliser in "
    "Hasher, with distinguishable proxies per type; nothing seed-dependent (builtins.hash, id, repr of arbitrary objects) "
    "is reachable from the hasher - every call of the name `hash` inside hashing.py resolves to the module-level digest "
    "(symtable scoping); str/bytes are never memoised; the pickle protocol is a pinned integer literal and the digest "
    "covers the whole stream; hash names are restricted. Discrimination of differing leaves is pickle's and md5's and is "
    "NOT decided; sets whose elements are only partially ordered are outside these clauses (DESIGN.md section 10)."
)
ASSUMPTIONS = [
    "reference fact: pickle._Pickler saves dict via _batch_setitems and has dispatch entries save_set / save_frozenset iterating the container in hash order",
    "pickle protocol 3 opcode stream is a function of the value for the builtin scalar types",
]

UNORDERED = ["dict", "set", "frozenset"]


def _static_type(expr):
    """'set' for `set`, `type(set())`, `type(set([]))`; same for frozenset/dict."""
    d = dotted(expr)
    if d in ("set", "frozenset", "dict"):
        return d
    if isinstance(expr, ast.Call) and call_name(expr) == "type" and len(expr.args) == 1:
        a = expr.args[0]
        if isinstance(a, ast.Call) and call_name(a) in ("set", "frozenset", "dict"):
            return call_name(a)
        if isinstance(a, ast.Dict) and not a.keys:
            return "dict"
        if isinstance(a, ast.Set):
            return "set"
    return None


def _hasher(ctx):
    return ctx.repo.cls(HS, "Hasher")


def _sorted_feed(fn):
    """does the function feed something built by sorted(...) to the pickler?"""
    return [c for c in calls_in(fn) if call_name(c) == "sorted"]


def unordered(ctx):
    cls = _hasher(ctx)
    mod = ctx.repo.mod(HS)
    # dict
    bs = [m for m in cls.body if isinstance(m, ast.FunctionDef) and m.name == "_batch_setitems"]
    if not bs:
        ctx.bad(cls, "Hasher does not override _batch_setitems: dict items are hashed in insertion order", key=HS + "::Hasher::order normaliser for dict")
    else:
        f = bs[0]
        base = [c for c in calls_in(f) if call_name(c) == "Pickler._batch_setitems"]
        ok = bool(base) and all(any(call_name(x) == "sorted" for x in ast.walk(c.args[1])) for c in base if len(c.args) > 1)
        ctx.check(ok, f, "dict: every call of the base _batch_setitems is fed sorted(...) items", "dict items reach the pickler unsorted", key=HS + "::Hasher::order normaliser for dict")
        for c in base:
            s = [x for x in ast.walk(c.args[1]) if isinstance(x, ast.Call) and call_name(x) == "sorted"][0]
            ctx.check(kwarg(s, "reverse") is None and kwarg(s, "key") is None, c, "plain ascending sort of the items")
        hs = [h for t in nodes_of_type(f, ast.Try) for h in t.handlers]
        ctx.check(any(handler_catches(h, ["TypeError"]) for h in hs), f, "unorderable keys fall back to sorting by the digest of the key")
    # dispatch table entries
    entries = {}
    for st in cls.body:
        if isinstance(st, ast.Assign):
            for t in st.targets:
                if isinstance(t, ast.Subscript) and dotted(t.value) == "dispatch":
                    ty = _static_type(t.slice)
                    if ty:
                        entries[ty] = (st, dotted(st.value))
    dsp = [st for st in cls.body if isinstance(st, ast.Assign) and "dispatch" in stores_to(st)]
    ctx.check(bool(dsp) and unparse(dsp[0].value) == "Pickler.dispatch.copy()", dsp[0] if dsp else cls, "Hasher.dispatch is a private copy of the pickler's table")
    proxies = {}
    for ty in ("set", "frozenset"):
        if ty not in entries:
            ctx.bad(cls, "%s has no dispatch entry in Hasher: its elements are pickled in hash order, which depends on PYTHONHASHSEED and insertion history "
                    "(the digest of a %s of strings changes from one process to the next)" % (ty, ty), key=HS + "::Hasher::order normaliser for " + ty)
            continue
        st, fname = entries[ty]
        fn = [m for m in cls.body if isinstance(m, ast.FunctionDef) and m.name == fname]
        ctx.need(fn, "dispatch[%s] refers to unknown function %s" % (ty, fname))
        saves = [c for c in calls_in(fn[0]) if call_name(c) in ("Pickler.save", "self.save")]
        ok = bool(saves) and isinstance(saves[0].args[-1], ast.Call)
        ctx.need(ok, "normaliser for %s does not pickle a proxy object" % ty)
        proxy = call_name(saves[0].args[-1])
        proxies[ty] = proxy
        pc = mod.classes.get(proxy)
        ctx.need(pc is not None, "proxy class %s not found" % proxy)
        init = ctx.res.method(HS, pc, "__init__")
        srt = _sorted_feed(init) if init is not None else []
        ctx.check(bool(srt), st, "%s: dispatched to %s, which pickles proxy %s built from a sorted sequence" % (ty, fname, proxy),
                  "%s proxy %s does not sort its elements" % (ty, proxy), key=HS + "::Hasher::order normaliser for " + ty)
        ctx.check(dotted(saves[0].args[-1].args[0]) == fn[0].args.args[1].arg, saves[0], "the proxy is built from the container being saved")
    if len(proxies) == 2:
        ctx.check(proxies["set"] != proxies["frozenset"], cls, "set and frozenset use distinguishable proxies (%s / %s): type discrimination is kept" % (proxies["set"], proxies["frozenset"]),
                  "set and frozenset are normalised to the same proxy class: they would get the same digest")
    # proxies must not be picklable to the same thing as a builtin list etc.: they are plain classes with one attribute
    for ty, proxy in proxies.items():
        pc = mod.classes[proxy]
        init = ctx.res.method(HS, pc, "__init__")
        st_ = assigns_to(init, "self._sequence")
        ctx.check(bool(st_), st_[0] if st_ else pc, "%s stores the sorted elements in its state (pickled with the proxy class name)" % proxy)


def seed(ctx):
    mod = ctx.repo.mod(HS)
    table = symtable.symtable(mod.src, HS, "exec")
    top_hash = None
    try:
        top_hash = table.lookup("hash")
    except KeyError:
        pass
    ctx.check(top_hash is not None and top_hash.is_namespace(), mod.funcs.get("hash") or mod.tree.body[0], "module-level name `hash` is bound by `def hash` (the digest function)",
              "hashing.py no longer defines hash() at module level: inner calls of hash() would be builtins.hash", key=HS + "::<module>::def hash")

    # every scope: `hash` must be a global (not local, not a parameter)
    def scopes(t):
        yield t
        for c in t.get_children():
            yield from scopes(c)
    n = 0
    for sc in scopes(table):
        if sc is table:
            continue
        try:
            sym = sc.lookup("hash")
        except KeyError:
            continue
        if sc.get_type() == "class":
            # a method named `hash` on a class does not shadow the global inside other methods
            continue
        n += 1
        ctx.check(sym.is_global() and not sym.is_local() and not sym.is_parameter(), mod.funcs.get(sc.get_name(), mod.tree.body[0]),
                  "in scope %s the name `hash` resolves to the module-level digest" % sc.get_name(), "in scope %s the name `hash` is rebound locally" % sc.get_name(),
                  key="%s::%s::resolution of hash" % (HS, sc.get_name()))
    ctx.floor(n, 1, "scopes calling hash() inside hashing.py")
    # nothing else seed/identity dependent in the hasher classes
    banned = {"id", "repr", "builtins.hash", "object.__hash__", "random.random", "os.urandom", "time.time"}
    n_calls = 0
    for cname in ("Hasher", "_ConsistentSet", "_ConsistentFrozenSet", "_MyHash", "NumpyHasher"):
        c = mod.classes.get(cname)
        if c is None:
            continue
        for node in ast.walk(c):
            if isinstance(node, ast.Call):
                n_calls += 1
                cn = call_name(node)
                if cn in banned or (cn and cn.endswith(".__hash__")):
                    ctx.bad(node, "%s() is reachable from the hasher: the digest depends on the process (hash seed / addresses)" % cn)
    for node in ast.walk(mod.tree):
        if isinstance(node, (ast.Import, ast.ImportFrom)):
            for a in node.names:
                if a.name == "hash" or a.asname == "hash":
                    ctx.bad(node, "`hash` is imported: inner calls may resolve to another function")
    ctl = ast.parse("x = id(obj)")
    ctx.check(any(isinstance(nd, ast.Call) and call_name(nd) == "id" for nd in ast.walk(ctl)), mod.tree.body[0], "positive control matched; %d calls in the hasher classes scanned, none seed-dependent" % n_calls,
              key=HS + "::<hasher classes>::seed-independent")
    # fallbacks sort by digest
    for fn in [mod.funcs.get("_ConsistentSet.__init__"), mod.funcs.get("Hasher._batch_setitems")]:
        if fn is None:
            continue
        for h in [h for t in nodes_of_type(fn, ast.Try) for h in t.handlers]:
            cs = [c for s in h.body for c in calls_in(s) if call_name(c) == "hash"]
            ctx.check(bool(cs), h, "the unorderable fallback in %s sorts by hash(<element>) = the joblib digest" % fn._qualname, "fallback in %s does not use the digest" % fn._qualname)


def memo(ctx):
    f = ctx.repo.func(HS, "Hasher.memoize")
    g = cfg_of(f)
    base = [c for c in calls_in(f) if call_name(c) == "Pickler.memoize"]
    ctx.need(base, "Hasher.memoize no longer delegates to Pickler.memoize")
    tests = [n for n in nodes_of_type(f, ast.If) if isinstance(n.test, ast.Call) and call_name(n.test) == "isinstance" and any(isinstance(s, ast.Return) for s in n.body)]
    if not tests:
        ctx.bad(f, "str/bytes are memoised: two equal but distinct string objects hash differently from one shared object", key=HS + "::Hasher.memoize::str/bytes guard")
        return
    t = tests[0]
    tys = t.test.args[1]
    names = {dotted(e) for e in (tys.elts if isinstance(tys, ast.Tuple) else [tys])}
    ctx.check({"str", "bytes"} <= names, t, "memoisation is skipped for both str and bytes", "memoisation guard only covers %s" % sorted(names))
    ctx.check(dotted(t.test.args[0]) == f.args.args[1].arg, t, "the guard tests the object being memoised")
    for c in base:
        ctx.check(g.every_path_to(g.nodes_of(c), g.nodes_of(t)), c, "the guard precedes Pickler.memoize")


def proto(ctx):
    f = ctx.repo.func(HS, "Hasher.__init__")
    cs = [c for c in calls_in(f) if call_name(c) == "Pickler.__init__"]
    ctx.need(cs, "Hasher.__init__ no longer calls Pickler.__init__")
    for c in cs:
        p = kwarg(c, "protocol", 2)
        v = p
        if isinstance(p, ast.Name):
            d = [a for a in nodes_of_type(f, ast.Assign) if p.id in stores_to(a)]
            v = d[0].value if len(d) == 1 else p
        ctx.check(isinstance(v, ast.Constant) and isinstance(v.value, int), c, "the pickle protocol is the integer literal %s (not DEFAULT/HIGHEST_PROTOCOL, which vary with the interpreter)" % unparse(v),
                  "the pickle protocol is %s: digests change with the Python version" % (unparse(v) if v is not None else "the interpreter default"))
        ctx.check(len(c.args) >= 2 and dotted(c.args[1]) == "self.stream", c, "the pickler writes into the hasher's own stream")
    hh = assigns_to(f, "self._hash")
    ctx.check(bool(hh) and isinstance(hh[0].value, ast.Call) and call_name(hh[0].value) == "hashlib.new" and dotted(hh[0].value.args[0]) == f.args.args[1].arg, hh[0] if hh else f, "digest object = hashlib.new(hash_name)")
    h = ctx.repo.func(HS, "Hasher.hash")
    g = cfg_of(h)
    dump = [c for c in calls_in(h) if call_name(c) == "self.dump"]
    upd = [c for c in calls_in(h) if call_name(c) == "self._hash.update"]
    ctx.check(bool(dump) and bool(upd) and g.every_path_to(g.nodes_of_all(upd), g.nodes_of_all(dump)), upd[0] if upd else h, "the whole pickled stream is fed to the digest after dumping")
    gv = [a for a in nodes_of_type(h, ast.Assign) if isinstance(a.value, ast.Call) and call_name(a.value) == "self.stream.getvalue"]
    ctx.check(bool(gv) and upd and dotted(upd[0].args[0]) == gv[0].targets[0].id, gv[0] if gv else h, "digest input is stream.getvalue() (no truncation)")
    ctx.check(any(isinstance(r.value, ast.Call) and call_name(r.value) == "self._hash.hexdigest" for r in nodes_of_type(h, ast.Return)), h, "the hex digest is returned")
    top = ctx.repo.func(HS, "hash")
    t = [n for n in nodes_of_type(top, ast.If) if "hash_name not in" in unparse(n.test) and any(isinstance(s, ast.Raise) for s in n.body)]
    vn = [a for a in nodes_of_type(top, ast.Assign) if "valid_hash_names" in stores_to(a)]
    ctx.check(bool(t) and vn and {const_value(e) for e in vn[0].value.elts} == {"md5", "sha1"}, t[0] if t else top, "hash() accepts exactly md5 and sha1")
    hc = [c for c in calls_in(top) if call_name(c) in ("Hasher", "NumpyHasher")]
    ctx.check(len(hc) == 2 and all(dotted(kwarg(c, "hash_name")) == "hash_name" for c in hc), hc[0] if hc else top, "the requested hash name reaches the hasher")
    ctx.check(any(isinstance(r.value, ast.Call) and call_name(r.value) == "hasher.hash" and dotted(r.value.args[0]) == top.args.args[0].arg for r in nodes_of_type(top, ast.Return)), top, "hash(obj) digests obj itself")


def no_collapse(ctx):
    cls = _hasher(ctx)
    f = ctx.repo.func(HS, "Hasher.save")
    g = cfg_of(f)
    rebinds = [a for a in nodes_of_type(f, ast.Assign) if f.args.args[1].arg in stores_to(a)]
    t = [n for n in nodes_of_type(f, ast.If) if isinstance(n.test, ast.Call) and call_name(n.test) == "isinstance"]
    ctx.need(t, "Hasher.save type test not found")
    tys = t[0].test.args[1]
    names = [unparse(e) for e in (tys.elts if isinstance(tys, ast.Tuple) else [tys])]
    ctx.check(names == ["types.MethodType", "type({}.pop)"], t[0], "Hasher.save only rewrites bound methods / builtin methods (%s)" % names, "Hasher.save rewrites objects of types %s" % names)
    for a in rebinds:
        ctx.check(isinstance(a.value, ast.Call) and call_name(a.value) == "_MyHash" and any(i is t[0] for i in ancestors(a)), a, "methods are replaced by a _MyHash(name, instance[, class]) proxy")
    base = [c for c in calls_in(f) if call_name(c) == "Pickler.save"]
    ctx.check(bool(base) and g.every_path_from([g.entry], g.nodes_of_all(base)), base[0] if base else f, "everything else goes to the base pickler unchanged, on every path")
    # dispatch overrides: enumerate
    over = []
    for st in cls.body:
        if isinstance(st, ast.Assign):
            for tg in st.targets:
                if isinstance(tg, ast.Subscript) and dotted(tg.value) == "dispatch":
                    over.append((unparse(tg.slice), dotted(st.value), st))
    allowed_global = {"type(len)", "type(object)", "type(Pickler)", "type(pickle.dump)"}
    for key, fn, st in over:
        if fn == "save_global":
            ctx.check(key in allowed_global, st, "dispatch[%s] -> save_global (functions/classes hashed by qualified name)" % key, "dispatch[%s] -> save_global collapses values of that type to their type name" % key)
        else:
            ty = _static_type(st.targets[0].slice)
            ctx.check(ty in ("set", "frozenset"), st, "dispatch[%s] -> %s (order normaliser)" % (key, fn), "unexpected dispatch override for %s" % key)
    ctx.floor(len(over), 5, "dispatch overrides")
    # no reducer_override / persistent_id tricks
    for m in cls.body:
        if isinstance(m, ast.FunctionDef):
            ctx.check(m.name not in ("reducer_override", "persistent_id", "save_reduce", "save_long", "save_float", "save_bool", "save_str", "save_bytes", "save_tuple", "save_list"), m,
                      "method %s is not a scalar/sequence saver override" % m.name, "Hasher overrides %s: values of a builtin type may be mapped to one representation" % m.name)


def pure(ctx):
    """joblib.hash is a pure function of the value: no state survives from one digest to the next
    (a memo keyed by ==/hash() merges 1, 1.0 and True, and makes later digests depend on earlier ones)."""
    mod = ctx.repo.mod(HS)
    n_funcs = 0
    for q, fn in mod.funcs.items():
        n_funcs += 1
        for d in fn.decorator_list:
            dn = dotted(d.func) if isinstance(d, ast.Call) else dotted(d)
            ctx.check(dn not in ("functools.lru_cache", "lru_cache", "functools.cache", "cache"), fn, "%s is not memoised" % q,
                      "%s is memoised with %s: arguments that compare equal (1, 1.0, True; nested values are never type-checked) share one digest, and digests depend on the call history" % (q, dn))
    containers = {}
    for st in mod.tree.body:
        if isinstance(st, ast.Assign):
            v = st.value
            is_cont = isinstance(v, (ast.Dict, ast.List, ast.Set)) or (isinstance(v, ast.Call) and call_name(v) in ("dict", "list", "set", "collections.OrderedDict", "weakref.WeakKeyDictionary", "weakref.WeakValueDictionary", "collections.defaultdict"))
            if is_cont:
                for t in stores_to(st):
                    containers[t] = st
    for q, fn in mod.funcs.items():
        for n in ast.walk(fn):
            hit = None
            if isinstance(n, ast.Subscript) and isinstance(n.ctx, (ast.Store, ast.Del)) and dotted(n.value) in containers:
                hit = dotted(n.value)
            if isinstance(n, ast.Call) and isinstance(n.func, ast.Attribute) and dotted(n.func.value) in containers and n.func.attr in ("setdefault", "update", "append", "add", "clear", "pop", "insert", "extend"):
                hit = dotted(n.func.value)
            if hit:
                ctx.bad(n, "%s mutates the module-level container %s: digests are remembered across calls of joblib.hash (keyed by ==/hash(), and regardless of hash_name), so the "
                        "result depends on what was hashed before" % (q, hit))
    ctx.ok(mod.tree.body[0], "%d functions of hashing.py scanned: no memoisation decorator, no module-level container written by a function" % n_funcs, key=HS + "::<module>::no state across digests")
    cls = mod.classes.get("Hasher")
    init = ctx.res.method(HS, cls, "__init__")
    st = assigns_to(init, "self.stream")
    ctx.check(bool(st) and unparse(st[0].value) == "io.BytesIO()", st[0] if st else init, "every Hasher starts from an empty stream")
    top = ctx.repo.func(HS, "hash")
    hc = [c for c in calls_in(top) if call_name(c) in ("Hasher", "NumpyHasher")]
    ctx.check(bool(hc), top, "every call of hash() builds a fresh Hasher")


def run(ctx):
    ctx.run("C08.PURE", "R-WHO", pure)
    ctx.run("C08.UNORDERED", "R-TABLE", unordered)
    ctx.run("C08.SEED", "R-WHO", seed)
    ctx.run("C08.MEMO", "R-ORDER", memo)
    ctx.run("C08.PROTO", "R-FLOW", proto)
    ctx.run("C08.NO-COLLAPSE", "R-TABLE", no_collapse)


def clauses(ctx):
    run(ctx)
