"""C09 - Parallel consumes its input lazily, boundedly, from one thread at a time."""

from . import par

PROPERTY = "C09"
EXPLANATION = (
    "Static decision of the structural clauses of C09: who may consume the task iterable (only the bounded "
    "list(islice(...)) in dispatch_one_batch and the sequential loop), the slice bounds have no dataflow from "
    "the input length, every iterator-advancing site and look-ahead queue access holds the dispatch lock, the "
    "abort test dominates slicing and submitting, one completion triggers at most one dispatch of one bounded "
    "slice, pre_dispatch='all' disables lazy dispatch and hands the iterator over unwrapped, pre_dispatch "
    "expressions are evaluated arithmetic-only, closing the generator aborts. The numeric bound under every "
    "schedule additionally needs the backends' at-most-once callback contract and is NOT decided."
    ' Nothing the instance remembers from an earlier call flows into the pre_dispatch amount; skipping the look-ahead wrapper on the input size requires an exact len.'
    ' eval_expr hands the evaluated amount back unmodified; per-call containers are reset (C04.RESET).'
)
ASSUMPTIONS = [
    "the pools call the completion callback at most once per submitted batch",
    "itertools.islice is lazy; list() of it takes at most `bound` items",
    "the abort flag is tested before (not under) the lock: one slice may still be taken by a thread that passed the test just before a failure (accepted by design, DESIGN.md section 10)",
]


def run(ctx):
    ctx.run("C09.WHO-CONSUMES", "R-WHO", par.c09_who_consumes)
    ctx.run("C09.BOUND", "R-FLOW", par.c09_bound)
    ctx.run("C09.LOCK", "R-LOCK", par.c01_lock, only_iterator=True)
    ctx.run("C09.ABORT-DOM", "R-ORDER", par.c09_abort_dom)
    ctx.run("C09.ONE-PER-COMPLETION", "R-ORDER", par.c09_one_per_completion)
    ctx.run("C09.ALL", "R-ORDER", par.c09_all)
    ctx.run("C09.EVAL", "R-TABLE/R-WHO", par.c09_eval)
    ctx.run("C16.GENEXIT", "R-ORDER", par.c16_genexit)
    ctx.run("C01.EACH-ONCE", "R-FLOW/R-ORDER", par.c01_each_once)
    ctx.run("C01.BATCHSIZE", "R-ARITH", par.c01_batchsize)
    ctx.run("C09.PER-CALL-INPUTS", "R-RESET", par.c09_per_call_inputs)
    ctx.run("C04.FLAGS", "R-ORDER", par.c04_flags)
    ctx.run("C04.CALLID", "R-LOCK/R-ORDER", par.c04_callid)
    ctx.run("C04.RESET", "R-RESET", par.c04_reset)
