"""Clauses over joblib/parallel.py shared by C01, C04, C09, C16.

Every clause is a function `(ctx) -> None` that records obligations through
ctx.ok / ctx.bad / ctx.check and raises Undecidable/AnchorMissing when the
mechanism can no longer be seen.
"""

import ast

from ..cfg import cfg_of
from ..core import (
    assigns_to,
    attrs_in,
    body_walk,
    call_name,
    call_attr,
    calls_in,
    const_value,
    dict_items,
    dotted,
    enclosing_func,
    enclosing_stmt,
    enclosing_withs,
    handler_catches,
    handler_reraises,
    in_block,
    is_const,
    kwarg,
    mentions,
    nodes_of_type,
    parent,
    ancestors,
    stores_to,
    unparse,
    walk_local,
    names_in,
)
from ..resolve import held_at, lexical_locks, sites

PAR = "joblib/parallel.py"
BK = "joblib/_parallel_backends.py"
UT = "joblib/_utils.py"

LOCK = "Parallel._lock"
LOCK_NAMES = {
    "self._lock": LOCK,
    "self.parallel._lock": LOCK,
    "_parallel._lock": LOCK,
    "parallel._lock": LOCK,
}
SCOPE = [PAR]


def F(ctx, q, rel=PAR):
    return ctx.repo.func(rel, q)


def under_lock(node):
    return LOCK in lexical_locks(node, LOCK_NAMES)


def _name_is(node, name):
    d = dotted(node)
    return d is not None and d.split(".")[-1] == name


def status_error_tests(func):
    """If-statements whose test compares something named *status* with
    TASK_ERROR for equality."""
    out = []
    for n in nodes_of_type(func, ast.If):
        t = n.test
        if isinstance(t, ast.Compare) and len(t.ops) == 1 and isinstance(t.ops[0], (ast.Eq, ast.Is)):
            sides = [t.left, t.comparators[0]]
            if any(_name_is(s, "TASK_ERROR") for s in sides) and any("status" in unparse(s) for s in sides if not _name_is(s, "TASK_ERROR")):
                out.append(n)
    return out


def implies_pending(test, polarity):
    """Does `test` evaluating to `polarity` imply 'status is still pending
    (TASK_PENDING or None)'?"""
    if isinstance(test, ast.UnaryOp) and isinstance(test.op, ast.Not):
        return implies_pending(test.operand, not polarity)
    if isinstance(test, ast.Compare) and len(test.ops) == 1 and "status" in unparse(test.left):
        op, right = test.ops[0], test.comparators[0]
        names = []
        if isinstance(right, (ast.Tuple, ast.List, ast.Set)):
            names = [dotted(e) or unparse(e) for e in right.elts]
        else:
            names = [dotted(right) or unparse(right)]
        pendingish = all(n in ("TASK_PENDING", "None") for n in names) and "TASK_PENDING" in names
        if not pendingish:
            return False
        if isinstance(op, (ast.In, ast.Eq, ast.Is)):
            return polarity is True
        if isinstance(op, (ast.NotIn, ast.NotEq, ast.IsNot)):
            return polarity is False
    return False


# ---------------------------------------------------------------------------
# C04 clauses
# ---------------------------------------------------------------------------

def _register_outcome_rows(ctx):
    """_register_outcome folded over the case table (current status) x (outcome status) x (ordered?): for each row the
    statements the walk passes (sa/table.py trace). Independent of local names and of how the guards are arranged."""
    from ..table import traces, Unknown
    from ..core import Undecidable
    import itertools as _it
    f = F(ctx, "BatchCompletionCallBack._register_outcome")
    g = cfg_of(f)
    out_p = f.args.args[1].arg
    rows = []
    for cur, new, ordered in _it.product(("TASK_PENDING", None, "TASK_DONE", "TASK_ERROR"), ("TASK_DONE", "TASK_ERROR"), (True, False)):
        env = {"TASK_PENDING": "TASK_PENDING", "TASK_DONE": "TASK_DONE", "TASK_ERROR": "TASK_ERROR", "self.status": cur, "%s['status']" % out_p: new,
               "%s['result']" % out_p: "<result>", "self.parallel.return_ordered": ordered, "parallel.return_ordered": ordered, "self.parallel": "<parallel>", "self": "<self>"}
        try:
            walks = traces(g, env, call_args=("self.parallel._jobs.append", "parallel._jobs.append"))
        except Unknown as e:
            raise Undecidable("_register_outcome: not understood for status=%s outcome=%s (%s)" % (cur, new, e))
        for (kind, val, visited, calls) in walks:
            rows.append((cur, new, ordered, visited, calls))
    return f, g, rows


def _stores(visited, suffix):
    return [a for a in visited if isinstance(a, ast.Assign) and any(t == suffix or t.endswith("." + suffix) for t in stores_to(a))]


def c04_once(ctx):
    f, g, rows = _register_outcome_rows(ctx)
    stores = assigns_to(f, "self.status")
    if not stores:
        ctx.bad(f, "_register_outcome never stores the status", key=PAR + "::BatchCompletionCallBack._register_outcome::status store")
        return
    for st in stores:
        ctx.check(under_lock(st), st, "status store is inside `with <dispatch lock>`",
                  "status store is outside the dispatch lock: two registrations can interleave")
        # atomic test-and-set: the read of the status that decides and the store share one locked block
        ws = [w for w in enclosing_withs(st) if under_lock(st)]
        reads = [n for w in ws for n in ast.walk(w) if isinstance(n, ast.Attribute) and isinstance(n.ctx, ast.Load) and dotted(n) == "self.status" and n.lineno <= st.lineno]
        ctx.check(bool(reads), st, "the status is read and stored in one `with <dispatch lock>` block (atomic test-and-set)",
                  "the status is not read inside the locked block that stores it (test-and-set is not atomic)")
    bad = None
    for cur, new, ordered, visited, calls in rows:
        s_st, s_res = _stores(visited, "status"), [a for a in visited if isinstance(a, ast.Assign) and "self._result" in stores_to(a)]
        if cur in ("TASK_DONE", "TASK_ERROR"):
            if s_st or s_res or calls or _stores(visited, "_exception") or _stores(visited, "_aborting"):
                bad = ((s_st or s_res or [f])[0], "an outcome already registered (status %s) is overwritten by a second registration (%s)" % (cur, new))
                break
        else:
            if not s_st or not s_res:
                bad = (f, "a pending batch (status %s) does not get its %s stored" % (cur, "status" if not s_st else "result"))
                break
            if visited.index(s_st[0]) > visited.index(s_res[0]):
                bad = (s_res[0], "the result is stored before the status registration succeeded")
                break
    if bad:
        ctx.bad(bad[0], bad[1], key=PAR + "::BatchCompletionCallBack._register_outcome::outcome registered once")
    else:
        ctx.ok(f, "an outcome is registered exactly once: pending => status then result stored; already registered => nothing is touched (%d rows)" % len(rows))
    res = assigns_to(f, "self._result")
    ctx.need(res, "no store to self._result")
    for st in res:
        v = st.value
        ctx.check(isinstance(v, ast.Subscript) and const_value(v.slice) == "result" and dotted(v.value) == f.args.args[1].arg,
                  st, "self._result is outcome['result'] (the object given by the worker/handler, unchanged)")


def c04_flags(ctx):
    f, g, rows = _register_outcome_rows(ctx)
    bad = None
    for cur, new, ordered, visited, calls in rows:
        if cur in ("TASK_PENDING", None) and new == "TASK_ERROR":
            for flag in ("_exception", "_aborting"):
                st = [a for a in _stores(visited, flag) if is_const(a.value, True) and "parallel" in stores_to(a)[0]]
                if not st:
                    bad = (flag, "a batch that failed (status %s -> TASK_ERROR) does not set parallel.%s = True: dispatch/retrieval would not stop" % (cur, flag))
                    break
        if bad:
            break
    if bad:
        ctx.bad(f, bad[1], key="%s::BatchCompletionCallBack._register_outcome::error branch sets %s" % (PAR, bad[0]))
    else:
        ctx.ok(f, "error status => parallel._exception = True and parallel._aborting = True (every failing row of the case table)")
    # outcome producers: both retrieval paths turn any BaseException into an error outcome
    for q in ("BatchCompletionCallBack._retrieve_result", "BatchCompletionCallBack.get_result"):
        fn = F(ctx, q)
        gg = cfg_of(fn)
        hs = [h for t in nodes_of_type(fn, ast.Try) for h in t.handlers]
        if not hs:
            ctx.bad(fn, "%s has no exception handler around result retrieval: a worker failure escapes in the callback thread and the call never learns about it" % q, key="%s::%s::handler" % (PAR, q))
            continue
        hb = [h for h in hs if handler_catches(h, ["BaseException"]) and (h.type is None or "BaseException" in unparse(h.type))]
        ctx.check(bool(hb), hs[0], "%s catches BaseException around result retrieval" % q,
                  "%s no longer catches BaseException: a worker failure escapes in the callback thread and is lost" % q)
        for h in hb:
            ok = False
            for n in walk_local(ast.Module(body=h.body, type_ignores=[])):
                items = dict_items(n) if isinstance(n, (ast.Call, ast.Dict)) else None
                if items and "status" in items and _name_is(items["status"], "TASK_ERROR") and "result" in items and dotted(items["result"]) == h.name:
                    ok = True
            ctx.check(ok, h, "handler builds outcome(result=<caught exception object>, status=TASK_ERROR)",
                      "handler does not record the caught exception object with the error status")
            ctx.check(not handler_reraises(h), h, "handler does not re-raise in the backend thread")
        regs = list(calls_in(fn, "self._register_outcome"))
        ctx.check(bool(regs) and gg.every_path_from([gg.entry], gg.nodes_of_all(regs), skip_exc=True) or
                  (q.endswith("get_result") and bool(regs)), regs[0] if regs else fn,
                  "%s registers the outcome on every path" % q)


def c04_same_exc(ctx):
    f = F(ctx, "BatchCompletionCallBack._return_or_raise")
    raises = nodes_of_type(f, ast.Raise)
    if not raises:
        ctx.bad(f, "_return_or_raise never raises: a failed task's exception object is returned as if it were a result", key=PAR + "::BatchCompletionCallBack._return_or_raise::raise")
        return
    g = cfg_of(f)
    for r in raises:
        ctx.check(r.exc is not None and dotted(r.exc) == "self._result" and r.cause is None, r,
                  "raises the stored exception object itself (type and args untouched)",
                  "raises something else than the stored exception object: the caller would not see the task's exception")
        conds = g.conditions_at(g.nodes_of(r))
        ctx.check(any(ifn in status_error_tests(f) and pol for (ifn, t, pol) in conds), r,
                  "raise is taken exactly on the error status")
    rets = nodes_of_type(f, ast.Return)
    ctx.check(any(r.value is not None and dotted(r.value) == "self._result" for r in rets), f,
              "non-error status returns the stored result")
    # traceback wrapper on the pool side
    f2 = F(ctx, "_retrieve_traceback_capturing_wrapped_call", UT)
    p = f2.args.args[0].arg
    rs = nodes_of_type(f2, ast.Raise)
    if not rs:
        ctx.bad(f2, "_retrieve_traceback_capturing_wrapped_call never raises: a worker exception is handed to the caller as a value", key=UT + "::_retrieve_traceback_capturing_wrapped_call::raise")
    for r in rs:
        ctx.check(dotted(r.exc) == p and r.cause is None, r, "re-raises the rebuilt worker exception itself")
    ctx.check(any(dotted(r.value) == p for r in nodes_of_type(f2, ast.Return) if r.value is not None), f2,
              "returns the worker's value unchanged when it is not an exception")
    # loky: only ShutdownExecutorError is converted
    f3 = F(ctx, "LokyBackend.retrieve_result_callback", BK)
    for t in nodes_of_type(f3, ast.Try):
        for h in t.handlers:
            ctx.check(h.type is not None and unparse(h.type) == "ShutdownExecutorError", h,
                      "LokyBackend converts only ShutdownExecutorError (listed exemption)",
                      "LokyBackend.retrieve_result_callback converts %s into another exception type" % (unparse(h.type) if h.type else "every exception"))
    ctx.check(any(isinstance(r.value, ast.Call) and call_name(r.value) and call_name(r.value).endswith(".result") for r in nodes_of_type(f3, ast.Return) if r.value is not None),
              f3, "LokyBackend returns future.result() (re-raising the task's or the worker-termination error)")
    f4 = F(ctx, "PoolManagerMixin.retrieve_result_callback", BK)
    ctx.check(any(isinstance(r.value, ast.Call) and call_name(r.value) == "_retrieve_traceback_capturing_wrapped_call" for r in nodes_of_type(f4, ast.Return) if r.value is not None),
              f4, "pool backends unwrap through _retrieve_traceback_capturing_wrapped_call")


def _islice_calls(func):
    return [c for c in calls_in(func) if call_name(c) in ("itertools.islice", "islice")]


def c04_iter_exc(ctx):
    f = F(ctx, "Parallel.dispatch_one_batch")
    sl = [c for c in _islice_calls(f) if c.args and dotted(c.args[0]) == "iterator"]
    ctx.need(sl, "no islice(iterator, ...) in dispatch_one_batch")
    for c in sl:
        tr = None
        child = c
        for a in ancestors(c):
            if isinstance(a, ast.Try) and in_block(c, a.body):
                tr = a
                break
            if isinstance(a, (ast.FunctionDef, ast.Lambda)):
                break
        if tr is None:
            ctx.bad(c, "input-iterator slice is not inside a try: an exception of the user's iterable escapes in a backend thread")
            continue
        hs = [h for h in tr.handlers if handler_catches(h, ["Exception"])]
        if not hs:
            ctx.bad(tr, "the try around the iterator slice has no handler for Exception")
            continue
        h = hs[0]
        ctx.ok(h, "iterator slice is guarded by a handler catching Exception")
        body = ast.Module(body=h.body, type_ignores=[])
        trackers = [n for n in walk_local(body) if isinstance(n, ast.Assign) and isinstance(n.value, ast.Call) and call_name(n.value) == "BatchCompletionCallBack"]
        ctx.check(bool(trackers), h, "handler creates a tracker for the failed slice")
        tname = trackers[0].targets[0].id if trackers and isinstance(trackers[0].targets[0], ast.Name) else None
        reg = [n for n in calls_in(body, "self._register_new_job") if n.args and dotted(n.args[0]) == tname]
        ctx.check(bool(reg), h, "handler registers the tracker as a job (so the caller's retrieval loop sees it)",
                  "handler does not register the error tracker as a job: the iterator's exception never reaches the caller")
        out = []
        for n in calls_in(body):
            if call_name(n) == "%s._register_outcome" % tname and n.args:
                items = dict_items(n.args[0])
                if items and dotted(items.get("result")) == h.name and _name_is(items.get("status"), "TASK_ERROR"):
                    out.append(n)
        ctx.check(bool(out), h, "handler registers an error outcome carrying the caught exception object",
                  "handler does not register outcome(result=<caught exception>, status=TASK_ERROR)")
        ctx.check(not handler_reraises(h), h, "handler does not re-raise (would be lost in a backend thread)")
        rets = [n for n in walk_local(body) if isinstance(n, ast.Return)]
        ctx.check(bool(rets) and all(is_const(r.value, True) for r in rets), h,
                  "handler returns True (iteration is kept alive until the error is retrieved)",
                  "handler does not return True: _iterating is cleared and retrieval may stop before the error is raised")
        if h.body and rets:
            g = cfg_of(f)
            ctx.check(g.every_path_from(g.nodes_of(h), g.nodes_of_all(rets)) , h, "every path of the handler ends in that return")


def c04_fast(ctx):
    f = F(ctx, "Parallel._retrieve")
    g = cfg_of(f)
    loops = [w for w in nodes_of_type(f, ast.While) if any(True for _ in calls_in(w.test, "self._wait_retrieval"))]
    ctx.need(loops, "retrieval loop `while self._wait_retrieval()` not found")
    w = loops[0]
    tests = [n for n in w.body if isinstance(n, ast.If) and mentions(n.test, "self._aborting")]
    if not tests:
        ctx.bad(w, "retrieval loop has no test of the abort flag: a failure is only seen after all pending jobs")
        return
    t = tests[0]
    calls = list(calls_in(ast.Module(body=t.body, type_ignores=[]), "self._raise_error_fast"))
    ctx.check(bool(calls), t, "abort flag => _raise_error_fast()")
    ctx.check(any(isinstance(s, ast.Break) for s in t.body) or any(isinstance(s, ast.Raise) for s in t.body), t,
              "abort flag => leave the retrieval loop")
    tn = g.nodes_of(t)
    blockers = [c for c in calls_in(ast.Module(body=w.body, type_ignores=[])) if call_name(c) in ("time.sleep",) or call_attr(c) in ("get_status", "get_result")]
    ctx.floor(len(blockers), 3, "waiting sites in the retrieval loop")
    for c in blockers:
        ctx.check(g.every_path_to(g.nodes_of(c), tn), c, "abort test dominates this wait",
                  "this wait can be reached without passing the abort test")
    # _raise_error_fast picks an error job and raises through get_result
    f2 = F(ctx, "Parallel._raise_error_fast")
    sel = [n for n in body_walk(f2) if isinstance(n, ast.Compare) and any(_name_is(s, "TASK_ERROR") for s in [n.left] + n.comparators) and isinstance(n.ops[0], ast.Eq)]
    ctx.check(bool(sel), f2, "_raise_error_fast selects a job whose status is the error status")
    gr = [c for c in calls_in(f2) if call_attr(c) == "get_result"]
    ctx.check(bool(gr), f2, "_raise_error_fast raises through get_result of that job")
    for n in sel:
        ctx.check(under_lock(n), n, "job list is scanned under the dispatch lock")


def c04_timeout(ctx):
    init = F(ctx, "Parallel.__init__")
    st = assigns_to(init, "self.timeout")
    ctx.check(bool(st) and all(dotted(s.value) == "timeout" for s in st), st[0] if st else init, "Parallel stores the timeout parameter unchanged")
    f = F(ctx, "Parallel._retrieve")
    gs = [c for c in calls_in(f) if call_attr(c) == "get_status"]
    ctx.floor(len(gs), 2, "get_status sites in _retrieve")
    for c in gs:
        v = kwarg(c, "timeout", 0)
        ctx.check(v is not None and dotted(v) == "self.timeout", c, "get_status receives self.timeout",
                  "get_status is not given self.timeout: the wait is unbounded")
    n_gr = 0
    for q in ("Parallel._retrieve", "Parallel._get_outputs", "Parallel._raise_error_fast"):
        fn = F(ctx, q)
        for c in calls_in(fn):
            if call_attr(c) == "get_result":
                n_gr += 1
                v = kwarg(c, "timeout", 0)
                ctx.check(v is not None and dotted(v) == "self.timeout", c, "get_result receives self.timeout")
    ctx.floor(n_gr, 3, "get_result sites")
    rr = ctx.repo.func("joblib/_parallel_backends.py", "ParallelBackendBase.retrieve_result")
    grr = cfg_of(rr)
    from ..core import cond_facts
    gets = [c for c in calls_in(rr) if call_attr(c) == "get"]
    with_t = [c for c in gets if dotted(kwarg(c, "timeout", 0)) == "timeout"]
    ctx.check(bool(with_t), with_t[0] if with_t else rr, "the legacy retrieval hook forwards the timeout to the future", "ParallelBackendBase.retrieve_result never forwards the timeout")
    for c in gets:
        fc = cond_facts(grr.conditions_at(grr.nodes_of(c)))
        if c in with_t:
            ctx.check(fc == [("self.supports_timeout", True)], c, "exactly for backends that support timeouts", "the timeout is forwarded under %s" % fc)
        else:
            ctx.check(fc == [("self.supports_timeout", False)], c, "and waits without timeout only for backends that do not", "the un-timed wait is taken under %s: a backend that supports timeouts never times out" % fc)
    gsf = F(ctx, "BatchCompletionCallBack.get_status")
    g = cfg_of(gsf)
    cmp_ = [n for n in nodes_of_type(gsf, ast.If) if isinstance(n.test, ast.Compare) and "timeout" in names_in(n.test) and isinstance(n.test.ops[0], (ast.Lt, ast.LtE)) and isinstance(n.test.comparators[0], ast.BinOp) and dotted(n.test.left) == "timeout"]
    if not cmp_:
        ctx.bad(gsf, "get_status has no `elapsed > timeout` test")
    for n in cmp_:
        ok = False
        for c in calls_in(ast.Module(body=n.body, type_ignores=[]), "self._register_outcome"):
            items = dict_items(c.args[0]) if c.args else None
            if items is None and c.args and isinstance(c.args[0], ast.Name):
                for a in nodes_of_type(gsf, ast.Assign):
                    if c.args[0].id in stores_to(a):
                        items = dict_items(a.value)
            if items and isinstance(items.get("result"), ast.Call) and call_name(items["result"]) == "TimeoutError" and _name_is(items.get("status"), "TASK_ERROR"):
                ok = True
        ctx.check(ok, n, "elapsed > timeout => register an error outcome carrying TimeoutError()",
                  "timeout expiry does not register a TimeoutError outcome")
        # the early return must not hide the timeout test while pending
    early = [n for n in nodes_of_type(gsf, ast.If) if any(isinstance(s, ast.Return) for s in n.body) and "timeout" in unparse(n.test)]
    for n in early:
        t = n.test
        good = isinstance(t, ast.BoolOp) and isinstance(t.op, ast.Or) and any(unparse(v) == "timeout is None" for v in t.values) and any(isinstance(v, ast.Compare) and isinstance(v.ops[0], ast.NotEq) and _name_is(v.comparators[0], "TASK_PENDING") for v in t.values)
        ctx.check(good, n, "early return only when no timeout is set or the status is no longer pending",
                  "early return of get_status hides the timeout test for a pending job")
    rr = F(ctx, "ParallelBackendBase.retrieve_result", BK)
    fw = [c for c in calls_in(rr) if call_attr(c) == "get" and kwarg(c, "timeout") is not None and dotted(kwarg(c, "timeout")) == "timeout"]
    ctx.check(bool(fw), rr, "retrieve_result forwards timeout to out.get(timeout=timeout)")
    # multiprocessing.TimeoutError is the raised type
    m = ctx.repo.mod(PAR)
    imp = [n for n in m.tree.body if isinstance(n, ast.ImportFrom) and n.module == "multiprocessing" and any(a.name == "TimeoutError" for a in n.names)]
    ctx.check(True, m.tree.body[0], "TimeoutError is %s" % ("multiprocessing.TimeoutError" if imp else "the builtin TimeoutError"), key=PAR + "::<module>::TimeoutError binding")


def _final_try(func):
    ts = [t for t in func.body if isinstance(t, ast.Try) and t.finalbody]
    return ts[0] if ts else None


def c04_cleanup(ctx):
    f = F(ctx, "Parallel._get_outputs")
    tr = _final_try(f)
    ctx.need(tr is not None, "_get_outputs has no top-level try/finally")
    hb = [h for h in tr.handlers if h.type is not None and unparse(h.type) == "BaseException" or h.type is None]
    if not hb:
        ctx.bad(tr, "_get_outputs has no BaseException handler: a failing task would not abort the remaining ones")
    for h in hb:
        body = ast.Module(body=h.body, type_ignores=[])
        ex = [a for a in walk_local(body) if isinstance(a, ast.Assign) and "self._exception" in stores_to(a) and is_const(a.value, True)]
        ctx.check(bool(ex), h, "BaseException handler sets _exception = True (leftover jobs are dropped in finally)",
                  "BaseException handler does not set _exception: results of the failed call stay queued")
        ab = list(calls_in(body, "self._abort"))
        ctx.check(bool(ab), h, "BaseException handler calls _abort()", "BaseException handler does not abort the backend")
        last = h.body[-1]
        ctx.check(isinstance(last, ast.Raise) and last.exc is None, h, "BaseException handler re-raises the same exception (bare raise)",
                  "BaseException handler does not re-raise the task's exception unchanged")
    # the first dispatch happens INSIDE the protected block: a fault noticed while submitting (a worker found dead by
    # submit(), a failing input iterator, a pickling error) must run the same abort / reset as a fault noticed later
    st_ = [c for c in calls_in(f) if call_name(c) == "self._start"]
    ctx.check(bool(st_) and all(in_block(c, tr.body) for c in st_), st_[0] if st_ else f, "the initial dispatch (self._start) runs inside the try whose handlers abort and whose finally resets the run state",
              "self._start(...) runs outside the try/finally of _get_outputs: an exception raised while dispatching the first batches skips the abort, the re-arming of the backend and `_running = False` - "
              "every later call on this Parallel object fails with 'already running'")
    fin = ast.Module(body=tr.finalbody, type_ignores=[])
    for attr, ctor in (("self._jobs", ("collections.deque", "deque")), ("self._jobs_set", ("set",))):
        a = [s for s in tr.finalbody if isinstance(s, ast.Assign) and attr in stores_to(s)]
        ctx.check(bool(a) and isinstance(a[0].value, ast.Call) and call_name(a[0].value) in ctor and not a[0].value.args, a[0] if a else tr,
                  "finally re-creates %s empty (unconditionally)" % attr,
                  "finally does not unconditionally re-create %s: jobs of this call leak into the next" % attr,
                  key=None if a else PAR + "::Parallel._get_outputs::finally resets " + attr)
    a = [s for s in tr.finalbody if isinstance(s, ast.Assign) and "self._running" in stores_to(s)]
    ctx.check(bool(a) and is_const(a[0].value, False), a[0] if a else tr, "finally clears _running (unconditionally)",
              "finally does not clear _running: the object cannot be called again",
              key=None if a else PAR + "::Parallel._get_outputs::finally clears _running")
    tcalls = list(calls_in(fin, "self._terminate_and_reset"))
    if not tcalls:
        ctx.bad(tr, "finally never calls _terminate_and_reset(): workers/temporary resources of the call are not released",
                key=PAR + "::Parallel._get_outputs::finally calls _terminate_and_reset")
    for c in tcalls:
        st = enclosing_stmt(c)
        conds = []
        for a_ in ancestors(st):
            if a_ is tr:
                break
            if isinstance(a_, ast.If):
                conds.append(a_)
        ok = len(conds) <= 1 and all(unparse(i.test) in ("not detach_generator_exit",) and in_block(c, i.body) for i in conds)
        ctx.check(ok, c, "_terminate_and_reset() runs on every path of finally except the detached GeneratorExit one",
                  "_terminate_and_reset() in finally is guarded by %s" % [unparse(i.test) for i in conds])
    # the remaining outputs are dropped when an exception occurred
    rem = [s for s in tr.finalbody if isinstance(s, ast.Assign) and isinstance(s.value, ast.IfExp)]
    for s in rem:
        v = s.value
        ctx.check(unparse(v.test) == "self._exception" and isinstance(v.body, (ast.List,)) and not v.body.elts and dotted(v.orelse) == "self._jobs",
                  s, "leftover jobs are kept for draining only when no exception occurred")
    # _abort
    ab = F(ctx, "Parallel._abort")
    g = cfg_of(ab)
    st = [s for s in assigns_to(ab, "self._aborting") if is_const(s.value, True)]
    calls = [c for c in calls_in(ab) if call_attr(c) == "abort_everything"]
    if not calls:
        ctx.bad(ab, "_abort no longer asks the backend to abort: running tasks of a failed/closed call keep the workers busy", key=PAR + "::Parallel._abort::abort_everything")
        return
    ctx.check(bool(st) and g.every_path_to(g.nodes_of_all(calls), g.nodes_of_all(st)), st[0] if st else ab,
              "_abort sets _aborting = True before calling backend.abort_everything",
              "_abort does not set _aborting before aborting the backend: callbacks keep dispatching")
    if st:
        ctx.check(g.every_path_from([g.entry], g.nodes_of_all(st)), st[0], "_aborting = True on every path of _abort")
    for c in calls:
        v = kwarg(c, "ensure_ready", 0)
        src = None
        if v is not None and isinstance(v, ast.Name):
            for a_ in nodes_of_type(ab, ast.Assign):
                if v.id in stores_to(a_):
                    src = a_.value
        else:
            src = v
        ctx.check(src is not None and dotted(src) == "self._managed_backend", c,
                  "abort_everything(ensure_ready=self._managed_backend): a managed backend is left ready for the next call",
                  "ensure_ready is not self._managed_backend")
    tr2 = F(ctx, "Parallel._terminate_and_reset")
    g2 = cfg_of(tr2)
    term = [c for c in calls_in(tr2) if call_name(c) == "self._backend.terminate"]
    if not term:
        ctx.bad(tr2, "_terminate_and_reset no longer terminates an unmanaged backend: workers and temporary resources of the call are never released", key=PAR + "::Parallel._terminate_and_reset::terminate")
    for c in term:
        conds = g2.conditions_at(g2.nodes_of(c))
        ok = any(unparse(t) == "not self._managed_backend" and pol or unparse(t) == "self._managed_backend" and not pol for (_, t, pol) in conds)
        ctx.check(ok and len(conds) == 1, c, "backend.terminate() iff the backend is not managed by a with block",
                  "backend.terminate() is conditioned on %s" % [(unparse(t), p) for _, t, p in conds])
    cl = [s for s in assigns_to(tr2, "self._calling") if is_const(s.value, False)]
    ctx.check(bool(cl) and g2.every_path_from([g2.entry], g2.nodes_of_all(cl)), cl[0] if cl else tr2, "_calling is cleared on every path")
    # backends: terminate, then reconfigure iff ensure_ready
    for q, term_name in (("PoolManagerMixin.abort_everything", "self.terminate"), ("LokyBackend.abort_everything", "self._workers.terminate")):
        fn = F(ctx, q, BK)
        gg = cfg_of(fn)
        t_ = list(calls_in(fn, term_name))
        always = bool(t_) and gg.every_path_from([gg.entry], gg.nodes_of_all(t_))
        # equivalent split: terminate only when the backend must be made ready again (ensure_ready = the backend is
        # managed by a `with` block), provided an unmanaged backend is terminated by _terminate_and_reset in the finally
        # of the call (decided above: backend.terminate() iff not managed) - each call ends with no stray workers either way
        from ..core import cond_facts
        under_ready = bool(t_) and all([x for x in cond_facts(gg.conditions_at(gg.nodes_of(c_))) if "ensure_ready" in x[0]] == [("ensure_ready", True)] for c_ in t_)
        finally_covers = bool(term) and all(any(unparse(t__) == "not self._managed_backend" and pol or unparse(t__) == "self._managed_backend" and not pol for (_, t__, pol) in g2.conditions_at(g2.nodes_of(c_))) for c_ in term)
        ctx.check(always or (under_ready and finally_covers), t_[0] if t_ else fn,
                  "%s terminates the workers on every path" % q if always else "%s terminates the workers of a managed backend; an unmanaged one is terminated by _terminate_and_reset" % q,
                  "%s does not terminate the workers on every path" % q)
        if q.startswith("Loky") and t_:
            kv = kwarg(t_[0], "kill_workers")
            ctx.check(kv is not None and is_const(kv, True), t_[0], "loky workers are killed on abort (kill_workers=True)")
        cf = list(calls_in(fn, "self.configure"))
        if not cf:
            ctx.bad(fn, "%s no longer re-configures the backend when ensure_ready: after an aborted call inside a `with Parallel(...)` block the backend has no workers" % q, key="%s::%s::reconfigure" % (BK, q))
            continue
        for c in cf:
            conds = gg.conditions_at(gg.nodes_of(c))
            ctx.check(len(conds) == 1 and unparse(conds[0][1]) == "ensure_ready" and conds[0][2], c,
                      "%s reconfigures iff ensure_ready" % q)
            ctx.check(t_ and gg.every_path_to(gg.nodes_of(c), gg.nodes_of_all(t_)), c, "reconfigure happens after terminate")
            nj = kwarg(c, "n_jobs", 0)
            ctx.check(nj is not None and dotted(nj) == "self.parallel.n_jobs", c, "reconfigured with the call's n_jobs")


_CONTAINER_CTORS = {"collections.deque", "deque", "set", "list", "dict", "queue.Queue", "Queue", "queue.SimpleQueue", "queue.LifoQueue"}
_MUTATORS = {"append", "appendleft", "add", "put", "put_nowait", "get", "get_nowait", "popleft", "pop", "remove", "extend", "update", "clear", "discard", "insert", "setdefault"}


def _fresh_container(v):
    if isinstance(v, ast.Call) and call_name(v) in _CONTAINER_CTORS and not v.args and not v.keywords:
        return True
    if isinstance(v, (ast.List, ast.Dict, ast.Set)) and not getattr(v, "elts", getattr(v, "keys", [])):
        return True
    return False


def c04_reset(ctx):
    """Per-call state: every container created in Parallel.__init__ and
    mutated on a per-call path is re-created/emptied by every call."""
    cls = ctx.repo.cls(PAR, "Parallel")
    init = F(ctx, "Parallel.__init__")
    created = {}
    for n in body_walk(init):
        if isinstance(n, ast.Assign) and _fresh_container(n.value):
            for t in stores_to(n):
                if t.startswith("self.") and t.count(".") == 1:
                    created[t[5:]] = n
    # ... and containers that exist only per call (created by a per-call method): they count as well, so that moving
    # a creation out of __init__ (where it is redundant once every call re-creates it) changes nothing
    for st_ in cls.body:
        if isinstance(st_, ast.FunctionDef) and st_.name != "__init__":
            for n in body_walk(st_):
                if isinstance(n, ast.Assign) and _fresh_container(n.value):
                    for t in stores_to(n):
                        if t.startswith("self.") and t.count(".") == 1:
                            created.setdefault(t[5:], n)
    ctx.need(created, "no container attribute created in Parallel.__init__")
    # per-call functions: every method of Parallel except __init__, and the callback class
    percall = [st for st in cls.body if isinstance(st, ast.FunctionDef) and st.name != "__init__"]
    cb = ctx.repo.cls(PAR, "BatchCompletionCallBack")
    percall += [st for st in cb.body if isinstance(st, ast.FunctionDef) and st.name != "__init__"]
    mutated = {}
    for fn in percall:
        for n in ast.walk(fn):
            if isinstance(n, ast.Call) and isinstance(n.func, ast.Attribute) and n.func.attr in _MUTATORS:
                d = dotted(n.func.value)
                if d:
                    for pre in ("self.", "self.parallel.", "_parallel."):
                        if d.startswith(pre) and d[len(pre):] in created:
                            mutated.setdefault(d[len(pre):], []).append(n)
            elif isinstance(n, ast.Subscript) and isinstance(n.ctx, (ast.Store, ast.Del)):
                d = dotted(n.value)
                if d and d.startswith("self.") and d[5:] in created:
                    mutated.setdefault(d[5:], []).append(n)
    ctx.floor(len(mutated), 3, "per-call mutated containers of Parallel")
    call = F(ctx, "Parallel.__call__")
    gcall = cfg_of(call)
    outs = F(ctx, "Parallel._get_outputs")
    tr = _final_try(outs)
    ctx.need(tr is not None, "_get_outputs has no try/finally")
    go_calls = list(calls_in(call, "self._get_outputs"))
    ctx.need(go_calls, "__call__ no longer starts _get_outputs")
    for attr in sorted(mutated):
        where_reset = None
        # (a) unconditional statement of finally
        for s in tr.finalbody:
            if isinstance(s, ast.Assign) and ("self." + attr) in stores_to(s) and _fresh_container(s.value):
                where_reset = (s, "re-created in the unconditional part of _get_outputs.finally")
            if isinstance(s, ast.Expr) and isinstance(s.value, ast.Call) and call_name(s.value) == "self.%s.clear" % attr:
                where_reset = (s, "cleared in the unconditional part of _get_outputs.finally")
        # (b) prologue of __call__: dominates the start of dispatching
        if where_reset is None:
            def is_reset(n, attr=attr):
                if isinstance(n, ast.Assign) and ("self." + attr) in stores_to(n) and _fresh_container(n.value):
                    return True
                if isinstance(n, ast.Call) and call_name(n) == "self.%s.clear" % attr:
                    return True
                return False
            # `hasattr(self, <attribute created in the same __init__ block>)` is
            # true whenever the container exists: such guards are transparent
            sib = set()
            for a_ in ancestors(created[attr]):
                if isinstance(a_, (ast.If, ast.FunctionDef)):
                    blk = a_.body if in_block(created[attr], a_.body) else getattr(a_, "orelse", [])
                    for s_ in blk:
                        if isinstance(s_, ast.Assign):
                            sib.update(t[5:] for t in stores_to(s_) if t.startswith("self."))
                    break

            def assume(test, sib=sib):
                if isinstance(test, ast.Call) and call_name(test) == "hasattr" and len(test.args) == 2 and dotted(test.args[0]) == "self" \
                        and isinstance(test.args[1], ast.Constant) and test.args[1].value in sib:
                    return True
                return None
            ss = sites(ctx.res, call, is_reset, depth=2, must=True, assume=assume)
            if ss and gcall.every_path_to(gcall.nodes_of_all(go_calls), gcall.nodes_of_all(ss), avoid_edges=gcall.assume_edges(assume)):
                where_reset = (ss[0], "re-created on every path of __call__ before dispatching starts")
        n_mut = len(mutated[attr])
        if where_reset:
            ctx.ok(where_reset[0], "per-call container self.%s (%d mutating sites): %s" % (attr, n_mut, where_reset[1]))
        else:
            ctx.bad(created[attr], "container self.%s is created in __init__ only but mutated on per-call paths (%d sites, e.g. %s): "
                    "what an aborted call leaves in it is seen by the next call" % (attr, n_mut, unparse(enclosing_stmt(mutated[attr][0]), 80)),
                    key=PAR + "::Parallel::per-call reset of self." + attr)
    # scalars: everything _reset_run_tracking promises
    rrt = F(ctx, "Parallel._reset_run_tracking")
    g = cfg_of(rrt)
    want = {"n_dispatched_batches": 0, "n_dispatched_tasks": 0, "n_completed_tasks": 0, "_nb_consumed": 0,
            "_exception": False, "_aborting": False, "_aborted": False}
    for name, val in want.items():
        st = [s for s in assigns_to(rrt, "self." + name) if isinstance(s.value, ast.Constant) and s.value.value is val or (isinstance(s.value, ast.Constant) and s.value.value == val and type(s.value.value) is type(val))]
        ok = bool(st) and g.every_path_from([g.entry], g.nodes_of_all(st))
        ctx.check(ok, st[0] if st else rrt, "self.%s reset to %r on every normal path of _reset_run_tracking" % (name, val),
                  "self.%s is not reset to %r by _reset_run_tracking" % (name, val),
                  key=None if st else PAR + "::Parallel._reset_run_tracking::reset of self." + name)
    rc = [c for c in calls_in(call) if call_name(c) == "self._reset_run_tracking"]
    ctx.check(bool(rc) and gcall.every_path_to(gcall.nodes_of_all(go_calls), gcall.nodes_of_all(rc)), rc[0] if rc else call,
              "every call resets the run tracking before dispatching starts", "__call__ can start dispatching without _reset_run_tracking()",
              key=None if rc else PAR + "::Parallel.__call__::_reset_run_tracking call")
    # _pickle_cache style: attributes created per call are fine; iterating flag
    it = assigns_to(F(ctx, "Parallel._start"), "self._iterating")
    ctx.check(bool(it), it[0] if it else call, "_iterating is initialised by _start on every call")


    # (d) the sequential path (n_jobs == 1) is a path of its own: an attribute that a method reachable from
    # _get_sequential_output READS must have been given a value on that path - by __init__, by _reset_run_tracking, by a
    # store of __call__ that dominates the sequential branch, or by the sequential path itself. Otherwise the read raises
    # AttributeError; in a `finally` it replaces the task's own exception.
    seq = F(ctx, "Parallel._get_sequential_output")
    by_name = {st_.name: st_ for st_ in cls.body if isinstance(st_, ast.FunctionDef)}
    reach, todo = {}, [seq]
    while todo:
        fn_ = todo.pop()
        if fn_.name in reach:
            continue
        reach[fn_.name] = fn_
        for c_ in calls_in(fn_):
            nm_ = call_name(c_) or ""
            if nm_.startswith("self.") and nm_[5:] in by_name and len(reach) < 40:
                todo.append(by_name[nm_[5:]])
    def stores_of(fn_):
        return {n.attr for n in ast.walk(fn_) if isinstance(n, ast.Attribute) and isinstance(n.ctx, ast.Store) and isinstance(n.value, ast.Name) and n.value.id == "self"}
    always = stores_of(init) | (stores_of(by_name["_reset_run_tracking"]) if "_reset_run_tracking" in by_name else set())
    class_level = {t.id for st_ in cls.body if isinstance(st_, ast.Assign) for t in st_.targets if isinstance(t, ast.Name)} | set(by_name)
    props = {st_.name for st_ in cls.body if isinstance(st_, ast.FunctionDef)}
    seq_stores = set()
    for fn_ in reach.values():
        seq_stores |= stores_of(fn_)
    seq_calls = [c_ for c_ in calls_in(call) if call_name(c_) == "self._get_sequential_output"]
    dom = set()
    for n in ast.walk(call):
        if isinstance(n, ast.Attribute) and isinstance(n.ctx, ast.Store) and isinstance(n.value, ast.Name) and n.value.id == "self" and seq_calls:
            st_ = n
            while not isinstance(st_, ast.stmt):
                st_ = parent(st_)
            if gcall.every_path_to(gcall.nodes_of(seq_calls[0]), gcall.nodes_of(st_)):
                dom.add(n.attr)
    n_reads = 0
    for fn_ in reach.values():
        for n in ast.walk(fn_):
            if isinstance(n, ast.Attribute) and isinstance(n.ctx, ast.Load) and isinstance(n.value, ast.Name) and n.value.id == "self" and not isinstance(parent(n), ast.Call):
                a = n.attr
                n_reads += 1
                if a in always or a in class_level or a in seq_stores or a in dom or a.startswith("__"):
                    continue
                # inherited (Logger) attributes and attributes never stored anywhere in the class are not judged
                stored_somewhere = any(a in stores_of(m_) for m_ in by_name.values())
                if not stored_somewhere:
                    continue
                ctx.bad(n, "%s reads self.%s on the sequential path (n_jobs == 1), where nothing has stored it yet (it is only set on the dispatching path of __call__): AttributeError - "
                           "raised from the `finally` of _get_sequential_output it replaces the failing task's own exception" % (fn_.name, a),
                        key=PAR + "::Parallel.%s::reads %s on the sequential path" % (fn_.name, a))
    ctx.floor(n_reads, 10, "attribute reads on the sequential path")
    # (c) any other attribute of Parallel that the callback class or a dispatch/retrieval method writes during a call
    # (flags, counters, remembered jobs) is per-call state too: some prologue/epilogue function must (re)initialise it,
    # otherwise what one call leaves there is seen by the next call on the same object.
    workers = {"_dispatch", "dispatch_one_batch", "dispatch_next", "_register_new_job", "_retrieve", "_raise_error_fast", "_abort", "_wait_retrieval", "print_progress", "_print"}
    prologue = {"_reset_run_tracking", "__call__", "_start", "_get_outputs", "_get_sequential_output", "_terminate_and_reset"}
    written = {}
    for st_ in cls.body:
        if isinstance(st_, ast.FunctionDef) and st_.name in workers:
            for n in ast.walk(st_):
                if isinstance(n, ast.Attribute) and isinstance(n.ctx, ast.Store) and isinstance(n.value, ast.Name) and n.value.id == "self":
                    written.setdefault(n.attr, n)
    for st_ in cb.body:
        if isinstance(st_, ast.FunctionDef) and st_.name != "__init__":
            for n in ast.walk(st_):
                if isinstance(n, ast.Attribute) and isinstance(n.ctx, ast.Store) and dotted(n.value) in ("self.parallel", "parallel"):
                    written.setdefault(n.attr, n)
    reinit = set()
    for st_ in cls.body:
        if isinstance(st_, ast.FunctionDef) and st_.name in prologue:
            for n in ast.walk(st_):
                if isinstance(n, ast.Assign):
                    reinit.update(t[5:] for t in stores_to(n) if t.startswith("self.") and t.count(".") == 1)
    for attr in sorted(written):
        ctx.check(attr in reinit, written[attr], "per-call attribute %s is (re)initialised by a per-call prologue/epilogue" % attr,
                  "Parallel.%s is written while a call runs but no per-call prologue/epilogue (%s) re-initialises it: what a failed or timed-out call leaves there is seen by the next call on the same object"
                  % (attr, ", ".join(sorted(prologue))), key=PAR + "::Parallel::per-call attribute " + attr)

def c04_callid(ctx):
    call = F(ctx, "Parallel.__call__")
    g = cfg_of(call)
    st = assigns_to(call, "self._call_id")
    go = list(calls_in(call, "self._get_outputs"))
    ctx.need(go, "__call__ no longer starts _get_outputs")
    if not st:
        ctx.bad(call, "__call__ does not refresh _call_id: callbacks of a previous (aborted) call are not told apart",
                key=PAR + "::Parallel.__call__::refresh of _call_id")
        return
    for s in st:
        v = s.value
        fresh = isinstance(v, ast.Attribute) and v.attr == "hex" and isinstance(v.value, ast.Call) and call_name(v.value) in ("uuid4", "uuid.uuid4")
        ctx.check(fresh, s, "_call_id is a fresh uuid4 per call")
        ctx.check(under_lock(s), s, "_call_id is refreshed under the dispatch lock")
    ctx.check(g.every_path_to(g.nodes_of_all(go), g.nodes_of_all(st)), st[0], "every path to the start of dispatching refreshes _call_id")
    cbi = F(ctx, "BatchCompletionCallBack.__init__")
    s2 = assigns_to(cbi, "self.parallel_call_id")
    ctx.check(bool(s2) and dotted(s2[0].value) == "parallel._call_id", s2[0] if s2 else cbi, "tracker records the call id current at its creation")
    cb = F(ctx, "BatchCompletionCallBack.__call__")
    gc_ = cfg_of(cb)
    cmps = [n for n in nodes_of_type(cb, ast.If) if isinstance(n.test, ast.Compare) and {"self.parallel._call_id", "self.parallel_call_id"} <= attrs_in(n.test)]
    rr = list(calls_in(cb, "self._retrieve_result"))
    ctx.need(rr, "callback no longer calls _retrieve_result")
    if not cmps:
        ctx.bad(cb, "callback does not compare its call id with the current one: a late completion of an aborted call is registered in the next call",
                key=PAR + "::BatchCompletionCallBack.__call__::stale-callback guard")
        return
    for n in cmps:
        ne = isinstance(n.test.ops[0], (ast.NotEq, ast.IsNot))
        ret_in = any(isinstance(s, ast.Return) for s in (n.body if ne else n.orelse))
        ctx.check(ret_in, n, "stale call id => return without touching the Parallel object")
        ctx.check(under_lock(n), n, "call-id comparison is made under the dispatch lock")
        conds = gc_.conditions_at(gc_.nodes_of_all(rr))
        ctx.check(any(i is n and pol == (not ne) for (i, t, pol) in conds), n, "result retrieval is reached only with a matching call id")
    ab = [n for n in nodes_of_type(cb, ast.If) if mentions(n.test, "self.parallel._aborting") and any(isinstance(s, ast.Return) for s in n.body)]
    ctx.check(bool(ab) and gc_.every_path_to(gc_.nodes_of_all(rr), gc_.nodes_of_all(ab)), ab[0] if ab else cb,
              "aborting => the callback returns before retrieving/dispatching")
    # the abort flag is read in the same critical section that registers the outcome: a value read before the lock is
    # taken is stale once the lock is obtained (the aborting thread resets the job containers under that lock)
    ab_locked = [n for n in ab if under_lock(n)]
    ctx.check(bool(ab_locked) and gc_.every_path_to(gc_.nodes_of_all(rr), gc_.nodes_of_all(ab_locked)), ab_locked[0] if ab_locked else (ab[0] if ab else cb),
              "the abort flag is tested under the dispatch lock, in the section that retrieves and registers the result",
              "the callback tests _aborting before taking the dispatch lock: a completion that waits for the lock while the call is torn down registers its tracker afterwards, in the containers of the NEXT call")
    # the id is renewed before the call can be observed by the backend or by user code: a completion of the previous call
    # that fires meanwhile must already see a foreign id
    hooks = [c for c in calls_in(call) if call_name(c) in ("self._backend.start_call", "iter")]
    for c in hooks:
        ctx.check(g.every_path_to(g.nodes_of(c), g.nodes_of_all(st)), c, "_call_id is renewed before %s" % call_name(c),
                  "%s(...) runs before _call_id is renewed: a completion callback of the previous (closed or aborted) call that fires during it passes the stale-call guard and dispatches from the closed call's input" % call_name(c))
    for c in rr:
        ctx.check(under_lock(c), c, "outcome registration in the callback runs under the dispatch lock")


def c04_callback_total(ctx):
    """A completion is never dropped: on the retrieve-callback branch every path of the callback that leaves WITHOUT
    retrieving the result is one of the two sanctioned ones (the call id is stale, the call is aborting). Any other early
    return loses a batch whose worker has finished - nothing registers its outcome and the caller waits for ever."""
    cb = F(ctx, "BatchCompletionCallBack.__call__")
    g = cfg_of(cb)
    rr = [c for c in calls_in(cb) if call_name(c) in ("self._retrieve_result", "self._register_outcome")]
    ctx.need(rr, "the callback no longer retrieves the result")
    n = 0
    for r in nodes_of_type(cb, ast.Return):
        if any(g.path_exists(g.nodes_of(x), g.nodes_of(r)) for x in rr):
            continue
        n += 1
        facts = g.fact_set(g.nodes_of(r))
        texts = {(str(t), p) for (t, p) in facts}
        ok = any(("_call_id" in t and "==" in t and not p) or (t.endswith("._aborting") and p) or (t.endswith("supports_retrieve_callback") and not p) for (t, p) in texts)
        ctx.check(ok, r, "an early return of the callback is a sanctioned one (stale call id / aborting / backend without retrieval callback)",
                  "the completion callback returns without retrieving the result under %s: the outcome of a finished batch is never registered and the caller waits for ever"
                  % (sorted(texts) or "no condition"))
    ctx.floor(n, 2, "early returns of the completion callback")


def c04_wrap(ctx):
    f = F(ctx, "_TracebackCapturingWrapper.__call__", UT)
    hs = [h for t in nodes_of_type(f, ast.Try) for h in t.handlers]
    ok = [h for h in hs if h.type is None or unparse(h.type) == "BaseException"]
    if not ok:
        ctx.bad(f, "_TracebackCapturingWrapper.__call__ does not catch BaseException: the pool sees a raw failure")
    for h in ok:
        rets = [n for n in walk_local(ast.Module(body=h.body, type_ignores=[])) if isinstance(n, ast.Return)]
        good = rets and all(isinstance(r.value, ast.Call) and call_name(r.value) == "_ExceptionWithTraceback" and r.value.args and dotted(r.value.args[0]) == h.name for r in rets)
        ctx.check(good, h, "worker-side wrapper returns _ExceptionWithTraceback(<caught exception>)")
    call = [c for t in nodes_of_type(f, ast.Try) for c in calls_in(ast.Module(body=t.body, type_ignores=[]), "self.func")]
    ctx.check(bool(call), f, "the task call is inside the try")
    sub = F(ctx, "PoolManagerMixin.submit", BK)
    wr = [c for c in calls_in(sub) if call_name(c) == "_TracebackCapturingWrapper" and c.args and dotted(c.args[0]) == "func"]
    ctx.check(bool(wr), sub, "pool submit wraps the batch in _TracebackCapturingWrapper")
    rb = ctx.repo.func("joblib/externals/loky/process_executor.py", "_rebuild_exc")
    p0 = rb.args.args[0].arg
    ctx.check(all(r.value is not None and dotted(r.value) == p0 for r in nodes_of_type(rb, ast.Return)) and nodes_of_type(rb, ast.Return), rb,
              "loky _rebuild_exc returns the original exception object (cause attached, type untouched)")


# ---------------------------------------------------------------------------
# C01 clauses
# ---------------------------------------------------------------------------

_PFX = ("self.", "self.parallel.", "_parallel.", "parallel.")


def _state_attr(d):
    """'_jobs' for 'self._jobs' / 'self.parallel._jobs' ... else None."""
    if not d:
        return None
    for p in sorted(_PFX, key=len, reverse=True):
        if d.startswith(p) and "." not in d[len(p):]:
            return d[len(p):]
    return None


GUARDED_CALLS = {
    "_ready_batches": {"get", "put", "get_nowait", "put_nowait"},
    "_jobs": {"append", "popleft", "pop", "appendleft", "remove", "extend", "insert", "clear"},
    "_jobs_set": {"add", "remove", "discard", "pop", "clear"},
}
GUARDED_COUNTERS = {"n_dispatched_tasks", "n_dispatched_batches", "n_completed_tasks"}
# functions that run before any callback thread of this call exists, or when
# no callback thread exists at all (one reason each):
LOCK_EXEMPT = {
    "Parallel.__init__": "object under construction",
    "Parallel._reset_run_tracking": "prologue: no batch of this call dispatched yet; late callbacks of the previous call are cut by the call-id guard",
    "Parallel._get_sequential_output": "n_jobs == 1: no backend, no callback thread",
    "Parallel.__call__": "prologue before the first dispatch",
}


def _par_methods(ctx):
    out = []
    for cname in ("Parallel", "BatchCompletionCallBack"):
        c = ctx.repo.cls(PAR, cname)
        for st in c.body:
            if isinstance(st, ast.FunctionDef):
                out.append(st)
    return out


def guarded_ops(ctx):
    ops = []
    for fn in _par_methods(ctx):
        for n in body_walk(fn):
            if isinstance(n, ast.Call) and isinstance(n.func, ast.Attribute):
                a = _state_attr(dotted(n.func.value))
                if a in GUARDED_CALLS and n.func.attr in GUARDED_CALLS[a]:
                    ops.append((fn, n, "%s.%s()" % (a, n.func.attr)))
                # advancing the task iterator
                if call_name(n) == "list" and False:
                    pass
            if isinstance(n, ast.Call) and call_name(n) in ("itertools.islice", "islice") and n.args and dotted(n.args[0]) in ("iterator", "self._original_iterator"):
                p = parent(n)
                if isinstance(p, ast.Call) and call_name(p) in ("list", "tuple"):
                    ops.append((fn, n, "advance of the task iterator (list(islice(...)))"))
            if isinstance(n, ast.AugAssign):
                a = _state_attr(dotted(n.target))
                if a in GUARDED_COUNTERS:
                    ops.append((fn, n, "%s %s=" % (a, type(n.op).__name__)))
        if fn._qualname == "Parallel.dispatch_next":
            for n in body_walk(fn):
                if isinstance(n, ast.Assign):
                    for t in stores_to(n):
                        if _state_attr(t) in ("_iterating", "_original_iterator"):
                            ops.append((fn, n, "store to %s from the callback path" % _state_attr(t)))
    return ops


def c01_lock(ctx, only_iterator=False):
    entry = [F(ctx, "BatchCompletionCallBack.__call__"), F(ctx, "Parallel.__call__"), F(ctx, "Parallel._get_outputs"),
             F(ctx, "Parallel._retrieve"), F(ctx, "BatchCompletionCallBack.get_result"), F(ctx, "BatchCompletionCallBack.get_status")]
    ops = guarded_ops(ctx)
    n = 0
    for fn, node, what in ops:
        if only_iterator and "iterator" not in what and "_ready_batches" not in what and "_iterating" not in what:
            continue
        if fn._qualname in LOCK_EXEMPT:
            ctx.note("exempt %s in %s: %s" % (what, fn._qualname, LOCK_EXEMPT[fn._qualname]))
            continue
        n += 1
        ok, why = held_at(ctx.res, node, LOCK_NAMES, LOCK, entry, SCOPE)
        ctx.check(ok, node, "%s runs with the dispatch lock held: %s" % (what, why),
                  "%s can run WITHOUT the dispatch lock (%s): callback threads and the caller thread race on it" % (what, why))
    ctx.floor(n, 4 if only_iterator else 10, "guarded operations on dispatch state")
    if only_iterator:
        return
    # the lock is re-acquired by the thread that holds it (callback -> _register_outcome, iterator-error path):
    # it has to be re-entrant
    nested = []
    for fn in _par_methods(ctx):
        takes = [w for w in nodes_of_type(fn, ast.With) if any(dotted(i.context_expr) in LOCK_NAMES for i in w.items)]
        if not takes:
            continue
        for caller, call in ctx.res.callers(fn, SCOPE):
            ok, _ = held_at(ctx.res, call, LOCK_NAMES, LOCK, entry, SCOPE)
            if ok:
                nested.append((caller, fn))
    init = F(ctx, "Parallel.__init__")
    ctor = [a for a in assigns_to(init, "self._lock")]
    ctx.need(ctor, "Parallel.__init__ no longer creates self._lock")
    kind = call_name(ctor[0].value) if isinstance(ctor[0].value, ast.Call) else None
    if nested:
        ctx.check(kind in ("threading.RLock", "RLock"), ctor[0], "the dispatch lock is re-entrant (it is re-acquired while held, e.g. %s -> %s)" % (nested[0][0]._qualname, nested[0][1]._qualname),
                  "the dispatch lock is a %s but %s calls %s while holding it, which takes it again: the callback thread deadlocks on itself" % (kind, nested[0][0]._qualname, nested[0][1]._qualname))
    else:
        ctx.check(kind in ("threading.RLock", "RLock", "threading.Lock", "Lock"), ctor[0], "the dispatch lock is a threading lock")


def c01_reg_before_submit(ctx):
    f = F(ctx, "Parallel._dispatch")
    g = cfg_of(f)
    subs = [c for c in calls_in(f) if call_name(c) == "self._backend.submit"]
    ctx.need(subs, "_dispatch no longer calls self._backend.submit")

    def is_reg(n):
        return isinstance(n, ast.Call) and isinstance(n.func, ast.Attribute) and (
            (_state_attr(dotted(n.func.value)) == "_jobs" and n.func.attr == "append") or
            (_state_attr(dotted(n.func.value)) == "_jobs_set" and n.func.attr == "add"))
    regs = sites(ctx.res, f, is_reg, depth=2, must=True)
    for s in subs:
        ctx.check(bool(regs) and g.every_path_to(g.nodes_of(s), g.nodes_of_all(regs)), s,
                  "the batch tracker is registered (jobs queue / jobs set) on every path before backend.submit",
                  "backend.submit can be reached before the tracker is registered: a fast completion callback finds no job entry")
        cb = kwarg(s, "callback", 1)
        trackers = [a for a in nodes_of_type(f, ast.Assign) if isinstance(a.value, ast.Call) and call_name(a.value) == "BatchCompletionCallBack"]
        tn = trackers[0].targets[0].id if trackers and isinstance(trackers[0].targets[0], ast.Name) else None
        ctx.check(cb is not None and tn is not None and dotted(cb) == tn, s, "submit receives the registered tracker as callback")
        reg_args = [r.args[0] for r in regs if isinstance(r, ast.Call) and r.args]
        ctx.check(any(dotted(a) == tn for a in reg_args), s, "the registered object is the tracker passed to submit")
        ctx.check(s.args and dotted(s.args[0]) == (f.args.args[1].arg if len(f.args.args) > 1 else None), s, "submit receives the batch given to _dispatch")
    rj = [c for c in calls_in(f) if call_attr(c) == "register_job"]
    ctx.check(bool(rj) and g.every_path_to(g.nodes_of_all(rj), g.nodes_of_all(subs)), rj[0] if rj else f, "register_job(job) follows submit")
    # _register_new_job stores into the structure the retrieval side reads
    rn = F(ctx, "Parallel._register_new_job")
    gg = cfg_of(rn)
    for n in body_walk(rn):
        if is_reg(n):
            conds = gg.conditions_at(gg.nodes_of(n))
            ordered = n.func.attr == "append"
            ok = any(unparse(t) == "self.return_ordered" and pol == ordered for (_, t, pol) in conds)
            ctx.check(ok, n, "%s iff return_ordered is %s" % (unparse(n, 50), ordered))


def c01_fifo(ctx):
    bad_methods = {"pop", "appendleft", "reverse", "rotate", "insert", "sort", "extendleft"}
    n_app = n_pop = 0
    for fn in _par_methods(ctx):
        aliases = {"self._jobs", "self.parallel._jobs", "_parallel._jobs"}
        for n in body_walk(fn):
            if isinstance(n, ast.Assign):
                v = n.value
                srcs = [v.body, v.orelse] if isinstance(v, ast.IfExp) else [v]
                if any(dotted(s) in aliases for s in srcs):
                    for t in n.targets:
                        if isinstance(t, ast.Name):
                            aliases.add(t.id)
        for n in body_walk(fn):
            if isinstance(n, ast.Call) and isinstance(n.func, ast.Attribute) and dotted(n.func.value) in aliases:
                m = n.func.attr
                if m in bad_methods:
                    ctx.bad(n, "%s() on the jobs queue breaks submission-order (FIFO) retrieval" % m)
                elif m == "append":
                    n_app += 1
                    ctx.ok(n, "producer side appends on the right")
                elif m == "popleft":
                    n_pop += 1
                    ctx.ok(n, "consumer side pops from the left")
            if isinstance(n, ast.Call) and call_name(n) in ("reversed", "sorted") and n.args and dotted(n.args[0]) in aliases:
                ctx.bad(n, "%s() over the jobs queue re-orders retrieval" % call_name(n))
            if isinstance(n, ast.Subscript) and dotted(n.value) in aliases and isinstance(n.ctx, ast.Load):
                idx = const_value(n.slice)
                ctx.check(idx == 0, n, "only the head of the jobs queue is inspected (index 0)",
                          "jobs queue indexed at %s: retrieval waits on / takes a job that is not the oldest" % unparse(n.slice))
    ctx.floor(n_app, 2, "append sites on the jobs queue")
    ctx.floor(n_pop, 2, "popleft sites on the jobs queue")


def _single_defs(func, name):
    return [a for a in nodes_of_type(func, ast.Assign) if name in stores_to(a)]


def lower_bound(expr, func=None, depth=2):
    """Integer lower bound of an expression built from max/min/constants,
    or None."""
    if isinstance(expr, ast.Constant) and isinstance(expr.value, int):
        return expr.value
    if isinstance(expr, ast.Call) and call_name(expr) == "max":
        bs = [lower_bound(a, func, depth) for a in expr.args]
        bs = [b for b in bs if b is not None]
        return max(bs) if bs else None
    if isinstance(expr, ast.Call) and call_name(expr) == "min":
        bs = [lower_bound(a, func, depth) for a in expr.args]
        return min(bs) if bs and all(b is not None for b in bs) else None
    if isinstance(expr, ast.Name) and func is not None and depth > 0:
        defs = _single_defs(func, expr.id)
        bs = [lower_bound(d.value, func, depth - 1) for d in defs]
        if defs and all(b is not None for b in bs):
            return min(bs)
    return None


def c01_partition(ctx):
    f = F(ctx, "Parallel.dispatch_one_batch")
    loops = []
    for n in nodes_of_type(f, ast.For):
        if any(call_name(c) == "BatchedCalls" for c in calls_in(n)):
            loops.append(n)
    ctx.need(loops, "the loop building BatchedCalls was not found in dispatch_one_batch")
    for lp in loops:
        it = lp.iter
        bc = [c for c in calls_in(lp) if call_name(c) == "BatchedCalls"][0]
        sl = bc.args[0] if bc.args else None
        if not (isinstance(it, ast.Call) and call_name(it) == "range" and isinstance(lp.target, ast.Name) and isinstance(sl, ast.Subscript) and isinstance(sl.slice, ast.Slice)):
            raise_und = "batch construction is not the recognised range()/slice shape"
            ctx.need(False, raise_und)
        i = lp.target.id
        a = it.args
        start = a[0] if len(a) >= 2 else ast.Constant(0)
        stop = a[1] if len(a) >= 2 else a[0]
        step = a[2] if len(a) >= 3 else ast.Constant(1)
        X = dotted(sl.value)
        ctx.check(const_value(start) == 0, lp, "batch offsets start at 0", "batch offsets start at %s: leading tasks are skipped" % unparse(start))
        ctx.check(isinstance(stop, ast.Call) and call_name(stop) == "len" and dotted(stop.args[0]) == X, lp,
                  "batch offsets cover len(%s) of the same sequence that is sliced" % X,
                  "range stop %s is not len() of the sliced sequence %s: trailing tasks are lost or out of range" % (unparse(stop), X))
        lo, hi = sl.slice.lower, sl.slice.upper
        ctx.check(lo is not None and dotted(lo) == i and sl.slice.step is None, bc, "slice starts at the loop offset",
                  "slice lower bound %s is not the loop offset" % (unparse(lo) if lo else None))
        ok_hi = isinstance(hi, ast.BinOp) and isinstance(hi.op, ast.Add) and (
            (dotted(hi.left) == i and ast.dump(hi.right) == ast.dump(step)) or (dotted(hi.right) == i and ast.dump(hi.left) == ast.dump(step)))
        ctx.check(ok_hi, bc, "slice width equals the range step (consecutive slices tile the sequence: no gap, no overlap)",
                  "slice upper bound %s is not offset + step (%s): tasks are dropped or run twice" % (unparse(hi) if hi else None, unparse(step)))
        lb = lower_bound(step, f)
        ctx.check(lb is not None and lb >= 1, lp, "step has lower bound %s >= 1 on every definition (max(1, ...))" % lb,
                  "step %s is not bounded below by 1" % unparse(step))
        # X is the materialised slice of the iterator
        defs = _single_defs(f, X)
        ctx.check(len(defs) == 1 and isinstance(defs[0].value, ast.Call) and call_name(defs[0].value) == "list" and
                  any(call_name(c) in ("itertools.islice", "islice") for c in calls_in(defs[0].value)), defs[0] if defs else lp,
                  "%s is the list of items just taken from the task iterator" % X)


def c01_each_once(ctx):
    f = F(ctx, "Parallel.dispatch_one_batch")
    g = cfg_of(f)
    puts = [c for c in calls_in(f) if call_attr(c) in ("put", "put_nowait") and _state_attr(dotted(c.func.value)) == "_ready_batches"]
    gets = [c for c in calls_in(f) if call_attr(c) in ("get", "get_nowait") and _state_attr(dotted(c.func.value)) == "_ready_batches"]
    ctx.need(puts and gets, "look-ahead queue put/get not found in dispatch_one_batch")
    loops = [n for n in nodes_of_type(f, ast.For) if any(call_name(c) == "BatchedCalls" for c in calls_in(n))]
    ctx.need(loops, "batch-building loop not found")
    lp = loops[0]
    in_loop = [p for p in puts if in_block(p, lp.body)]
    direct = [p for p in in_loop if enclosing_stmt(p) in lp.body]
    ctx.check(len(in_loop) == 1 and len(direct) == 1, in_loop[0] if in_loop else lp,
              "exactly one unconditional put per constructed batch",
              "the batch loop has %d put site(s), %d unconditional: a batch can be skipped or queued twice" % (len(in_loop), len(direct)))
    if direct:
        p = direct[0]
        built = [a for a in lp.body if isinstance(a, ast.Assign) and isinstance(a.value, ast.Call) and call_name(a.value) == "BatchedCalls"]
        arg = p.args[0] if p.args else None
        ok = (built and isinstance(built[0].targets[0], ast.Name) and dotted(arg) == built[0].targets[0].id) or (isinstance(arg, ast.Call) and call_name(arg) == "BatchedCalls")
        ctx.check(ok, p, "the object queued is the BatchedCalls built in this iteration")
        ctx.check(not any(isinstance(n, (ast.Continue, ast.Break)) for s in lp.body for n in walk_local(s)), lp, "no continue/break in the batch loop")
    for p in puts:
        if not in_block(p, lp.body):
            ctx.bad(p, "a put on the look-ahead queue outside the batch-building loop")
    # every batch taken from the queue is dispatched (or is empty)
    disp = [c for c in calls_in(f) if call_name(c) == "self._dispatch"]
    ctx.need(disp, "dispatch_one_batch no longer calls self._dispatch")
    tvars = set()
    for c in gets:
        st = enclosing_stmt(c)
        if isinstance(st, ast.Assign) and isinstance(st.targets[0], ast.Name):
            tvars.add(st.targets[0].id)
        else:
            ctx.bad(c, "value taken from the look-ahead queue is not bound (dropped)")
    ctx.check(len(tvars) == 1, gets[0], "all gets bind the same variable")
    tv = sorted(tvars)[0] if tvars else None
    for d in disp:
        ctx.check(d.args and dotted(d.args[0]) == tv, d, "the batch taken from the queue is what gets dispatched")
    allowed = set(g.nodes_of_all(disp))
    for r in nodes_of_type(f, ast.Return):
        conds = g.conditions_at(g.nodes_of(r))
        for (_, t, pol) in conds:
            u = unparse(t)
            if (u in ("len(%s) == 0" % tv, "0 == len(%s)" % tv, "not %s" % tv) and pol) or (u in ("len(%s) != 0" % tv, "len(%s) > 0" % tv, "%s" % tv) and not pol):
                allowed.update(g.nodes_of(r))
    for c in gets:
        ctx.check(g.every_path_from(g.nodes_of(c), allowed, skip_exc=True), c,
                  "every normal path from this get reaches _dispatch(tasks) unless the batch is empty",
                  "a non-empty batch taken from the look-ahead queue can be dropped without being dispatched")
    for d in disp:
        ctx.check(not g.in_cycle(g.nodes_of(d)[0]), d, "at most one _dispatch per dispatch_one_batch call")
        shared = [w for w in enclosing_withs(d) if any(dotted(i.context_expr) in LOCK_NAMES for i in w.items) and all(in_block(c, w.body) for c in gets)]
        ctx.check(bool(shared), d, "taking a batch from the look-ahead queue and registering/submitting it happen in ONE critical section (submission order = queue order)",
                  "the batch is taken under the lock but dispatched after the lock was released: another thread can take and register the next batch first, so results come back out of submission order")
    # nobody else touches the look-ahead queue
    for fn in _par_methods(ctx):
        if fn is f:
            continue
        for n in body_walk(fn):
            if isinstance(n, ast.Call) and isinstance(n.func, ast.Attribute) and _state_attr(dotted(n.func.value)) == "_ready_batches":
                ctx.bad(n, "the look-ahead queue is accessed outside dispatch_one_batch")
    # the result of get / the return value of dispatch: True after dispatch
    for d in disp:
        nxt = [r for r in nodes_of_type(f, ast.Return) if g.path_exists(g.nodes_of(d), g.nodes_of(r))]
        ctx.check(nxt and all(is_const(r.value, True) for r in nxt), d, "dispatch_one_batch returns True after dispatching")


def c01_flatten(ctx):
    n_loops = 0
    for q in ("Parallel._retrieve", "Parallel._get_outputs"):
        f = F(ctx, q)
        for a in nodes_of_type(f, ast.Assign):
            if isinstance(a.value, ast.Call) and call_attr(a.value) == "get_result" and isinstance(a.targets[0], ast.Name):
                var = a.targets[0].id
                loops = [l for l in nodes_of_type(f, ast.For) if dotted(l.iter) == var]
                if not loops:
                    ctx.bad(a, "result batch obtained from get_result is not iterated in order")
                    continue
                for l in loops:
                    n_loops += 1
                    ys = [n for s in l.body for n in walk_local(s) if isinstance(n, ast.Yield)]
                    direct = [y for y in ys if enclosing_stmt(y) in l.body]
                    ok = len(ys) == 1 and len(direct) == 1 and dotted(ys[0].value) == dotted(l.target)
                    ctx.check(ok, l, "every element of the batch result is yielded once, in order, unconditionally",
                              "flattening loop does not yield each element exactly once in order")
                    ctx.check(not any(isinstance(n, (ast.Continue, ast.Break)) for s in l.body for n in walk_local(s)), l, "no continue/break while flattening")
    ctx.floor(n_loops, 2, "flattening loops")
    bc = F(ctx, "BatchedCalls.__call__")
    rets = nodes_of_type(bc, ast.Return)
    ctx.need(len(rets) == 1, "BatchedCalls.__call__ has not exactly one return")
    v = rets[0].value
    if isinstance(v, ast.ListComp):
        gen = v.generators
        ok = len(gen) == 1 and not gen[0].ifs and dotted(gen[0].iter) == "self.items"
        ctx.check(ok, rets[0], "BatchedCalls runs its items by one in-order pass over self.items (no filter)",
                  "BatchedCalls.__call__ iterates %s%s" % (unparse(gen[0].iter), " with a filter" if gen and gen[0].ifs else ""))
        tg = gen[0].target
        e = v.elt
        names = [x.id for x in tg.elts] if isinstance(tg, ast.Tuple) and all(isinstance(x, ast.Name) for x in tg.elts) else []
        ok2 = (len(names) == 3 and isinstance(e, ast.Call) and dotted(e.func) == names[0] and len(e.args) == 1 and isinstance(e.args[0], ast.Starred)
               and dotted(e.args[0].value) == names[1] and len(e.keywords) == 1 and e.keywords[0].arg is None and dotted(e.keywords[0].value) == names[2])
        ctx.check(ok2, rets[0], "each item (func, args, kwargs) is called as func(*args, **kwargs)")
    else:
        ctx.need(False, "BatchedCalls.__call__ does not return a list comprehension (shape not recognised)")
    bi = F(ctx, "BatchedCalls.__init__")
    st = assigns_to(bi, "self.items")
    ctx.check(len(st) == 1 and isinstance(st[0].value, ast.Call) and call_name(st[0].value) == "list" and dotted(st[0].value.args[0]) == bi.args.args[1].arg,
              st[0] if st else bi, "BatchedCalls.items is list(<slice>) in order")
    so = F(ctx, "Parallel._get_sequential_output")
    loops = [l for l in nodes_of_type(so, ast.For) if isinstance(l.target, ast.Tuple) and len(l.target.elts) == 3]
    ctx.need(loops, "sequential loop over (func, args, kwargs) not found")
    for l in loops:
        names = [dotted(x) for x in l.target.elts]
        calls = [c for s in l.body for c in calls_in(s) if dotted(c.func) == names[0]]
        ok = len(calls) == 1 and enclosing_stmt(calls[0]) in l.body and len(calls[0].args) == 1 and isinstance(calls[0].args[0], ast.Starred) and dotted(calls[0].args[0].value) == names[1]
        ctx.check(ok, l, "sequential path calls each task exactly once, unconditionally")
        ys = [n for s in l.body for n in walk_local(s) if isinstance(n, ast.Yield)]
        st_ = enclosing_stmt(calls[0]) if calls else None
        res = st_.targets[0].id if isinstance(st_, ast.Assign) and isinstance(st_.targets[0], ast.Name) else None
        ctx.check(len(ys) == 1 and enclosing_stmt(ys[0]) in l.body and dotted(ys[0].value) == res, l, "sequential path yields each result once, in order")
        ctx.check(dotted(l.iter) in ("iterable",), l, "sequential loop iterates the task iterable itself")
    # the optional re-batching of the sequential path keeps every task, in order
    for a in nodes_of_type(so, ast.Assign):
        if "iterable" in stores_to(a):
            v = a.value
            ok = isinstance(v, ast.GeneratorExp) and len(v.generators) == 2 and not v.generators[0].ifs and not v.generators[1].ifs \
                and dotted(v.generators[1].iter) == dotted(v.generators[0].target) and dotted(v.elt) == dotted(v.generators[1].target)
            ctx.check(ok, a, "re-batched sequential input is flattened again by plain nested iteration (every task once, in order)",
                      "the sequential path re-binds the iterable to %s: tasks can be dropped, filtered or re-ordered" % unparse(v))
            src = v.generators[0].iter if ok else None
            d = _single_defs(so, dotted(src)) if src is not None and dotted(src) else []
            if d:
                txt = unparse(d[0].value, 300)
                ctx.check("itertools.islice(it, batch_size)" in txt and txt.startswith("iter(lambda") and txt.endswith(", ())"), d[0], "batches are consecutive islice(it, batch_size) tuples until the empty tuple",
                          "sequential batches are built as %s" % txt)


def c01_count(ctx):
    f = F(ctx, "Parallel._dispatch")
    g = cfg_of(f)
    subs = [c for c in calls_in(f) if call_name(c) == "self._backend.submit"]
    ctx.need(subs, "no submit in _dispatch")
    aug = [n for n in nodes_of_type(f, ast.AugAssign) if _state_attr(dotted(n.target)) == "n_dispatched_tasks"]
    if not aug:
        ctx.bad(f, "_dispatch does not count dispatched tasks", key=PAR + "::Parallel._dispatch::n_dispatched_tasks +=")
        return
    batch = f.args.args[1].arg
    for a in aug:
        v = a.value
        if isinstance(v, ast.Name):
            d = _single_defs(f, v.id)
            v = d[0].value if len(d) == 1 else v
        ok = isinstance(a.op, ast.Add) and isinstance(v, ast.Call) and call_name(v) == "len" and dotted(v.args[0]) == batch
        ctx.check(ok, a, "n_dispatched_tasks grows by len(batch)", "n_dispatched_tasks is not increased by len(batch)")
        ctx.check(g.every_path_from(g.nodes_of(a), g.nodes_of_all(subs)), a, "every counted batch is submitted")
        ctx.check(g.every_path_to(g.nodes_of_all(subs), g.nodes_of(a)), a, "every submitted batch is counted")
        ctx.check(not g.in_cycle(g.nodes_of(a)[0]), a, "counted once per _dispatch")
    dn = F(ctx, "BatchCompletionCallBack._dispatch_new")
    gd = cfg_of(dn)
    aug = [n for n in nodes_of_type(dn, ast.AugAssign) if _state_attr(dotted(n.target)) == "n_completed_tasks"]
    ctx.check(len(aug) == 1, aug[0] if aug else dn, "exactly one completed-tasks update in _dispatch_new",
              "%d completed-tasks updates in _dispatch_new" % len(aug), key=None if aug else PAR + "::BatchCompletionCallBack._dispatch_new::n_completed_tasks +=")
    for a in aug:
        ctx.check(isinstance(a.op, ast.Add) and dotted(a.value) == "self.batch_size", a, "completed counter grows by the tracker's batch size")
        ctx.check(gd.every_path_from([gd.entry], gd.nodes_of(a)) and not gd.in_cycle(gd.nodes_of(a)[0]), a, "on every normal path, exactly once")
    cbi = F(ctx, "BatchCompletionCallBack.__init__")
    st = assigns_to(cbi, "self.batch_size")
    ctx.check(bool(st) and dotted(st[0].value) == "batch_size", st[0] if st else cbi, "tracker batch size is the constructor argument")
    trk = [c for c in calls_in(f) if call_name(c) == "BatchCompletionCallBack"]
    for c in trk:
        a1 = c.args[1] if len(c.args) > 1 else kwarg(c, "batch_size")
        v = a1
        if isinstance(v, ast.Name):
            d = _single_defs(f, v.id)
            v = d[0].value if len(d) == 1 else v
        ctx.check(isinstance(v, ast.Call) and call_name(v) == "len" and dotted(v.args[0]) == batch, c, "tracker is created with len(batch): dispatched and completed counts use the same unit")
    cb = F(ctx, "BatchCompletionCallBack.__call__")
    gc_ = cfg_of(cb)
    dns = [c for c in calls_in(cb) if call_name(c) == "self._dispatch_new"]
    ctx.floor(len(dns), 1, "_dispatch_new call sites in the callback")
    for i, a in enumerate(dns):
        for b in dns:
            if a is not b:
                ctx.check(not gc_.path_exists(gc_.nodes_of(a), gc_.nodes_of(b)), a, "the two _dispatch_new call sites are on disjoint paths (one completion => at most one update)")
        ctx.check(not gc_.in_cycle(gc_.nodes_of(a)[0]), a, "_dispatch_new call site is not in a loop")


def _lt(test, small, big):
    """test is `small < big` (or equivalent spellings)."""
    if isinstance(test, ast.Compare) and len(test.ops) == 1:
        l, r = _state_attr(dotted(test.left)), _state_attr(dotted(test.comparators[0]))
        op = test.ops[0]
        if isinstance(op, ast.Lt) and (l, r) == (small, big):
            return True
        if isinstance(op, ast.Gt) and (l, r) == (big, small):
            return True
        if isinstance(op, ast.NotEq) and {l, r} == {small, big}:
            return True
    return False


def c01_stop(ctx):
    f = F(ctx, "Parallel._wait_retrieval")
    g = cfg_of(f)
    # decided over the finite table of the four facts the answer depends on, whatever the shape of the function
    # (early returns, one boolean expression, a result variable): its own tests and returns are folded (sa/table.py)
    from ..table import run as run_table, Unknown
    import itertools as _it
    n_rows = 0
    for iterating, pending, legacy, queued in _it.product((False, True), repeat=4):
        env = {"self._iterating": iterating, "self.n_completed_tasks": 3 if not pending else 2, "self.n_dispatched_tasks": 3,
               "self._backend.supports_retrieve_callback": not legacy, "self._jobs": (1,) if queued else (), "self._aborting": False,
               "self._exception": False}
        try:
            kind, val = run_table(g, env, f)
        except Unknown as e:
            ctx.need(False, "_wait_retrieval: answer not understood (%s)" % e)
            return
        n_rows += 1
        if kind != "return":
            ctx.need(False, "_wait_retrieval does not return a value on some path")
            return
        if iterating and not val:
            ctx.bad(f, "retrieval can stop while _iterating is still true: tasks not yet dispatched are lost", key=PAR + "::Parallel._wait_retrieval::stops while iterating")
            break
        if pending and not val:
            ctx.bad(f, "retrieval can stop while dispatched tasks are still running (completed < dispatched): their results are lost", key=PAR + "::Parallel._wait_retrieval::stops while tasks are pending")
            break
    else:
        ctx.ok(f, "retrieval keeps waiting whenever the input is still iterated or completed < dispatched (%d rows of the fact table)" % n_rows)
    # who clears _iterating
    allowed = {"Parallel.dispatch_next", "Parallel._start", "Parallel._get_sequential_output"}
    n = 0
    for fn in _par_methods(ctx):
        for a in nodes_of_type(fn, ast.Assign):
            if any(_state_attr(t) == "_iterating" for t in stores_to(a)) and is_const(a.value, False):
                n += 1
                ctx.check(fn._qualname in allowed, a, "_iterating cleared at a known site (%s)" % fn._qualname,
                          "_iterating is cleared in %s: retrieval may stop before all tasks were dispatched" % fn._qualname)
    ctx.floor(n, 3, "sites clearing _iterating")
    dn = F(ctx, "Parallel.dispatch_next")
    gd = cfg_of(dn)
    for a in nodes_of_type(dn, ast.Assign):
        if "self._iterating" in stores_to(a):
            conds = gd.conditions_at(gd.nodes_of(a))
            ok = any(isinstance(t, ast.UnaryOp) and isinstance(t.op, ast.Not) and isinstance(t.operand, ast.Call) and call_name(t.operand) == "self.dispatch_one_batch" and pol for (_, t, pol) in conds)
            ctx.check(ok, a, "dispatch_next clears _iterating only after dispatch_one_batch returned False (input exhausted)")
    dob = [c for c in calls_in(dn) if call_name(c) == "self.dispatch_one_batch"]
    ctx.check(len(dob) == 1 and dob[0].args and dotted(dob[0].args[0]) == "self._original_iterator", dob[0] if dob else dn,
              "dispatch_next dispatches exactly one batch from the original iterator")
    st = F(ctx, "Parallel._start")
    gs = cfg_of(st)
    sets = [a for a in nodes_of_type(st, ast.Assign) if "self._iterating" in stores_to(a) and not is_const(a.value, False)]
    ctx.check(len(sets) == 1 and unparse(sets[0].value) == "self._original_iterator is not None", sets[0] if sets else st,
              "_start marks the call as iterating iff callbacks may still dispatch from the original iterator")
    for a in sets:
        conds = gs.conditions_at(gs.nodes_of(a))
        ctx.check(any(isinstance(t, ast.Call) and call_name(t) == "self.dispatch_one_batch" and pol for (_, t, pol) in conds), a, "only after a first batch was dispatched")
    # a loop drains the pre-dispatch slice
    loops = [w for w in nodes_of_type(st, ast.While) if isinstance(w.test, ast.Call) and call_name(w.test) == "self.dispatch_one_batch"]
    ctx.check(bool(loops), loops[0] if loops else st, "_start dispatches the pre_dispatch slice until it is exhausted")


def c01_callback_siblings(ctx):
    f = F(ctx, "PoolManagerMixin.submit", BK)
    cs = [c for c in calls_in(f) if call_attr(c) == "apply_async"]
    ctx.need(cs, "PoolManagerMixin.submit no longer uses apply_async")
    for c in cs:
        cb, ecb = kwarg(c, "callback"), kwarg(c, "error_callback")
        ctx.check(cb is not None and dotted(cb) == "callback", c, "pool submit attaches the completion callback")
        ctx.check(ecb is not None and dotted(ecb) == "callback", c, "pool submit attaches the same callback for failures (error_callback)",
                  "error_callback is not the completion callback: a failed batch never completes for Parallel")
    f2 = F(ctx, "LokyBackend.submit", BK)
    g = cfg_of(f2)
    add = [c for c in calls_in(f2) if call_attr(c) == "add_done_callback"]
    ctx.check(bool(add) and all(c.args and dotted(c.args[0]) == "callback" for c in add), add[0] if add else f2, "loky submit attaches the callback to the future")
    for c in add:
        conds = g.conditions_at(g.nodes_of(c))
        ctx.check(all(unparse(t) == "callback is not None" and pol for (_, t, pol) in conds), c, "attached whenever a callback is given")
    sub = [c for c in calls_in(f2) if call_name(c) == "self._workers.submit"]
    ctx.check(len(sub) == 1 and sub[0].args and dotted(sub[0].args[0]) == "func" and not g.in_cycle(g.nodes_of(sub[0])[0]), sub[0] if sub else f2, "loky submit submits the batch exactly once")
    ctx.check(len(cs) == 1 and not cfg_of(f).in_cycle(cfg_of(f).nodes_of(cs[0])[0]), cs[0], "pool submit submits the batch exactly once")


def c01_reduce(ctx):
    f = F(ctx, "BatchedCalls.__reduce__")
    init = F(ctx, "BatchedCalls.__init__")
    rets = nodes_of_type(f, ast.Return)
    ctx.need(len(rets) == 1 and isinstance(rets[0].value, ast.Tuple) and len(rets[0].value.elts) == 2, "__reduce__ does not return a 2-tuple")
    cls_, args = rets[0].value.elts
    ctx.check(dotted(cls_) == "BatchedCalls", rets[0], "rebuilt as BatchedCalls")
    ctx.need(isinstance(args, ast.Tuple), "reduce args not a tuple literal")
    n_params = len(init.args.args) - 1
    ctx.check(len(args.elts) == n_params, rets[0], "reduce tuple arity (%d) matches __init__ (%d)" % (len(args.elts), n_params))
    ctx.check(dotted(args.elts[0]) == "self.items", rets[0], "the task list itself crosses the process boundary, in order")
    e1 = args.elts[1]
    ctx.check(isinstance(e1, ast.Tuple) and [dotted(x) for x in e1.elts] == ["self._backend", "self._n_jobs"], rets[0], "nested backend and n_jobs are carried along")


# ---------------------------------------------------------------------------
# C09 clauses
# ---------------------------------------------------------------------------

_CONSUMERS = {"list", "tuple", "sorted", "set", "frozenset", "dict", "sum", "max", "min", "any", "all", "next",
              "zip", "enumerate", "map", "filter", "reversed", "collections.deque", "deque", "itertools.chain",
              "itertools.tee", "tee", "len"}
_TRACKED = {"iterable", "iterator", "self._original_iterator", "it"}


def _direct_consumptions(fn, tracked):
    out = []
    for n in body_walk(fn):
        if isinstance(n, ast.Call) and call_name(n) in _CONSUMERS:
            for a in n.args:
                x = a.value if isinstance(a, ast.Starred) else a
                if dotted(x) in tracked:
                    out.append((n, "%s(%s)" % (call_name(n), dotted(x))))
        elif isinstance(n, ast.Call):
            for a in n.args:
                if isinstance(a, ast.Starred) and dotted(a.value) in tracked:
                    out.append((n, "*%s unpacking" % dotted(a.value)))
        if isinstance(n, (ast.For, ast.AsyncFor)) and dotted(n.iter) in tracked:
            out.append((n, "for ... in %s" % dotted(n.iter)))
        if isinstance(n, (ast.ListComp, ast.SetComp, ast.DictComp, ast.GeneratorExp)):
            for gen in n.generators:
                if dotted(gen.iter) in tracked and not isinstance(n, ast.GeneratorExp):
                    out.append((n, "comprehension over %s" % dotted(gen.iter)))
    return out


def c09_who_consumes(ctx):
    cls = ctx.repo.cls(PAR, "Parallel")
    n_methods = 0
    # positive control: the detector sees the sequential loop
    so = F(ctx, "Parallel._get_sequential_output")
    ctl = _direct_consumptions(so, _TRACKED)
    ctx.check(any(w.startswith("for ") for _, w in ctl), so, "positive control: the consumption detector sees the sequential `for` over the iterable")
    for fn in [st for st in cls.body if isinstance(st, ast.FunctionDef)]:
        if fn.name == "_get_sequential_output":
            continue
        n_methods += 1
        for node, what in _direct_consumptions(fn, _TRACKED):
            if what == "len(iterable)":
                # allowed only behind hasattr(iterable, "__len__")
                p = parent(node)
                ok = isinstance(p, ast.IfExp) and isinstance(p.test, ast.Call) and call_name(p.test) == "hasattr" and const_value(p.test.args[1]) == "__len__" and p.body is node
                if not ok:
                    g = cfg_of(fn)
                    ok = any(isinstance(t, ast.Call) and call_name(t) == "hasattr" and pol for (_, t, pol) in g.conditions_at(g.nodes_of(node)))
                ctx.check(ok, node, "len(iterable) only behind hasattr(iterable, '__len__') (does not consume)")
                continue
            ctx.bad(node, "%s in %s consumes the task iterable eagerly/outside the bounded slice" % (what, fn._qualname))
    # islice wrappers: lazily created, consumed only by list() in dispatch_one_batch
    n_sl = 0
    for fn in [st for st in cls.body if isinstance(st, ast.FunctionDef)]:
        if fn.name == "_get_sequential_output":
            continue
        for c in _islice_calls(fn):
            if not (c.args and dotted(c.args[0]) in _TRACKED):
                continue
            n_sl += 1
            p = parent(c)
            if isinstance(p, ast.Call) and call_name(p) in _CONSUMERS:
                ok = fn.name == "dispatch_one_batch" and call_name(p) == "list" and len(c.args) >= 2
                ctx.check(ok, c, "the only eager consumption: list(islice(iterator, <bound>)) in dispatch_one_batch",
                          "islice over the task iterator is materialised in %s" % fn._qualname)
            else:
                ctx.check(isinstance(p, ast.Assign) and len(c.args) >= 2, c, "lazy islice wrapper with an explicit bound (%s)" % unparse(c.args[1] if len(c.args) > 1 else c, 40))
    ctx.floor(n_sl, 2, "islice sites over the task iterator")
    ctx.ok(cls, "scanned %d Parallel methods: no other construct advances the task iterable" % n_methods, key=PAR + "::Parallel::who-consumes scan")


def _inline_names(expr, func, depth=4):
    """dotted names an expression depends on, through single local defs."""
    out = set()
    for d in attrs_in(expr):
        out.add(d)
        if "." not in d and depth > 0:
            for a in _single_defs(func, d):
                out |= _inline_names(a.value, func, depth - 1)
    for c in ast.walk(expr):
        if isinstance(c, ast.Call) and call_name(c):
            out.add(call_name(c) + "()")
    return out


def c09_bound(ctx):
    f = F(ctx, "Parallel.dispatch_one_batch")
    sl = [c for c in _islice_calls(f) if c.args and dotted(c.args[0]) == "iterator"]
    ctx.need(sl, "no islice(iterator, ...) in dispatch_one_batch")
    forbidden = ("self.n_tasks", "n_tasks", "len()", "iterable", "self._original_iterator")
    for c in sl:
        if len(c.args) < 2:
            ctx.bad(c, "islice over the task iterator has no bound: the whole input is consumed at once")
            continue
        deps = _inline_names(c.args[1], f)
        ctx.check(not any(d in forbidden for d in deps), c, "slice bound does not depend on the input length (%s)" % sorted(d for d in deps if "." in d or d.endswith("()")),
                  "slice bound depends on %s: consumption is no longer bounded independently of the input" % sorted(d for d in deps if d in forbidden))
        ctx.check(any(d in ("self._get_batch_size()", "self.batch_size") for d in deps) and "self._cached_effective_n_jobs" in deps, c,
                  "slice bound is built from the batch size and the cached effective n_jobs")
        b = c.args[1]
        if isinstance(b, ast.Name):
            d = _single_defs(f, b.id)
            if len(d) == 1:
                b = d[0].value
        ok = isinstance(b, ast.BinOp) and isinstance(b.op, ast.Mult) and {dotted(b.left), dotted(b.right)} == {"batch_size", "n_jobs"}
        ctx.check(ok, c, "slice bound is batch_size * n_jobs", "slice bound %s is not batch_size * n_jobs" % unparse(b))
    call = F(ctx, "Parallel.__call__")
    sl2 = [c for c in _islice_calls(call) if c.args and dotted(c.args[0]) == "iterator"]
    ctx.need(sl2, "no pre_dispatch islice in __call__")
    for c in sl2:
        ctx.need(len(c.args) >= 2, "pre_dispatch islice without bound")
        deps = set()
        b = c.args[1]
        deps = _inline_names(b, call)
        if dotted(b) == "self._pre_dispatch_amount":
            for a in nodes_of_type(call, ast.Assign):
                if "self._pre_dispatch_amount" in stores_to(a) and g_in_else(call, a):
                    deps |= _inline_names(a.value, call)
        ctx.check(not any(d in forbidden for d in deps), c, "pre_dispatch bound does not depend on the input length",
                  "pre_dispatch bound depends on %s" % sorted(d for d in deps if d in forbidden))
        ctx.check("eval_expr()" in deps or "int()" in deps, c, "pre_dispatch bound is int(eval_expr(pre_dispatch with n_jobs substituted)) or the integer given")
        # whether the look-ahead wrapper is installed at all may depend on the size of the input only if that size is exact
        # (len of a sized container): a hint that under-estimates would hand the whole iterator to the dispatcher
        gcall_ = cfg_of(call)
        sized = [t for (_, t, pol) in gcall_.atoms_at(gcall_.nodes_of(c)) if any(d in ("self.n_tasks", "n_tasks") or d.startswith("iterable") for d in attrs_in(t)) or "len(" in unparse(t)]
        if sized:
            nt = [a for fn_ in _par_methods(ctx) for a in nodes_of_type(fn_, ast.Assign) if "self.n_tasks" in stores_to(a)]
            def exact(v):
                if isinstance(v, ast.IfExp):
                    return exact(v.body) and exact(v.orelse)
                return is_const(v, None) or (isinstance(v, ast.Call) and call_name(v) == "len" and len(v.args) == 1)
            ctx.check(bool(nt) and all(exact(a.value) for a in nt), c, "the look-ahead wrapper is skipped only on the exact length of a sized input",
                      "whether the input is wrapped in the pre_dispatch look-ahead depends on `%s`, and n_tasks is not an exact length (%s): an input that under-reports its size is consumed completely up front"
                      % (unparse(sized[0], 60), ", ".join(unparse(a.value, 50) for a in nt)))
        # ... of THIS call: apart from the user's setting, nothing the instance remembers from an earlier call may flow in
        state = sorted(d for d in deps if d.startswith("self.") and not d.endswith("()") and d not in ("self.pre_dispatch", "self._pre_dispatch_amount")
                       and not (d + "()") in deps)
        ctx.check(not state, c, "the pre_dispatch amount is computed from this call's n_jobs and the user's setting only",
                  "the pre_dispatch amount depends on %s, instance state that survives from one call to the next: after n_jobs changed, the look-ahead of an earlier call is used" % state)
    # a fractional amount ('1.5*n_jobs') is truncated, never rounded up: the look-ahead may not exceed the bound.
    # Decided as a flag dataflow: on every path to the slice its bound is an integer obtained by truncation.
    from ..flow import flag_states, flag_at

    def truncated(v, has):
        if isinstance(v, ast.Constant) and isinstance(v.value, int):
            return True
        if isinstance(v, ast.Call) and call_name(v) in ("int", "math.floor") and len(v.args) == 1 and not v.keywords:
            return True
        if isinstance(v, ast.Call) and call_name(v) in ("max", "min") and v.args and not v.keywords:
            return all(truncated(x, has) for x in v.args)
        if isinstance(v, ast.BoolOp) or isinstance(v, ast.IfExp):
            parts = v.values if isinstance(v, ast.BoolOp) else [v.body, v.orelse]
            return all(truncated(x, has) for x in parts)
        d = dotted(v)
        return bool(d) and has(d)

    gcall = cfg_of(call)
    states = flag_states(gcall, truncated, lambda atom, pol: [])
    for c in sl2:
        b = c.args[1]
        d = dotted(b)
        ok = truncated(b, lambda n: False) or (d is not None and flag_at(gcall, states, c, d))
        origin = [a for a in nodes_of_type(call, ast.Assign) if d in stores_to(a)] if d else []
        ctx.check(ok, c, "on every path to the look-ahead slice its bound `%s` was truncated with int()/floor (flag dataflow)" % unparse(b, 40),
                  "the pre_dispatch amount is computed as %s: fractional forms such as '1.5*n_jobs' can be rounded UP, one item more than the bound is consumed ahead"
                  % (", ".join(sorted({unparse(a.value, 50) for a in origin})) or unparse(b, 50)))


def c01_predispatch_positive(ctx):
    """With pre_dispatch != 'all' the caller thread dispatches the first `amount` tasks and every later task is dispatched
    by a completion callback: an amount of 0 dispatches nothing, nothing ever completes, and the call returns an empty
    result for a non-empty input. The amount handed to islice must therefore be >= 1 on every path."""
    call = F(ctx, "Parallel.__call__")
    g = cfg_of(call)
    sl = [c for c in _islice_calls(call) if c.args and dotted(c.args[0]) == "iterator" and len(c.args) >= 2]
    ctx.need(sl, "no pre_dispatch islice in __call__")

    def lower_ok(v):
        if isinstance(v, ast.Constant) and isinstance(v.value, int) and v.value >= 1:
            return True
        if isinstance(v, ast.Call) and call_name(v) == "max" and any(isinstance(x, ast.Constant) and isinstance(x.value, int) and x.value >= 1 for x in v.args):
            return True
        if isinstance(v, ast.BoolOp) and isinstance(v.op, ast.Or) and isinstance(v.values[-1], ast.Constant) and isinstance(v.values[-1].value, int) and v.values[-1].value >= 1:
            return True
        return False

    from ..flow import flag_states, flag_at

    def value_has(v, has):
        if lower_ok(v):
            return True
        if isinstance(v, ast.BoolOp) and isinstance(v.op, ast.Or):
            return value_has(v.values[-1], has)
        if isinstance(v, ast.IfExp):
            return value_has(v.body, has) and value_has(v.orelse, has)
        d = dotted(v)
        return bool(d) and has(d)

    def refine(atom, pol):
        # names that cannot be 0 when `atom` evaluates to `pol`
        while isinstance(atom, ast.UnaryOp) and isinstance(atom.op, ast.Not):
            atom, pol = atom.operand, not pol
        d = dotted(atom)
        if d:
            return [d] if pol else []
        if isinstance(atom, ast.Compare) and len(atom.ops) == 1:
            l, r, op = atom.left, atom.comparators[0], type(atom.ops[0])
            cl, cr = const_value(l), const_value(r)
            if dotted(r) and cl is not None and dotted(l) is None:
                flip = {ast.Lt: ast.Gt, ast.Gt: ast.Lt, ast.LtE: ast.GtE, ast.GtE: ast.LtE}
                l, r, op, cl, cr = r, l, flip.get(op, op), None, cl
            name = dotted(l)
            if not name or not isinstance(cr, int) or isinstance(cr, bool):
                return []
            # truth table of `name <op> cr` on the value 0: the branch on which 0 is excluded
            zero_truth = {ast.Eq: 0 == cr, ast.NotEq: 0 != cr, ast.Lt: 0 < cr, ast.LtE: 0 <= cr, ast.Gt: 0 > cr, ast.GtE: 0 >= cr}.get(op)
            if zero_truth is None:
                return []
            return [name] if pol != zero_truth else []
        return []

    states = flag_states(g, value_has, refine)
    for c in sl:
        b = c.args[1]
        amount = dotted(b)
        ok = lower_ok(b) or (amount is not None and flag_at(g, states, c, amount))
        ctx.check(ok, c, "on every path to the look-ahead slice its bound `%s` is a value that is not 0 (flag dataflow over %d CFG nodes)" % (unparse(b, 40), len(g.nodes)),
                  "the pre_dispatch amount can be 0 (pre_dispatch=0, or an expression such as 'n_jobs // 4' with few workers): nothing is dispatched by the caller, no completion ever "
                  "dispatches the rest, and the call returns [] for a non-empty input", key=PAR + "::Parallel.__call__::pre_dispatch amount >= 1")


def g_in_else(func, node):
    g = cfg_of(func)
    return any(unparse(t) == "pre_dispatch == 'all'" and not pol for (_, t, pol) in g.conditions_at(g.nodes_of(node)))


def c09_abort_dom(ctx):
    f = F(ctx, "Parallel.dispatch_one_batch")
    g = cfg_of(f)
    sl = [c for c in _islice_calls(f) if c.args and dotted(c.args[0]) == "iterator"]
    ctx.need(sl, "no islice(iterator, ...) in dispatch_one_batch")
    tests = [n for n in nodes_of_type(f, ast.If) if unparse(n.test) == "self._aborting" and n.body and isinstance(n.body[-1], ast.Return) and not (n.body[-1].value is not None and is_const(n.body[-1].value, True))]
    for c in sl:
        ctx.check(bool(tests) and g.every_path_to(g.nodes_of(c), g.nodes_of_all(tests)), c,
                  "a test of the abort flag (returning falsy) dominates the slice of the input",
                  "the input can be sliced without testing the abort flag first: items are taken after a failure / generator close")
    gets = [c for c in calls_in(f) if call_attr(c) in ("get", "get_nowait") and _state_attr(dotted(c.func.value)) == "_ready_batches"]
    for c in gets:
        ctx.check(bool(tests) and g.every_path_to(g.nodes_of(c), g.nodes_of_all(tests)), c, "abort test dominates taking a pre-sliced batch")
    d = F(ctx, "Parallel._dispatch")
    gd = cfg_of(d)
    subs = [c for c in calls_in(d) if call_name(c) == "self._backend.submit"]
    ctx.need(subs, "no submit in _dispatch")
    tests2 = [n for n in nodes_of_type(d, ast.If) if unparse(n.test) == "self._aborting" and n.body and isinstance(n.body[-1], ast.Return)]
    for c in subs:
        ctx.check(bool(tests2) and gd.every_path_to(gd.nodes_of(c), gd.nodes_of_all(tests2)), c,
                  "a test of the abort flag dominates backend.submit", "a batch can be submitted without testing the abort flag")


def c09_one_per_completion(ctx):
    dn = F(ctx, "BatchCompletionCallBack._dispatch_new")
    g = cfg_of(dn)
    calls = [c for c in calls_in(dn) if call_attr(c) in ("dispatch_next", "dispatch_one_batch", "_dispatch")]
    ctx.check(len(calls) == 1 and call_name(calls[0]) == "self.parallel.dispatch_next", calls[0] if calls else dn,
              "a completion triggers exactly one dispatch_next() call site", "%d dispatch call sites in _dispatch_new" % len(calls))
    for c in calls:
        ctx.check(not g.in_cycle(g.nodes_of(c)[0]), c, "dispatch_next is not called in a loop",
                  "dispatch_next is called in a loop: one completion takes several batches (unbounded look-ahead)")
        ctx.check(under_lock(c), c, "dispatch_next is called under the dispatch lock")
        conds = g.conditions_at(g.nodes_of(c))
        ctx.check(any(unparse(t) == "self.parallel._original_iterator is not None" and pol for (_, t, pol) in conds), c,
                  "only while the original iterator is still live (never for pre_dispatch='all')")
    nx = F(ctx, "Parallel.dispatch_next")
    gn = cfg_of(nx)
    dob = [c for c in calls_in(nx) if call_attr(c) in ("dispatch_one_batch", "_dispatch")]
    ctx.check(len(dob) == 1 and not gn.in_cycle(gn.nodes_of(dob[0])[0]), dob[0] if dob else nx, "dispatch_next dispatches exactly one batch, not in a loop",
              "dispatch_next dispatches more than one batch per completion")
    f = F(ctx, "Parallel.dispatch_one_batch")
    gf = cfg_of(f)
    sl = [c for c in _islice_calls(f) if c.args and dotted(c.args[0]) == "iterator"]
    for c in sl:
        ctx.check(not gf.in_cycle(gf.nodes_of(c)[0]), c, "one bounded slice of the input per dispatch_one_batch call",
                  "the input is sliced in a loop inside dispatch_one_batch")
    disp = [c for c in calls_in(f) if call_name(c) == "self._dispatch"]
    for c in disp:
        ctx.check(not gf.in_cycle(gf.nodes_of(c)[0]), c, "at most one batch submitted per dispatch_one_batch call")
    # the callback dispatches at most once per completion (two disjoint sites)
    cb = F(ctx, "BatchCompletionCallBack.__call__")
    gc_ = cfg_of(cb)
    dns = [c for c in calls_in(cb) if call_name(c) == "self._dispatch_new"]
    ctx.check(1 <= len(dns) <= 2 and all(not gc_.in_cycle(gc_.nodes_of(c)[0]) for c in dns) and
              all(not gc_.path_exists(gc_.nodes_of(a), gc_.nodes_of(b)) for a in dns for b in dns if a is not b), dns[0] if dns else cb,
              "the completion callback reaches _dispatch_new at most once")


def c09_all(ctx):
    call = F(ctx, "Parallel.__call__")
    g = cfg_of(call)
    tests = [n for n in nodes_of_type(call, ast.If) if unparse(n.test) in ("pre_dispatch == 'all'",)]
    ctx.need(tests, "`pre_dispatch == 'all'` branch not found in __call__")
    t = tests[0]
    st = [a for a in t.body if isinstance(a, ast.Assign) and "self._original_iterator" in stores_to(a)]
    ctx.check(bool(st) and is_const(st[0].value, None), st[0] if st else t, "pre_dispatch='all': callbacks never dispatch (original iterator set to None)",
              "pre_dispatch='all' branch does not disable callback dispatching")
    wrapped = [c for c in _islice_calls(call) if in_block(c, t.body)]
    ctx.check(not wrapped, wrapped[0] if wrapped else t, "pre_dispatch='all': the iterator is handed over unwrapped (everything taken up front)")
    st2 = [a for a in t.orelse if isinstance(a, ast.Assign) and "self._original_iterator" in stores_to(a)]
    ctx.check(bool(st2) and dotted(st2[0].value) == "iterator", st2[0] if st2 else t, "otherwise the original iterator is kept for lazy dispatching")
    w2 = [c for c in _islice_calls(call) if in_block(c, t.orelse)]
    ctx.check(len(w2) == 1, w2[0] if w2 else t, "otherwise the caller thread only sees a pre_dispatch-long islice")
    s = F(ctx, "Parallel._start")
    tt = [n for n in nodes_of_type(s, ast.If) if unparse(n.test) == "pre_dispatch == 'all'"]
    ctx.check(bool(tt) and any(isinstance(a, ast.Assign) and "self._iterating" in stores_to(a) and is_const(a.value, False) for a in tt[0].body), tt[0] if tt else s,
              "_start: with 'all' nothing is left to iterate after the initial dispatch loop")
    it = [a for a in nodes_of_type(call, ast.Assign) if isinstance(a.value, ast.Call) and call_name(a.value) == "iter" and dotted(a.value.args[0]) == "iterable"]
    ctx.check(len(it) == 1, it[0] if it else call, "one iterator is created from the iterable per call")


def c09_eval(ctx):
    ev = ctx.repo.func(UT, "eval_")
    p = ev.args.args[0].arg
    kinds = set()
    for n in nodes_of_type(ev, ast.If):
        t = n.test
        if isinstance(t, ast.Call) and call_name(t) == "isinstance" and dotted(t.args[0]) == p:
            k = t.args[1]
            for e in (k.elts if isinstance(k, ast.Tuple) else [k]):
                kinds.add(dotted(e))
    allowed = {"ast.Constant", "ast.BinOp", "ast.UnaryOp", "ast.Num"}
    ctx.check(kinds and kinds <= allowed, ev, "eval_ dispatches only on %s" % sorted(kinds), "eval_ handles node kinds %s beyond constants and arithmetic" % sorted(kinds - allowed))
    g = cfg_of(ev)
    raises = nodes_of_type(ev, ast.Raise)
    ctx.check(bool(raises), ev, "eval_ raises for every other node kind")
    for c in calls_in(ev):
        cn = call_name(c)
        ctx.check(cn not in ("eval", "exec", "compile", "__import__", "getattr", "setattr", "globals", "locals", "vars", "builtins.eval", "builtins.exec", "ast.literal_eval") and not (cn or "").startswith(p + "."), c,
                  "eval_ does not evaluate code or reach attributes by name (%s)" % (cn or "operators[...]"), "eval_ calls %s: pre_dispatch strings would no longer be restricted to arithmetic" % cn)
    m = ctx.repo.mod(UT)
    tab = [a for a in m.tree.body if isinstance(a, ast.Assign) and isinstance(a.targets[0], ast.Name) and a.targets[0].id == "operators"]
    ctx.need(tab and isinstance(tab[0].value, ast.Dict), "operators table not found")
    ok_keys = {"ast.Add": "add", "ast.Sub": "sub", "ast.Mult": "mul", "ast.Div": "truediv", "ast.FloorDiv": "floordiv", "ast.Mod": "mod", "ast.Pow": "pow", "ast.USub": "neg", "ast.UAdd": "pos"}
    for k, v in zip(tab[0].value.keys, tab[0].value.values):
        kd, vd = dotted(k), dotted(v)
        ctx.check(kd in ok_keys and vd is not None and vd.split(".")[-1] == ok_keys[kd], k, "operator %s -> %s" % (kd, vd), "operator table maps %s to %s" % (kd, vd))
    ee = ctx.repo.func(UT, "eval_expr")
    ps = [c for c in calls_in(ee) if call_name(c) == "ast.parse"]
    ctx.check(bool(ps) and kwarg(ps[0], "mode", 2) is not None and const_value(kwarg(ps[0], "mode", 2)) == "eval", ps[0] if ps else ee, "eval_expr parses in 'eval' mode (expressions only)")
    # the value of the expression is handed back as computed: the caller truncates it (C09.BOUND); anything done to it
    # here (rounding, ceil, clamping) changes the number of batches dispatched ahead
    ge = cfg_of(ee)
    rets = [r for r in nodes_of_type(ee, ast.Return)]
    ctx.need(bool(rets), "eval_expr has no return")
    for r in rets:
        v = r.value
        hops = 0
        while isinstance(v, ast.Name) and hops < 4:
            defs = [a for a in nodes_of_type(ee, (ast.Assign, ast.AugAssign, ast.AnnAssign)) if v.id in stores_to(a)]
            if len(defs) != 1 or not isinstance(defs[0], ast.Assign):
                break
            v = defs[0].value
            hops += 1
        ok = isinstance(v, ast.Call) and call_name(v) == "eval_" and len(v.args) == 1 and any(call_name(c) == "ast.parse" for c in calls_in(v))
        ctx.check(ok, r, "eval_expr returns the evaluated expression unmodified",
                  "eval_expr returns `%s`, not the plain value of the expression (a rounded / re-bound value changes how many batches are dispatched ahead)" % unparse(r.value, 60))
    # nobody calls eval/exec/compile in the non-vendored package
    n = 0
    import builtins as _b
    for rel, mod in ctx.repo.modules.items():
        if "externals" in rel:
            continue
        for node in ast.walk(mod.tree):
            if isinstance(node, ast.Call) and isinstance(node.func, ast.Name) and node.func.id in ("eval", "exec", "compile"):
                ctx.bad(node, "call of builtin %s() in the package" % node.func.id)
            if isinstance(node, ast.Call):
                n += 1
    ctl = ast.parse("x = eval('1+1')")
    ctx.check(any(isinstance(nd, ast.Call) and isinstance(nd.func, ast.Name) and nd.func.id == "eval" for nd in ast.walk(ctl)), ee,
              "positive control matched; %d call sites scanned, no eval/exec/compile" % n, key=UT + "::<package>::no eval/exec/compile")


# ---------------------------------------------------------------------------
# C16 clauses
# ---------------------------------------------------------------------------

def c04_error_surfaces(ctx):
    """An error outcome can be registered while no task is in flight - the input iterator raising inside a slice is turned
    into an error tracker by dispatch_one_batch (C04.ITER-EXC), a timeout is registered by get_status. Registration sets
    `_aborting` (C04.FLAGS); the error is RAISED only by `_raise_error_fast()` inside the retrieval loop, and the end-of-run
    code drops all pending outcomes once `_exception` is set. So the loop must be entered whenever `_aborting` is set: over
    the fact table of `_wait_retrieval`, every row with `_aborting` true answers True - or the loop is followed by an
    unconditional `_raise_error_fast()`. Otherwise Parallel returns [] (or a truncated list) instead of raising."""
    f = F(ctx, "Parallel._wait_retrieval")
    g = cfg_of(f)
    from ..table import run as run_table, Unknown
    import itertools as _it
    bad_rows = []
    n_rows = 0
    for iterating, pending, legacy, queued in _it.product((False, True), repeat=4):
        env = {"self._iterating": iterating, "self.n_completed_tasks": 3 if not pending else 2, "self.n_dispatched_tasks": 3,
               "self._backend.supports_retrieve_callback": not legacy, "self._jobs": (1,) if queued else (), "self._aborting": True,
               "self._exception": True}
        try:
            kind, val = run_table(g, env, f)
        except Unknown as e:
            ctx.need(False, "_wait_retrieval: answer not understood (%s)" % e)
            return
        n_rows += 1
        if kind != "return" or not val:
            bad_rows.append((iterating, pending, legacy, queued))
    r = F(ctx, "Parallel._retrieve")
    gr = cfg_of(r)
    loops = [w for w in nodes_of_type(r, ast.While) if any(call_name(c) == "self._wait_retrieval" for c in calls_in(w.test))]
    ctx.need(bool(loops), "_retrieve no longer loops on _wait_retrieval")
    inside = [c for c in calls_in(loops[0]) if call_name(c) == "self._raise_error_fast"]
    after = [c for c in calls_in(r) if call_name(c) == "self._raise_error_fast" and c not in inside]
    after_ok = bool(after) and gr.every_path_from(gr.nodes_of(loops[0]), gr.nodes_of_all(after), skip_exc=True, avoid_edges={(gr.nodes_of(loops[0])[0], t_, "T") for t_ in gr.label_succ(gr.nodes_of(loops[0])[0], "T")})
    ctx.check(bool(inside) or bool(after), r, "the retrieval code raises a registered error through _raise_error_fast()", "_retrieve never calls _raise_error_fast(): a registered error is not raised")
    ctx.check(not bad_rows or after_ok, f,
              "a registered error is always raised: the retrieval loop is entered whenever _aborting is set (%d rows)%s" % (n_rows, " or an unconditional check follows the loop" if after_ok else ""),
              "with _aborting set, _wait_retrieval answers False when (iterating, tasks pending, legacy backend, queued jobs) = %s: an error registered while no task is in flight "
              "(the input iterator raised inside a slice under pre_dispatch='all', or after all dispatched tasks completed) is never raised - the call returns []" % (bad_rows[:3],),
              key=PAR + "::Parallel._wait_retrieval::answers False while an error is registered")


def c01_status_mode(ctx):
    """The completion tracker works in one of two modes, chosen by ONE capability of the backend
    (`supports_retrieve_callback`): results registered by the callback (status starts PENDING, `get_result` hands out the
    stored result) or retrieved by the consumer (status stays None, `get_result` retrieves). The retrieval loop pops a
    tracker as soon as its status is not PENDING - so the constructor, `get_result` and the callback must take the
    decision from the same flag with the same polarity; a sibling flag (`supports_timeout`) coincides for the built-in
    backends only."""
    FLAG = "supports_retrieve_callback"
    n = 0
    for q in ("BatchCompletionCallBack.__init__", "BatchCompletionCallBack.get_result", "BatchCompletionCallBack.__call__"):
        f = F(ctx, q)
        g = cfg_of(f)
        flags = set()
        for t_ in [x.test for x in nodes_of_type(f, (ast.If, ast.While))] + [x.test for x in walk_local(f) if isinstance(x, ast.IfExp)]:
            for a_ in ast.walk(t_):
                if isinstance(a_, ast.Attribute) and a_.attr.startswith("supports_"):
                    flags.add(a_.attr)
        n += len(flags)
        ctx.check(flags == {FLAG}, f, "%s chooses the mode by backend.%s only" % (q.split(".")[-1], FLAG),
                  "%s chooses the retrieval mode by %s: for a backend on which that differs from %s the tracker starts in the wrong state (a running batch is popped as finished, or a finished one is waited for for ever)"
                  % (q.split(".")[-1], sorted(flags) or "no capability test", FLAG), key="%s::%s::mode flag" % (PAR, q))
    init = F(ctx, "BatchCompletionCallBack.__init__")
    gi = cfg_of(init)
    sts = assigns_to(init, "self.status")
    ctx.need(len(sts) >= 1, "BatchCompletionCallBack.__init__ does not initialise the status")
    for a in sts:
        facts = {(str(t), p) for (t, p) in gi.fact_set(gi.nodes_of(a))}
        on = any(t.endswith("." + FLAG) and p for (t, p) in facts)
        off = any(t.endswith("." + FLAG) and not p for (t, p) in facts)
        v = unparse(a.value)
        if v == "TASK_PENDING":
            ctx.check(on and not off, a, "the status starts PENDING exactly when the callback registers the outcome", "status = TASK_PENDING is set under %s" % sorted(facts))
        elif v == "None":
            ctx.check(off and not on, a, "the status stays None exactly when the consumer retrieves the result itself", "status = None is set under %s" % sorted(facts))
        else:
            ctx.bad(a, "initial status %s is neither TASK_PENDING nor None" % v)
    gr = F(ctx, "BatchCompletionCallBack.get_result")
    gg = cfg_of(gr)
    direct = [r for r in nodes_of_type(gr, ast.Return) if isinstance(r.value, ast.Call) and call_name(r.value) == "self._return_or_raise"]
    retr = [c for c in calls_in(gr) if call_attr(c) == "retrieve_result"]
    ctx.need(bool(direct) and bool(retr), "get_result: stored-result return / retrieve_result call not found")
    for c in retr:
        facts = {(str(t), p) for (t, p) in gg.fact_set(gg.nodes_of(c))}
        ctx.check(any(t.endswith("." + FLAG) and not p for (t, p) in facts), c, "the consumer retrieves the result itself only when the callback does not", "retrieve_result is reached under %s" % sorted(facts))
    ctx.floor(n, 3, "mode decisions of the completion tracker")


def c16_running(ctx):
    f = F(ctx, "Parallel._reset_run_tracking")
    g = cfg_of(f)
    sets = [a for a in assigns_to(f, "self._running") if is_const(a.value, True)]
    tests = [n for n in nodes_of_type(f, ast.If) if unparse(n.test) == "self._running" and any(isinstance(s, ast.Raise) for s in n.body)]
    if not tests:
        ctx.bad(f, "no `already running => raise` test: two overlapping runs would be mixed", key=PAR + "::Parallel._reset_run_tracking::running test")
        return
    if not sets:
        ctx.bad(f, "_running is never set: overlapping runs are not rejected", key=PAR + "::Parallel._reset_run_tracking::running set")
        return
    t, s = tests[0], sets[0]
    rs = [r for r in t.body if isinstance(r, ast.Raise)]
    ctx.check(isinstance(rs[0].exc, ast.Call) and call_name(rs[0].exc) == "RuntimeError", rs[0], "already running => RuntimeError")
    ctx.check(under_lock(t) and under_lock(s) and set(map(id, enclosing_withs(t))) & set(map(id, enclosing_withs(s))), s,
              "test and set of _running happen in one `with lock` block (atomic)", "test and set of _running are not in one locked block")
    ctx.check(g.every_path_to(g.nodes_of(s), g.nodes_of(t)), s, "the set is dominated by the test")
    early = [a for a in nodes_of_type(f, (ast.Assign, ast.AugAssign)) if any(x.startswith("self.") for x in stores_to(a)) and a is not s and not g.every_path_to(g.nodes_of(a), g.nodes_of(t))]
    ctx.check(not early, early[0] if early else s, "no per-call state is touched before the running test passed (a rejected overlapping call leaves the live run intact)",
              "%s is reset before the `already running` test: a call that is about to be rejected with RuntimeError has already wiped the live run's state" % (stores_to(early[0])[0] if early else ""))
    call = F(ctx, "Parallel.__call__")
    gc_ = cfg_of(call)
    rc = [c for c in calls_in(call) if call_name(c) == "self._reset_run_tracking"]
    others = [c for c in calls_in(call) if c not in rc and enclosing_stmt(c) is not (enclosing_stmt(rc[0]) if rc else None)]
    ctx.check(bool(rc) and gc_.every_path_to(gc_.nodes_of_all(others), gc_.nodes_of_all(rc)), rc[0] if rc else call, "the running test-and-set precedes everything else __call__ does",
              "__call__ does work before (or without) the running test-and-set", key=None if rc else PAR + "::Parallel.__call__::_reset_run_tracking call")
    for q in ("Parallel._get_outputs", "Parallel._get_sequential_output"):
        fn = F(ctx, q)
        gq = cfg_of(fn)
        cl = [a for a in nodes_of_type(fn, ast.Assign) if "self._running" in stores_to(a) and is_const(a.value, False)]
        # every way out of the generator body (normal end, an exception of a task, GeneratorExit at a yield) passes a store
        # `_running = False`: decided on the CFG, so a `finally` and an equivalent set of handlers are the same thing
        first_try = [t_ for t_ in nodes_of_type(fn, ast.Try)]
        ok = bool(cl) and bool(first_try)
        if ok:
            body_nodes = set()
            for st_ in first_try[0].body:
                for n_ in ast.walk(st_):
                    body_nodes.update(gq.by_ast.get(id(n_), []))
            starts = [n_ for n_ in body_nodes]
            ok = gq.every_path_from(starts, gq.nodes_of_all(cl), to={gq.exit, gq.xexit}) if starts else False
        ctx.check(ok, cl[0] if cl else fn, "%s clears _running on every way out (normal end, error, generator close)" % q,
                  "%s can be left (normal end, exception or GeneratorExit) without clearing _running: every later call on the same object is rejected as 'already running'" % q,
                  key=None if cl else "%s::%s::finally clears _running" % (PAR, q))
        # a generator can be left at every `yield` (close(), garbage collection, throw()): each one lies inside a try whose
        # `finally` - or whose handlers for GeneratorExit / BaseException, on every path - clears the flag. The flag is
        # already set when the body starts (test-and-set in __call__), so a suspension point outside that region leaks it.
        for y in [n_ for n_ in walk_local(fn) if isinstance(n_, (ast.Yield, ast.YieldFrom))]:
            covered = bool(cl) and gq.every_path_to(gq.nodes_of(y), gq.nodes_of_all(cl))   # already cleared on the way there (the drain after the finally)
            for a_ in ancestors(y):
                if a_ is fn:
                    break
                if isinstance(a_, ast.Try):
                    if any(x is c_ for c_ in cl for st_ in a_.finalbody for x in ast.walk(st_)) and not in_block(y, a_.finalbody):
                        covered = True
                        break
                    if in_block(y, a_.body):
                        hs_ = [h_ for h_ in a_.handlers if h_.type is None or handler_catches(h_, ["GeneratorExit"])]
                        if hs_ and cl and gq.every_path_from(gq.nodes_of(hs_[0]), gq.nodes_of_all(cl), to={gq.exit, gq.xexit}):
                            covered = True
                            break
            ctx.check(covered, y, "%s: the generator cannot be left at `%s` without clearing _running" % (q.split(".")[-1], unparse(y, 40)),
                      "%s suspends at `%s` outside the region whose finally / handlers clear _running: a generator closed or dropped there leaves the Parallel object 'already running' for ever"
                      % (q.split(".")[-1], unparse(y, 40)))
    # who may clear the flag: only the end of a run
    n_clear = 0
    for fn in _par_methods(ctx):
        for a in nodes_of_type(fn, ast.Assign):
            if any(_state_attr(t_) == "_running" for t_ in stores_to(a)) and not is_const(a.value, True):
                n_clear += 1
                tr_ = _final_try(fn) if fn._qualname in ("Parallel._get_outputs", "Parallel._get_sequential_output") else None
                in_end = tr_ is not None and a in tr_.finalbody
                if not in_end and fn._qualname in ("Parallel._get_outputs", "Parallel._get_sequential_output"):
                    # the equivalent without `finally`: in a handler of the run's try, or after it
                    trs_ = nodes_of_type(fn, ast.Try)
                    in_end = bool(trs_) and (any(in_block(a, h_.body) for h_ in trs_[0].handlers) or not in_block(a, trs_[0].body))
                ok = fn._qualname == "Parallel.__init__" or in_end
                ctx.check(ok, a, "_running is cleared at the end of a run (%s)" % fn._qualname,
                          "_running is cleared in %s, outside the end-of-run finally: a rejected overlapping call (or a failed set-up) wipes the flag of the live run" % fn._qualname)
    ctx.floor(n_clear, 2, "sites clearing _running")


def c16_genexit(ctx):
    f = F(ctx, "Parallel._get_outputs")
    tr = _final_try(f)
    ctx.need(tr is not None, "_get_outputs has no try/finally")
    hs = [h for h in tr.handlers if h.type is not None and unparse(h.type) == "GeneratorExit"]
    if not hs:
        ctx.bad(tr, "_get_outputs has no GeneratorExit handler", key=PAR + "::Parallel._get_outputs::GeneratorExit handler")
        return
    h = hs[0]
    ctx.check(tr.handlers.index(h) < min([i for i, x in enumerate(tr.handlers) if x.type is None or unparse(x.type) == "BaseException"] or [99]), h, "GeneratorExit is handled before the generic BaseException handler")
    body = ast.Module(body=h.body, type_ignores=[])
    ex = [a for a in h.body if isinstance(a, ast.Assign) and "self._exception" in stores_to(a) and is_const(a.value, True)]
    ctx.check(bool(ex), ex[0] if ex else h, "closing the generator sets _exception (pending results are dropped)")
    g = cfg_of(f)
    ab = [c for c in calls_in(body, "self._abort")]
    ctx.check(bool(ab), ab[0] if ab else h, "same-thread close calls _abort() (sets _aborting: no further dispatch)", "GeneratorExit handler does not abort")
    last = h.body[-1]
    ctx.check(isinstance(last, ast.Raise) and last.exc is None, last, "same-thread close re-raises GeneratorExit")
    if ab:
        ctx.check(g.every_path_to(g.nodes_of(last), g.nodes_of_all(ab)), last, "_abort() precedes the re-raise")
        wr_ = [c for c in calls_in(body, "self._warn_exit_early")] + [c for c in calls_in(body) if call_name(c) == "warnings.warn" and not any(isinstance(a_, ast.If) and "get_ident" in unparse(a_.test) for a_ in ancestors(c))]
        same_thread = [c for c in wr_ if call_name(c) == "self._warn_exit_early"]
        ctx.check(all(g.every_path_to(g.nodes_of(c), g.nodes_of_all(ab)) for c in same_thread), same_thread[0] if same_thread else h,
                  "the abort precedes the early-exit warning (a warning turned into an error cannot skip the abort)",
                  "the early-exit warning is emitted before _abort(): with warnings as errors the abort is skipped and dispatching continues after close()")
    # detached branch
    thr = [n for n in walk_local(body) if isinstance(n, ast.ClassDef)]
    det = [a for a in walk_local(body) if isinstance(a, ast.Assign) and "detach_generator_exit" in stores_to(a) and is_const(a.value, True)]
    if thr:
        run = [m for m in thr[0].body if isinstance(m, ast.FunctionDef) and m.name == "run"]
        ctx.need(run, "detached thread class has no run()")
        rc = [call_name(c) for c in calls_in(run[0])]
        if "_parallel._warn_exit_early" in rc and "_parallel._abort" in rc:
            ctx.check(rc.index("_parallel._abort") < rc.index("_parallel._warn_exit_early"), run[0], "detached thread: abort precedes the early-exit warning")
        ctx.check("_parallel._abort" in rc and "_parallel._terminate_and_reset" in rc and rc.index("_parallel._abort") < rc.index("_parallel._terminate_and_reset"), run[0],
                  "foreign-thread close: the detached thread aborts, then terminates and resets")
        ctx.check(bool(det), det[0] if det else h, "foreign-thread close sets the detach flag")
        fin_t = [c for c in calls_in(ast.Module(body=tr.finalbody, type_ignores=[]), "self._terminate_and_reset")]
        for c in fin_t:
            st = enclosing_stmt(c)
            p = parent(st)
            ctx.check(isinstance(p, ast.If) and unparse(p.test) == "not detach_generator_exit", c, "finally skips _terminate_and_reset iff detached")
        starts = [c for c in calls_in(body) if call_attr(c) == "start"]
        ctx.check(bool(starts), starts[0] if starts else h, "the detached thread is started")
        # which close goes where: the detached thread exactly when the closing thread is NOT the dispatching one (the
        # dispatching thread may hold what the abort joins); the inline abort + re-raise exactly in the dispatching thread
        from ..core import cond_facts
        ident = [a for a in nodes_of_type(f, ast.Assign) if isinstance(a.value, ast.Call) and call_name(a.value) == "threading.get_ident"]
        idn = ident[0].targets[0].id if ident and isinstance(ident[0].targets[0], ast.Name) else "dispatch_thread_id"
        foreign = {("%s != threading.get_ident()" % idn, True), ("threading.get_ident() != %s" % idn, True), ("%s == threading.get_ident()" % idn, False), ("threading.get_ident() == %s" % idn, False)}
        same = {(t_, not v_) for (t_, v_) in foreign}
        def thread_facts(node):
            return {x for x in cond_facts([c_ for c_ in g.conditions_at(g.nodes_of(node)) if isinstance(c_[0], ast.If) and in_block(c_[0], h.body)]) if "get_ident" in x[0]}
        for c in starts:
            ctx.check(bool(thread_facts(c) & foreign) and not (thread_facts(c) & same), c, "the detached path is taken exactly when the generator is closed from another thread than the dispatching one",
                      "the detached abort is taken under %s" % sorted(thread_facts(c)))
        # a same-thread close must still release the workers: either the finally runs _terminate_and_reset (the detach
        # flag is raised only on the foreign-thread path), or the inline _abort() already terminates the pool because
        # every abort_everything() terminates unconditionally.  Only "neither" leaks the pool (and its old size).
        det_foreign_only = all(bool(thread_facts(c) & foreign) and not (thread_facts(c) & same) for c in det)
        uncond = True
        for q_ in ("PoolManagerMixin.abort_everything", "LokyBackend.abort_everything"):
            ae_ = ctx.repo.func(BK, q_)
            gae = cfg_of(ae_)
            tm = [x for x in calls_in(ae_) if call_name(x) in ("self.terminate", "self._workers.terminate")]
            if not tm or not gae.every_path_from([gae.entry], gae.nodes_of_all(tm), None, skip_exc=True):
                uncond = False
        if det_foreign_only:
            ctx.ok(det[0] if det else h, "the detach flag is raised only on the foreign-thread path: a same-thread close runs _terminate_and_reset in the finally")
        elif uncond:
            ctx.ok(det[0], "the detach flag is also raised on a same-thread close, but the inline _abort() terminates the pool (every abort_everything terminates unconditionally)")
        else:
            ctx.bad(det[0] if det else h, "on a same-thread close the finally skips _terminate_and_reset (detach flag raised under %s) and abort_everything does not terminate the pool unconditionally either: "
                    "the pool of an abandoned generator stays alive, keeps starting queued batches, and is reused at its old size by the next call" % sorted(thread_facts(det[0]) if det else []),
                    key=PAR + "::Parallel._get_outputs::same-thread close releases the workers")
        ctx.check(bool(thread_facts(last) & same) and not (thread_facts(last) & foreign), last, "the inline abort and re-raise happen only in the dispatching thread",
                  "the inline abort / re-raise is reached under %s: a close from a foreign thread aborts inline (it can join itself)" % sorted(thread_facts(last)))
        ctx.check(bool(ident) and not any(in_block(a, tr.body) or in_block(a, h.body) for a in ident[:1]), ident[0] if ident else f, "the dispatching thread's id is sampled when the generator starts")
        rets_d = [r for r in walk_local(body) if isinstance(r, ast.Return)]
        ctx.check(any(bool(thread_facts(r) & foreign) for r in rets_d), rets_d[0] if rets_d else h, "after detaching, the handler returns (the inline path is not also taken)",
                  "after starting the detached thread the handler falls through to the inline abort")
    else:
        ctx.ok(h, "no detached branch: GeneratorExit is always handled in the closing thread")
    ab_f = F(ctx, "Parallel._abort")
    ga = cfg_of(ab_f)
    st = [s for s in assigns_to(ab_f, "self._aborting") if is_const(s.value, True)]
    ctx.check(bool(st) and ga.every_path_from([ga.entry], ga.nodes_of_all(st)), st[0] if st else ab_f, "_abort sets _aborting on every path (dispatch stops: C09.ABORT-DOM)")
    ae = [c for c in calls_in(ab_f) if call_attr(c) == "abort_everything"]
    for c in ae:
        ctx.check(bool(st) and ga.every_path_to(ga.nodes_of(c), ga.nodes_of_all(st)), c, "_aborting is raised before the backend is asked to abort (no dispatch while workers are being stopped)",
                  "the backend is aborted before _aborting is set: a completion arriving meanwhile dispatches further items")


def c16_head_only(ctx):
    f = F(ctx, "Parallel._retrieve")
    g = cfg_of(f)
    gs = [c for c in calls_in(f) if call_attr(c) == "get_status"]
    ordered = [c for c in gs if isinstance(c.func.value, ast.Subscript)]
    ctx.floor(len(ordered), 1, "status wait on an element of the jobs queue")
    for c in ordered:
        sub = c.func.value
        ctx.check(dotted(sub.value) == "self._jobs" and const_value(sub.slice) == 0, c, "ordered mode waits on the oldest job only (self._jobs[0])",
                  "ordered mode waits on %s: an early result is held back by a later job (or order is broken)" % unparse(sub))
        conds = g.conditions_at(g.nodes_of(c))
        ctx.check(any(unparse(t) == "self.return_ordered" and pol for (_, t, pol) in conds), c, "that wait is taken only in ordered mode")
    # the sleeping branch of ordered mode is entered only on `no job` or `head pending`
    for n in nodes_of_type(f, ast.If):
        if any(c in ordered for c in calls_in(n.test)):
            t = n.test
            ok = isinstance(t, ast.BoolOp) and isinstance(t.op, ast.Or) and len(t.values) == 2
            if ok:
                a, b = t.values
                ok = isinstance(a, ast.Compare) and const_value(a.comparators[0]) == 0 and isinstance(a.ops[0], ast.Eq) and \
                    isinstance(b, ast.Compare) and isinstance(b.ops[0], ast.Eq) and _name_is(b.comparators[0], "TASK_PENDING")
            ctx.check(ok, n, "wait condition is exactly `no job yet or head job still pending`", "ordered wait condition changed to %s" % unparse(t))
            ctx.check(any(isinstance(s, ast.Continue) for s in n.body), n, "while waiting nothing is popped (continue)")
    pops = [c for c in calls_in(f) if call_attr(c) in ("popleft", "pop") and dotted(c.func.value) == "self._jobs"]
    ctx.check(len(pops) == 1 and call_attr(pops[0]) == "popleft", pops[0] if pops else f, "the job yielded next is the left-most one")
    slp = [c for c in calls_in(f) if call_name(c) == "time.sleep"]
    for c in slp:
        v = const_value(c.args[0]) if c.args else None
        ctx.check(isinstance(v, (int, float)) and v <= 0.1, c, "polling interval %s s is a small constant" % v)


def c16_unordered(ctx):
    f = F(ctx, "BatchCompletionCallBack._register_outcome")
    g = cfg_of(f)
    apps = [c for c in calls_in(f) if call_attr(c) == "append" and _state_attr(dotted(c.func.value)) == "_jobs"]
    if not apps:
        ctx.bad(f, "completed trackers are never appended to the jobs queue: unordered mode delivers nothing", key=PAR + "::BatchCompletionCallBack._register_outcome::append to _jobs")
        return
    ctx.check(len(apps) == 1, apps[0], "exactly one append site")
    for c in apps:
        ctx.check(c.args and dotted(c.args[0]) == "self", c, "the tracker appends itself")
        ctx.check(under_lock(c), c, "append happens under the dispatch lock")
        ctx.check(not g.in_cycle(g.nodes_of(c)[0]), c, "appended once")
        _f, _g, rows = _register_outcome_rows(ctx)
        wrong = None
        for cur, new_, ordered, visited, calls in rows:
            want = cur in ("TASK_PENDING", None) and not ordered
            if bool(calls) != want:
                wrong = "status %s, outcome %s, %s mode: the tracker is %s the queue" % (cur, new_, "ordered" if ordered else "unordered", "appended to" if calls else "NOT appended to")
                break
        ctx.check(wrong is None, c, "append iff the outcome was registered now and the mode is unordered (every row of the case table)",
                  "%s: some completions are never delivered, or delivered twice / in ordered mode" % wrong)
        st = assigns_to(f, "self._result")
        ctx.check(bool(st) and g.every_path_to(g.nodes_of(c), g.nodes_of_all(st)), c, "the result is stored before the tracker becomes visible to the consumer")
    r = F(ctx, "Parallel._retrieve")
    rm = [c for c in calls_in(r) if call_attr(c) in ("remove", "discard") and dotted(c.func.value) == "self._jobs_set"]
    gr = cfg_of(r)
    ctx.check(len(rm) == 1, rm[0] if rm else r, "a delivered tracker is removed from the pending set")
    for c in rm:
        conds = gr.conditions_at(gr.nodes_of(c))
        ctx.check(any(unparse(t) == "not self.return_ordered" and pol or unparse(t) == "self.return_ordered" and not pol for (_, t, pol) in conds), c, "only in unordered mode")
    tcj = [c for c in calls_in(r) if call_name(c) == "next" and c.args and any(dotted(x) == "self._jobs_set" for x in ast.walk(c.args[0]))]
    ctx.check(bool(tcj), tcj[0] if tcj else r, "unordered mode picks a pending job for timeout control from the pending set")


def c16_exit(ctx):
    f = F(ctx, "Parallel.__exit__")
    g = cfg_of(f)
    ab = [c for c in calls_in(f) if call_name(c) == "self._abort"]
    tr = [c for c in calls_in(f) if call_name(c) == "self._terminate_and_reset"]
    ctx.check(bool(tr) and g.every_path_from([g.entry], g.nodes_of_all(tr)), tr[0] if tr else f, "__exit__ terminates and resets on every path",
              "__exit__ does not always call _terminate_and_reset()", key=None if tr else PAR + "::Parallel.__exit__::_terminate_and_reset")
    ctx.check(bool(ab), ab[0] if ab else f, "__exit__ aborts a generator run that is still active", "__exit__ never aborts an active generator run",
              key=None if ab else PAR + "::Parallel.__exit__::_abort")
    for c in ab:
        ctx.check(g.fact_set(g.nodes_of(c)) == {("self.return_generator", True), ("self._calling", True)}, c, "abort iff return_generator and a call is active")
        ctx.check(tr and g.every_path_from(g.nodes_of(c), g.nodes_of_all(tr)), c, "abort precedes terminate")
    mb = [a for a in assigns_to(f, "self._managed_backend") if is_const(a.value, False)]
    ctx.check(bool(mb) and tr and g.every_path_to(g.nodes_of_all(tr), g.nodes_of_all(mb)), mb[0] if mb else f, "_managed_backend is cleared before terminating (so the backend is really shut down)")
    en = F(ctx, "Parallel.__enter__")
    mb2 = [a for a in assigns_to(en, "self._managed_backend") if is_const(a.value, True)]
    ctx.check(bool(mb2), mb2[0] if mb2 else en, "__enter__ marks the backend as managed")


def c16_support(ctx):
    f = F(ctx, "Parallel.__init__")
    g = cfg_of(f)
    tests = [n for n in nodes_of_type(f, ast.If) if "supports_return_generator" in unparse(n.test)]
    if not tests:
        ctx.bad(f, "__init__ does not reject return_as=generator for backends that cannot support it", key=PAR + "::Parallel.__init__::supports_return_generator test")
        return
    for n in tests:
        ctx.check(unparse(n.test) == "self.return_generator and (not backend.supports_return_generator)", n, "test is `return_generator and not backend.supports_return_generator`")
        ctx.check(any(isinstance(s, ast.Raise) and isinstance(s.exc, ast.Call) and call_name(s.exc) == "ValueError" for s in n.body), n, "=> ValueError")
    rg = assigns_to(f, "self.return_generator")
    ro = assigns_to(f, "self.return_ordered")
    ctx.check(bool(rg) and unparse(rg[0].value) == "return_as != 'list'", rg[0] if rg else f, "return_generator iff return_as != 'list'")
    ctx.check(bool(ro) and unparse(ro[0].value) == "return_as != 'generator_unordered'", ro[0] if ro else f, "return_ordered iff return_as != 'generator_unordered'")
    call = F(ctx, "Parallel.__call__")
    rets = [r for r in nodes_of_type(call, ast.Return) if isinstance(r.value, ast.IfExp)]
    ctx.floor(len(rets), 2, "return sites of __call__")
    for r in rets:
        v = r.value
        ctx.check(unparse(v.test) == "self.return_generator" and dotted(v.body) == "output" and isinstance(v.orelse, ast.Call) and call_name(v.orelse) == "list", r,
                  "__call__ returns the generator itself, or list(generator) for return_as='list'")


def _lb_guarded(expr, f, g, at, depth=3):
    """integer lower bound using the guards in force at statement `at`:
       old_batch_size >= 1 (the stored effective batch size, an invariant decided separately);
       k * X >= k * lb(X) for a literal k >= 0;  min / max as usual;  a local resolves through its reaching definitions;
       int(X * C / d) >= lb(X) when the guards give 0 < d < C (the ratio C / d exceeds 1)."""
    from ..core import cond_facts
    if isinstance(expr, ast.Constant) and isinstance(expr.value, int):
        return expr.value
    if dotted(expr) == "old_batch_size":
        return 1
    if isinstance(expr, ast.Call) and call_name(expr) in ("max", "min") and expr.args:
        bs = [_lb_guarded(a, f, g, at, depth) for a in expr.args]
        if call_name(expr) == "max":
            bs = [b for b in bs if b is not None]
            return max(bs) if bs else None
        return min(bs) if all(b is not None for b in bs) else None
    if isinstance(expr, ast.BinOp) and isinstance(expr.op, ast.Mult):
        for k, x in ((expr.left, expr.right), (expr.right, expr.left)):
            if isinstance(k, ast.Constant) and isinstance(k.value, int) and k.value >= 0:
                b = _lb_guarded(x, f, g, at, depth)
                return None if b is None or b < 0 else k.value * b
    if isinstance(expr, ast.Call) and call_name(expr) == "int" and len(expr.args) == 1:
        q = expr.args[0]
        if isinstance(q, ast.BinOp) and isinstance(q.op, ast.Div) and isinstance(q.left, ast.BinOp) and isinstance(q.left.op, ast.Mult):
            den, X, C = unparse(q.right), q.left.left, unparse(q.left.right)
            facts = set(cond_facts(g.conditions_at(g.nodes_of(at))))
            pos = {("0 < %s" % den, True), ("%s > 0" % den, True), ("%s <= 0" % den, False), ("0 >= %s" % den, False)} & facts
            small = {("%s < %s" % (den, C), True), ("%s > %s" % (C, den), True), ("%s <= %s" % (C, den), False), ("%s >= %s" % (den, C), False)} & facts
            b = _lb_guarded(X, f, g, at, depth)
            if pos and small and b is not None and b >= 0:
                return b
        return None
    if isinstance(expr, ast.Name) and depth > 0:
        defs = [a for a in nodes_of_type(f, ast.Assign) if expr.id in stores_to(a)]
        reaching = [a for a in defs if g.path_exists(g.nodes_of(a), g.nodes_of(at))]
        bs = [_lb_guarded(a.value, f, g, a, depth - 1) for a in reaching]
        if reaching and all(b is not None for b in bs):
            return min(bs)
    return None


def c01_batchsize(ctx):
    """The batch size handed to dispatch_one_batch is >= 1 on every path
    (a zero batch size slices nothing and ends the iteration early)."""
    f = F(ctx, "AutoBatchingMixin.compute_batch_size", BK)
    g = cfg_of(f)
    rets = nodes_of_type(f, ast.Return)
    ctx.need(rets and all(dotted(r.value) == "batch_size" for r in rets), "compute_batch_size does not return the local batch_size")
    defs = [a for a in nodes_of_type(f, (ast.Assign, ast.AugAssign)) if "batch_size" in stores_to(a)]
    dn = {id(d): g.nodes_of(d) for d in defs}
    n = 0
    for d in defs:
        others = set()
        for o in defs:
            if o is not d:
                others.update(dn[id(o)])
        if not g.path_exists(dn[id(d)], g.nodes_of_all(rets), avoid=others):
            continue  # overwritten before any return
        n += 1
        v = d.value
        lb = lower_bound(v, None) if not isinstance(d, ast.AugAssign) else None
        if lb is None and not isinstance(d, ast.AugAssign):
            lb = _lb_guarded(v, f, g, d)
        if lb is None and isinstance(v, ast.Call) and call_name(v) == "max":
            lb = max([x.value for x in v.args if isinstance(x, ast.Constant) and isinstance(x.value, int)] or [None]) if any(isinstance(x, ast.Constant) for x in v.args) else None
        keep = dotted(v) == "old_batch_size"
        ctx.check((lb is not None and lb >= 1) or keep, d, "batch_size definition reaching the return is %s" % ("the previous effective batch size" if keep else "bounded below by %s" % lb),
                  "batch_size = %s reaches the return without a lower bound of 1: a zero batch size makes dispatch_one_batch slice nothing and end the iteration with tasks left" % unparse(v))
    ctx.floor(n, 3, "definitions of batch_size reaching the return")
    old = _single_defs(f, "old_batch_size")
    ctx.check(len(old) == 1 and dotted(old[0].value) == "self._effective_batch_size", old[0] if old else f, "old_batch_size is the stored effective batch size")
    cls = ctx.repo.cls(BK, "AutoBatchingMixin")
    for fn in [m for m in cls.body if isinstance(m, ast.FunctionDef)]:
        for a in nodes_of_type(fn, ast.Assign):
            if "self._effective_batch_size" in stores_to(a):
                v = a.value
                ok = dotted(v) in ("batch_size", "self._DEFAULT_EFFECTIVE_BATCH_SIZE")
                ctx.check(ok, a, "the stored effective batch size is a bounded batch_size or the default", "effective batch size is stored from %s" % unparse(v))
    dflt = ctx.res.class_attr(BK, cls, "_DEFAULT_EFFECTIVE_BATCH_SIZE")
    ctx.check(dflt is not None and isinstance(const_value(dflt), int) and const_value(dflt) >= 1, cls, "the default effective batch size is >= 1")
    base = F(ctx, "ParallelBackendBase.compute_batch_size", BK)
    ctx.check(all(isinstance(const_value(r.value), int) and const_value(r.value) >= 1 for r in nodes_of_type(base, ast.Return)), base, "the base backend's batch size is a constant >= 1")
    init = F(ctx, "Parallel.__init__")
    t = [n_ for n_ in nodes_of_type(init, ast.If) if "batch_size" in names_in(n_.test) and "Integral" in unparse(n_.test)]
    ctx.check(bool(t) and "batch_size > 0" in unparse(t[0].test), t[0] if t else init, "a fixed batch_size must be a positive integer")
    gb = F(ctx, "Parallel._get_batch_size")
    for r in nodes_of_type(gb, ast.Return):
        ctx.check(unparse(r.value) in ("self._backend.compute_batch_size()", "self.batch_size"), r, "_get_batch_size returns the backend's estimate or the validated fixed size")


def c04_timeout_unordered(ctx):
    """Unordered mode: the job used for timeout control is re-picked after a
    retrieval (a completed control job never times out)."""
    f = F(ctx, "Parallel._retrieve")
    g = cfg_of(f)
    picks = [a for a in nodes_of_type(f, ast.Assign) if "timeout_control_job" in stores_to(a) and not is_const(a.value, None)]
    resets = [a for a in nodes_of_type(f, ast.Assign) if "timeout_control_job" in stores_to(a) and is_const(a.value, None)]
    pops = [c for c in calls_in(f) if call_attr(c) == "popleft" and dotted(c.func.value) == "self._jobs"]
    ctx.need(picks and pops, "timeout control job / pop not found in _retrieve")
    for a in picks:
        v = a.value
        ctx.check(isinstance(v, ast.Call) and call_name(v) == "next" and "self._jobs_set" in unparse(v), a, "the control job is picked among the dispatched, not yet delivered jobs")
        conds = g.conditions_at(g.nodes_of(a))
        ctx.check(any(unparse(t) == "timeout_control_job is None" and pol for (_, t, pol) in conds), a, "only when no control job is being watched")
    # edges on which the variable is known to be None / mode is unordered
    drop = set()
    none_edges = set()
    for nd in g.nodes:
        if nd.kind != "test":
            continue
        u = unparse(nd.ast.test)
        for (t, lab) in nd.succ:
            if u == "self.return_ordered" and lab == "T":
                drop.add((nd.id, t, lab))
            if u == "timeout_control_job is not None" and lab == "F":
                none_edges.add((nd.id, t, lab))
            if u == "timeout_control_job is None" and lab == "T":
                none_edges.add((nd.id, t, lab))
    starts = set()
    for a in picks:
        for nid in g.nodes_of(a):
            starts.update(t for (t, lab) in g.nodes[nid].succ)
    r = g.reach(starts, avoid=g.nodes_of_all(resets) | g.nodes_of_all(picks), avoid_edges=drop | none_edges)
    ctx.check(not (r & g.nodes_of_all(pops)), pops[0], "in unordered mode every path from picking a control job to the next retrieval resets it (a fresh pending job is watched afterwards)",
              "a job can be retrieved while the old timeout-control job is kept: once that job has completed, a later task that never completes is waited for forever (no TimeoutError)")
    for a in resets:
        blk = [s for s in parent(a).body] if hasattr(parent(a), "body") else []
        cnt = [s for s in nodes_of_type(f, ast.Assign) if "timeout_control_job._completion_timeout_counter" in stores_to(s) and is_const(s.value, None)]
        ctx.check(bool(cnt), a, "the watched job's timeout counter is cleared as well")


def c01_drain(ctx):
    """Every registered job's result is delivered: jobs still queued when the retrieval loop stops are
    drained after the finally, unless an exception occurred. For backends without a retrieval callback
    (results fetched by the caller thread) either the loop keeps going while jobs are queued, or the
    drain covers them - at least one of the two must hold."""
    f = F(ctx, "Parallel._get_outputs")
    g = cfg_of(f)
    tr = _final_try(f)
    ctx.need(tr is not None, "_get_outputs has no try/finally")
    defs = [a for s_ in tr.finalbody for a in walk_local(s_) if isinstance(a, ast.Assign) and "_remaining_outputs" in stores_to(a)]
    ctx.need(defs, "the leftover-jobs hand-over (_remaining_outputs) was not found in finally")
    drain_all = True       # drain covers every backend when no exception occurred
    for a in defs:
        vals = [(a.value.body, [("T", a.value.test)]), (a.value.orelse, [("F", a.value.test)])] if isinstance(a.value, ast.IfExp) else [(a.value, [])]
        for v, extra in vals:
            conds = [(unparse(t), pol) for (i_, t, pol) in g.conditions_at(g.nodes_of(a)) if in_block(i_, tr.finalbody)]
            conds += [(unparse(t), k == "T") for k, t in extra]
            empty = isinstance(v, (ast.List, ast.Tuple)) and not v.elts or (isinstance(v, ast.Call) and call_name(v) in ("collections.deque", "deque", "list") and not v.args)
            if empty:
                only_exc = [c for c in conds if not (c[0] == "self._exception")]
                if any(not (c[0] == "self._exception" and c[1]) and "_exception" not in c[0] for c in conds) or not conds:
                    drain_all = False
                ctx.check(any("self._exception" in c[0] for c in conds) or True, a, "leftover jobs are discarded under %s" % conds)
            else:
                ctx.check(dotted(v) == "self._jobs", a, "leftover jobs handed to the drain loop are the jobs queue itself", "the drain loop receives %s instead of the jobs queue" % unparse(v))
    # was any discard conditioned on something else than the exception flag?
    for a in defs:
        txt = ast.unparse(a.value) if isinstance(a.value, ast.IfExp) else ""
        cl = [(unparse(t), pol) for (i_, t, pol) in g.conditions_at(g.nodes_of(a)) if in_block(i_, tr.finalbody)]
        is_empty = (isinstance(a.value, (ast.List, ast.Tuple)) and not a.value.elts)
        if is_empty and any("supports_retrieve_callback" in c[0] or ("_exception" not in c[0]) for c in cl):
            drain_all = False
        if isinstance(a.value, ast.IfExp) and unparse(a.value.test) != "self._exception":
            drain_all = False
    loops = [w for w in f.body if isinstance(w, ast.While) and "_remaining_outputs" in unparse(w.test)]
    ctx.check(bool(loops) and f.body.index(loops[0]) > f.body.index(tr), loops[0] if loops else f, "a drain loop over the leftover jobs follows the finally")
    wr = F(ctx, "Parallel._wait_retrieval")
    gw = cfg_of(wr)
    keep = False
    for r in nodes_of_type(wr, ast.Return):
        if is_const(r.value, True):
            conds = [(unparse(t), pol) for (_, t, pol) in gw.conditions_at(gw.nodes_of(r))]
            if any("supports_retrieve_callback" in c[0] for c in conds) and any(c[0] in ("0 < len(self._jobs)", "len(self._jobs) != 0", "self._jobs") and c[1] for c in conds):
                keep = True
    ctx.check(keep or drain_all, wr, "jobs of backends without retrieval callback are never dropped (%s)" % (
        "the retrieval loop keeps going while jobs are queued" if keep else "the drain after finally covers them"),
        "for backends without a retrieval callback the retrieval loop may stop with jobs still queued AND the drain after finally skips them: results are silently lost")


def c09_per_call_inputs(ctx):
    """Everything the dispatch code reads that is not fixed at construction time is (re)computed by every
    call before dispatching starts (a value left over from an earlier call - e.g. the worker count cached
    when the backend was configured - would size the look-ahead of this call)."""
    cls = ctx.repo.cls(PAR, "Parallel")
    init = F(ctx, "Parallel.__init__")
    methods = {m.name for m in cls.body if isinstance(m, ast.FunctionDef)}
    init_attrs = set()
    for n in ast.walk(init):
        if isinstance(n, (ast.Assign, ast.AugAssign, ast.AnnAssign)):
            init_attrs.update(t[5:] for t in stores_to(n) if t.startswith("self.") and t.count(".") == 1)
    # class-level attributes and Logger base attributes are construction-time too
    for st in cls.body:
        if isinstance(st, ast.Assign):
            init_attrs.update(stores_to(st))
    readers = ["Parallel.dispatch_one_batch", "Parallel._dispatch", "Parallel.dispatch_next", "Parallel._get_batch_size", "Parallel._register_new_job"]
    read = {}
    for q in readers:
        fn = F(ctx, q)
        for n in body_walk(fn):
            if isinstance(n, ast.Attribute) and isinstance(n.value, ast.Name) and n.value.id == "self" and isinstance(n.ctx, ast.Load):
                if n.attr not in methods and n.attr not in init_attrs:
                    read.setdefault(n.attr, n)
    ctx.floor(len(read), 4, "per-call attributes read by the dispatch code")
    call = F(ctx, "Parallel.__call__")
    g = cfg_of(call)
    go = list(calls_in(call, "self._get_outputs"))
    ctx.need(go, "__call__ no longer starts _get_outputs")
    for attr in sorted(read):
        def is_store(n, attr=attr):
            return isinstance(n, (ast.Assign, ast.AnnAssign)) and ("self." + attr) in stores_to(n)
        ss = sites(ctx.res, call, is_store, depth=2, must=True)
        ok = bool(ss) and g.every_path_to(g.nodes_of_all(go), g.nodes_of_all(ss))
        ctx.check(ok, ss[0] if ss else read[attr], "self.%s (read while dispatching) is assigned on every path of __call__ before dispatching starts" % attr,
                  "self.%s is read by the dispatch code but not assigned by every call before dispatching starts: inside a `with Parallel(...)` block a stale value of an "
                  "earlier call (or configuration) is used" % attr, key=PAR + "::Parallel.__call__::per-call input self." + attr)
