"""C16 - generator outputs: prompt, in the promised order, safe to abandon."""

from . import par

PROPERTY = "C16"
EXPLANATION = (
    "Static decision of the structural clauses of C16: atomic test-and-set of the running flag and its release "
    "in finally, GeneratorExit/abort paths (same thread and detached thread), ordered mode waits on the head of "
    "the FIFO only, unordered mode appends each completed tracker exactly once under the lock after storing its "
    "result, stale-callback guard by call id, __exit__ aborts an active generator run, unsupported backends are "
    "rejected. 'As soon as' is a timing statement (10 ms polling) and is NOT decided; completion order in "
    "unordered mode is the backend's callback order."
    ' Every yield of the output generators lies in the region whose finally/handlers clear _running.'
)
ASSUMPTIONS = [
    "the pools call the completion callback at most once per submitted batch",
    "generator close raises GeneratorExit at a yield inside the try of _get_outputs",
]


def run(ctx):
    ctx.run("C16.RUNNING", "R-LOCK/R-ORDER", par.c16_running)
    ctx.run("C16.GENEXIT", "R-ORDER", par.c16_genexit)
    ctx.run("C16.HEAD-ONLY", "R-FLOW", par.c16_head_only)
    ctx.run("C01.STATUS-MODE", "R-SIBLING", par.c01_status_mode)
    ctx.run("C01.FIFO", "R-DUAL", par.c01_fifo)
    ctx.run("C16.UNORDERED", "R-ORDER", par.c16_unordered)
    ctx.run("C16.STALE", "R-LOCK/R-ORDER", par.c04_callid)
    ctx.run("C04.CALLBACK-TOTAL", "R-ORDER", par.c04_callback_total)
    ctx.run("C16.EXIT", "R-ORDER", par.c16_exit)
    ctx.run("C16.SUPPORT", "R-ORDER", par.c16_support)
    ctx.run("C04.ONCE", "R-ORDER/R-LOCK", par.c04_once)
    ctx.run("C04.CLEANUP", "R-ORDER", par.c04_cleanup)
    ctx.run("C09.ABORT-DOM", "R-ORDER", par.c09_abort_dom)
    ctx.run("C01.FLATTEN", "R-ORDER", par.c01_flatten)
    ctx.run("C01.STOP", "R-FLOW", par.c01_stop)
    ctx.run("C01.EACH-ONCE", "R-FLOW/R-ORDER", par.c01_each_once)
    ctx.run("C01.LOCK", "R-LOCK", par.c01_lock)
    ctx.run("C01.REG-BEFORE-SUBMIT", "R-ORDER", par.c01_reg_before_submit)
