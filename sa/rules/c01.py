"""C01 - Parallel returns what the sequential loop returns, in order, each task once."""

from . import par

PROPERTY = "C01"
EXPLANATION = (
    "Static (AST/CFG/lock-set) decision of the structural clauses of C01 (DESIGN.md section 5): every mutation of "
    "dispatch state reachable from a callback thread holds the dispatch lock (lexically or at every call site); "
    "the tracker is registered before backend.submit; the jobs queue is strictly FIFO; batches are the tiling "
    "X[i:i+S] for i in range(0, len(X), S) with S >= 1; each queued batch is put once and each batch taken is "
    "dispatched; results are flattened by plain in-order iteration; dispatched/completed counters are paired with "
    "submit/callback; the retrieval loop cannot stop while iterating or while dispatched > completed; every "
    "backend attaches the callback for success and failure; BatchedCalls survives pickling in order; per-call "
    "state is reset (C04.RESET). Value equality, pool internals and the auto-batching heuristic are NOT decided."
    ' The pre_dispatch amount handed to the look-ahead slice is >= 1 on every path (an amount of 0 would dispatch nothing).'
    ' One capability flag (supports_retrieve_callback) decides the whole retrieval protocol of the completion tracker (C01.STATUS-MODE); a registered error always re-enters the raising loop (C04.ERROR-SURFACES).'
)
ASSUMPTIONS = [
    "the pools call the completion callback at most once per submitted batch",
    "CPython list/deque/queue.Queue semantics; pickle preserves list order",
    "call resolution restricted to joblib/parallel.py classes Parallel and BatchCompletionCallBack",
]


def run(ctx):
    ctx.run("C01.LOCK", "R-LOCK", par.c01_lock)
    ctx.run("C01.REG-BEFORE-SUBMIT", "R-ORDER", par.c01_reg_before_submit)
    ctx.run("C01.FIFO", "R-DUAL", par.c01_fifo)
    ctx.run("C01.PARTITION", "R-ARITH", par.c01_partition)
    ctx.run("C01.EACH-ONCE", "R-FLOW/R-ORDER", par.c01_each_once)
    ctx.run("C01.FLATTEN", "R-ORDER", par.c01_flatten)
    ctx.run("C01.COUNT", "R-ORDER", par.c01_count)
    ctx.run("C01.STOP", "R-FLOW", par.c01_stop)
    ctx.run("C01.BATCHSIZE", "R-ARITH", par.c01_batchsize)
    ctx.run("C01.PREDISPATCH", "R-ARITH", par.c01_predispatch_positive)
    ctx.run("C01.DRAIN", "R-ORDER", par.c01_drain)
    ctx.run("C01.STATUS-MODE", "R-SIBLING", par.c01_status_mode)
    ctx.run("C04.ERROR-SURFACES", "R-FLOW", par.c04_error_surfaces)
    ctx.run("C01.CALLBACK-SIBLINGS", "R-SIBLING", par.c01_callback_siblings)
    ctx.run("C01.REDUCE", "R-DUAL", par.c01_reduce)
    ctx.run("C04.RESET", "R-RESET", par.c04_reset)
    ctx.run("C04.CALLID", "R-LOCK/R-ORDER", par.c04_callid)
    ctx.run("C04.CALLBACK-TOTAL", "R-ORDER", par.c04_callback_total)
