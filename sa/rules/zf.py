"""Clauses over compressor.py / numpy_pickle_utils.py / numpy_pickle.py shared
by C03, C13, C14."""

import ast

from ..cfg import cfg_of
from ..core import (
    ancestors, assigns_to, body_walk, call_attr, call_name, calls_in, const_value, dotted, enclosing_stmt, handler_catches,
    in_block, is_const, kwarg, names_in, nodes_of_type, parent, stores_to, unparse, walk_local, enclosing_withs, cond_holds, cond_facts, Undecidable,
)

CP = "joblib/compressor.py"
NPU = "joblib/numpy_pickle_utils.py"
NP = "joblib/numpy_pickle.py"
Z = "BinaryZlibFile"


def ZF(ctx, name):
    return ctx.repo.func(CP, "%s.%s" % (Z, name))


def _loops(fn):
    return nodes_of_type(fn, ast.While)


def _back_edge_unconditional(loop, stmt):
    """is `stmt` a direct child of the loop body (executed on every iteration
    that reaches the back edge without break/continue before it)?"""
    if stmt not in loop.body:
        return False
    idx = loop.body.index(stmt)
    for s in loop.body[:idx]:
        for n in walk_local(s):
            if isinstance(n, ast.Continue):
                return False
    return True


# ---------------------------------------------------------------------------
# C14
# ---------------------------------------------------------------------------

def _sources(v):
    if isinstance(v, ast.BoolOp):
        out = []
        for x in v.values:
            out += _sources(x)
        return out
    if isinstance(v, ast.IfExp):
        return _sources(v.body) + _sources(v.orelse)
    return [v]



# ---------------------------------------------------------------------------
# abstract cursor state of BinaryZlibFile: (buffer in {E empty, N non-empty}, offset in {Z zero, L len(buffer), M between})
# "unread data remains"  <=>  buffer N and offset in {Z, M}.  E makes Z and L coincide.
# ---------------------------------------------------------------------------

def _refill_test_kind(t):
    """'offset' for tests equivalent to offset == len(buffer); 'empty' for tests equivalent to len(buffer) == 0"""
    u = unparse(t)
    if u in ("self._buffer_offset == len(self._buffer)", "len(self._buffer) == self._buffer_offset", "len(self._buffer) <= self._buffer_offset", "not self._buffer_offset < len(self._buffer)"):
        return "offset"
    if u in ("not self._buffer", "len(self._buffer) == 0", "self._buffer == b''", "not len(self._buffer)"):
        return "empty"
    return None


def _refill_test_holds(kind, state):
    buf, off = state
    if kind == "offset":
        return off == "L" or (buf == "E" and off == "Z")
    return buf == "E"


def _cursor_after(stmts, state):
    """abstract transfer of a statement list over a SET of cursor states (branches are joined); None = not modelled.
    Accepts one state or a set; returns a set."""
    states = {state} if isinstance(state, tuple) else set(state)
    alias = set()       # local names currently bound to the very object self._buffer
    for st in stmts:
        if isinstance(st, ast.Assign) and len(st.targets) == 1 and isinstance(st.targets[0], ast.Name):
            if dotted(st.value) == "self._buffer":
                alias.add(st.targets[0].id)
            else:
                alias.discard(st.targets[0].id)
        if isinstance(st, ast.Assign) and "self._buffer" in stores_to(st):
            alias.clear()
        nxt = set()
        for (buf, off) in states:
            if isinstance(st, ast.Assign) and "self._buffer" in stores_to(st) and len(st.targets) == 1:
                v = st.value
                if const_value(v) == b"":
                    if off == "M":
                        return None
                    nxt.add(("E", "Z"))
                elif unparse(v) == "self._buffer[self._buffer_offset:]":
                    if off == "L":
                        nxt.add(("E", "Z"))
                    elif off == "M":
                        nxt.add((buf, "?"))      # offset is stale until it is reset
                    else:
                        nxt.add((buf, off))
                elif isinstance(v, ast.Call):
                    # a freshly produced buffer (decompressor output): empty or not; the old offset means nothing for it
                    for nb in ("E", "N"):
                        nxt.add((nb, "Z" if off == "Z" else "?"))
                else:
                    return None
            elif isinstance(st, ast.Assign) and "self._buffer_offset" in stores_to(st) and len(st.targets) == 1:
                v = st.value
                if is_const(v, 0):
                    nxt.add((buf, "Z"))
                elif unparse(v) == "len(self._buffer)" or (isinstance(v, ast.Call) and call_name(v) == "len" and len(v.args) == 1 and isinstance(v.args[0], ast.Name) and v.args[0].id in alias):
                    nxt.add((buf, "Z" if buf == "E" else "L"))
                else:
                    return None
            elif isinstance(st, ast.If):
                for br in (st.body, st.orelse):
                    r = _cursor_after(br, (buf, off))
                    if r is None:
                        return None
                    nxt |= r
            elif isinstance(st, (ast.While, ast.For, ast.Try, ast.With)) and ({"self._buffer", "self._buffer_offset"} & {x for n_ in ast.walk(st) if isinstance(n_, (ast.Assign, ast.AugAssign)) for x in stores_to(n_)}):
                return None
            elif isinstance(st, ast.AugAssign) and dotted(st.target) in ("self._buffer", "self._buffer_offset"):
                return None
            else:
                nxt.add((buf, off))
        states = nxt
    return states



def _fill_buffer_rows(ctx):
    """_fill_buffer walked (sa/table.py traces) over the case table
         mode in {READ, READ_EOF} x buffer {fully consumed, unread bytes left} x decompressor at end-of-stream? x the
         underlying read returns {nothing, a block}
    -> [(row dict, outcome, value, visited statements, calls)]"""
    from ..table import traces, Unknown
    f = ZF(ctx, "_fill_buffer")
    g = cfg_of(f)
    consts = {}
    for st in ctx.repo.mod(CP).tree.body:
        if isinstance(st, ast.Assign) and len(st.targets) == 1 and isinstance(st.targets[0], ast.Name) and isinstance(st.value, ast.Constant):
            consts[st.targets[0].id] = st.value.value
    reads = sorted({unparse(c, 200) for c in calls_in(f) if call_name(c) == "self._fp.read"})
    rows = []
    for mode in ("_MODE_READ", "_MODE_READ_EOF"):
        for unread in (False, True):
            for eos in (False, True):
                for block in (b"", b"BLOCK"):
                    env = dict(consts)
                    env.update({"self._mode": consts.get(mode, mode), "self._buffer": b"abcd" if unread else b"", "self._buffer_offset": 1 if unread else 0, "self._decompressor.eof": eos,
                                "self._decompressor.unused_data": b"", "self._pos": 40, "self._size": -1})
                    for r_ in reads:
                        env[str(r_)] = block
                    try:
                        walks = traces(g, env, call_args=("self._fp.read", "self._decompressor.decompress"))
                    except Unknown as e:
                        raise Undecidable("_fill_buffer: not understood for %s (%s)" % ((mode, unread, eos, block), e))
                    for (kind, val, visited, calls) in walks:
                        rows.append(({"mode": mode, "unread": unread, "eos": eos, "block": block}, kind, val, visited, calls))
    return f, g, rows


def _fill_buffer_table(ctx):
    """the semantic facts of one refill attempt, whatever the shape of the function:
       finished stream / unread bytes => answered at once, nothing read;  end-of-stream marker or an empty read => the EOF
       mode is latched, the size recorded, False answered, nothing fed to the decompressor;  a block => fed to decompress."""
    f, g, rows = _fill_buffer_rows(ctx)
    def stores(visited, attr):
        return [a for a in visited if isinstance(a, ast.Assign) and ("self." + attr) in stores_to(a)]
    for row, kind, val, visited, calls in rows:
        rd = [c for c in calls if c[0] == "self._fp.read"]
        dc = [c for c in calls if c[0] == "self._decompressor.decompress"]
        eofm = [a for a in stores(visited, "_mode") if dotted(a.value) == "_MODE_READ_EOF"]
        what = "mode=%s, %s, decompressor %s end-of-stream, read() -> %r" % (row["mode"], "unread bytes left" if row["unread"] else "buffer consumed", "at" if row["eos"] else "before", row["block"])
        if row["mode"] == "_MODE_READ_EOF":
            if not (kind == "return" and val is False and not rd and not dc):
                return f, "once at EOF, _fill_buffer must keep answering False without reading (%s): it %s" % (what, "reads again" if rd else "answers %r" % (val,))
            continue
        if row["unread"]:
            if not (kind == "return" and val is True and not rd and not dc and not eofm):
                return f, "with unread bytes in the buffer _fill_buffer must answer True at once (%s)" % what
            continue
        at_end = row["eos"] or row["block"] == b""
        if at_end:
            if dc:
                return dc[0][2], "at the end of the data (%s) the decompressor is still fed" % what
            if not (kind == "return" and val is False):
                return f, "at the end of the data (%s) _fill_buffer does not answer False (%s)" % (what, kind)
            if not eofm:
                return f, "_fill_buffer answers False without latching the EOF mode (%s): the stream looks still readable, so a reader that retries on empty reads spins forever on a truncated file" % what
            sz = stores(visited, "_size")
            if not sz:
                return f, "at end of file the stream size is recorded as nothing, not the position reached (%s)" % what
        else:
            if eofm and not dc:
                return eofm[0], "the EOF mode is latched although a block was read and the stream has not ended (%s)" % what
            if not dc or dc[0][1][0] != row["block"]:
                return (dc[0][2] if dc else f), "the block just read is not what is fed to decompress (%s)" % what
    return None, len(rows)


def progress(ctx):
    # (1) _fill_buffer
    f = ZF(ctx, "_fill_buffer")
    g = cfg_of(f)
    loops = _loops(f)
    ctx.need(len(loops) == 1, "_fill_buffer has %d while loops (one declared variant)" % len(loops))
    lp = loops[0]
    kind = _refill_test_kind(lp.test)
    ctx.check(kind is not None, lp, "the refill loop runs while no unread data is left (%s form of the test)" % kind,
              "the refill loop runs while `%s`, which is neither `offset == len(buffer)` nor `buffer is empty`: unread bytes are overwritten, or an empty buffer is reported as data" % unparse(lp.test))
    rt = [r for r in nodes_of_type(f, ast.Return) if is_const(r.value, True)]
    ctx.check(bool(rt) and all(not in_block(r, lp.body) for r in rt), rt[0] if rt else f, "'data available' is answered only after the loop condition became false")
    dec = [c for c in calls_in(lp) if call_name(c) == "self._decompressor.decompress"]
    if not (dec and dec[0].args):
        ctx.bad(lp, "the refill loop no longer feeds the block it read to self._decompressor.decompress", key="%s::%s._fill_buffer::decompress" % (CP, Z))
        return
    blk = dotted(dec[0].args[0])
    defs = [a for s in lp.body for a in walk_local(s) if isinstance(a, ast.Assign) and blk in stores_to(a)]
    ctx.need(defs, "input block of decompress() is not assigned in the loop")
    fresh = [a for s in lp.body for a in walk_local(s) if isinstance(a, ast.Assign) and "self._decompressor" in stores_to(a) and isinstance(a.value, ast.Call) and call_name(a.value) == "zlib.decompressobj"]
    for d in defs:
        for src in _sources(d.value):
            is_read = isinstance(src, ast.Call) and call_name(src) == "self._fp.read"
            if isinstance(src, ast.Constant) and src.value == b"":
                ctx.ok(d, "an empty default block is the 'nothing left' sentinel (it leaves the loop through the emptiness test)")
                continue
            if is_read:
                ctx.ok(d, "refill input comes from self._fp.read(...) of the finite underlying file")
                continue
            ok = bool(fresh)
            ctx.check(ok, d, "alternative refill source %s is consumed by a fresh decompressor" % unparse(src),
                      "on the path where the refill block comes from `%s` no byte of the underlying file is consumed: once the decompressor has reached end-of-stream it returns b'' "
                      "and puts its input back into unused_data, so the loop condition never changes (a valid file followed by extra bytes makes load() spin forever)" % unparse(src))
    for c in dec:
        limited = len(c.args) > 1 or kwarg(c, "max_length") is not None
        tail = any("unconsumed_tail" in unparse(s_, 400) for s_ in lp.body)
        ctx.check(not limited or tail, c, "decompress() delivers all output of the block it is given" + (" (bounded, with unconsumed_tail fed back)" if limited else ""),
                  "decompress() is called with a max_length but unconsumed_tail is never fed back: the rest of a highly compressible block is silently dropped")
    # empty block => exit
    tests = [n for s in lp.body for n in walk_local(s) if isinstance(n, ast.If) and unparse(n.test) in ("not %s" % blk, "%s == b''" % blk, "len(%s) == 0" % blk)]
    ok = bool(tests) and all(isinstance(t.body[-1], (ast.Raise, ast.Return, ast.Break)) for t in tests)
    ctx.check(ok, tests[0] if tests else lp, "an empty read (end of file) leaves the loop", "an empty read does not leave the refill loop")
    if tests:
        ctx.check(all(g.every_path_to(g.nodes_of(c), g.nodes_of_all(tests)) for c in dec), dec[0], "decompress is only fed after the emptiness test")
    # (2) _read_block
    rb = ZF(ctx, "_read_block")
    loops = _loops(rb)
    ctx.need(len(loops) == 1, "_read_block has %d while loops (one declared variant)" % len(loops))
    lp = loops[0]
    t = lp.test
    conj = t.values if isinstance(t, ast.BoolOp) and isinstance(t.op, ast.And) else [t]
    def refill_conj(c):
        if isinstance(c, ast.Call) and call_name(c) == "self._fill_buffer":
            return "plain"
        # `self._fill_buffer() or self._size < 0`: goes on while the size is unknown - terminates only if every EOF answer
        # of _fill_buffer has recorded a non-negative size first
        if isinstance(c, ast.BoolOp) and isinstance(c.op, ast.Or) and len(c.values) == 2 and isinstance(c.values[0], ast.Call) and call_name(c.values[0]) == "self._fill_buffer" \
                and unparse(c.values[1]) in ("self._size < 0", "self._size == -1"):
            return "size"
        return None
    forms = [refill_conj(c) for c in conj]
    ctx.check(any(unparse(c) == "n_bytes > 0" for c in conj) and any(forms), lp, "loop runs while bytes are wanted and the buffer could be refilled",
              "_read_block's loop does not run exactly while bytes are wanted and a refill succeeds")
    if "size" in forms:
        fbf = ZF(ctx, "_fill_buffer")
        gfb = cfg_of(fbf)
        plain = [a for a in nodes_of_type(fbf, ast.Assign) if "self._size" in stores_to(a) and dotted(a.value) == "self._pos"]
        eofm = [a for a in nodes_of_type(fbf, ast.Assign) if "self._mode" in stores_to(a) and dotted(a.value) == "_MODE_READ_EOF"]
        ok_ = bool(plain) and bool(eofm) and all(gfb.every_path_from(gfb.nodes_of(m_), gfb.nodes_of_all(plain), None, skip_exc=True) or gfb.every_path_to(gfb.nodes_of(m_), gfb.nodes_of_all(plain), skip_exc=True) for m_ in eofm) \
            and not [a for a in nodes_of_type(fbf, ast.Assign) if "self._size" in stores_to(a) and a not in plain]
        ctx.check(ok_, lp, "the loop also goes on while the size is unknown, and every end-of-file answer records the size unconditionally (so it stops)",
                  "_read_block keeps refilling while `self._size < 0`, but _fill_buffer can answer EOF leaving the size unknown: reading a stream followed by extra bytes never ends")
    dec_ = [a for a in lp.body if isinstance(a, ast.AugAssign) and dotted(a.target) == "n_bytes" and isinstance(a.op, ast.Sub)]
    ok = len(dec_) == 1 and unparse(dec_[0].value) == "len(data)" and _back_edge_unconditional(lp, dec_[0])
    ctx.check(ok, dec_[0] if dec_ else lp, "every iteration strictly decreases n_bytes by len(data) (data is a non-empty slice of a refilled buffer)",
              "n_bytes is not decreased by len(data) on every iteration: the read loop may not terminate or over-reads")
    ctx.check(not any(isinstance(n, ast.Continue) for s in lp.body for n in walk_local(s)), lp, "no `continue` skips the decrement")
    ctx.check(not any(isinstance(n, (ast.Break, ast.Return)) for s in lp.body for n in walk_local(s)), lp, "the loop is left only when enough bytes were produced or the stream ended (read(n) is never short before EOF)",
              "_read_block leaves its loop early: read(n) returns fewer than n bytes although the stream has more (a BufferedIOBase must not do short reads)")
    # (3) _read_all
    ra = ZF(ctx, "_read_all")
    loops = _loops(ra)
    ctx.need(len(loops) == 1, "_read_all has %d while loops" % len(loops))
    lp = loops[0]
    ctx.check(isinstance(lp.test, ast.Call) and call_name(lp.test) == "self._fill_buffer", lp, "loop runs while the buffer could be refilled")
    fb_ = ZF(ctx, "_fill_buffer")
    kind = _refill_test_kind(_loops(fb_)[0].test) if _loops(fb_) else None
    if kind is not None:
        after = _cursor_after(lp.body, ("N", "Z"))
        if after is None:
            raise Undecidable("_read_all's loop body writes the buffer cursor in a way the abstract cursor does not model")
        badst = sorted(x for x in after if not _refill_test_holds(kind, x))
        ctx.check(not badst, lp, "after each iteration every possible cursor state %s makes the refill test true (the next refill reads the file; the loop ends at EOF)" % sorted(after),
                  "after an iteration of _read_all the cursor can be %s, for which the refill test `%s` is false: the same buffer is collected again and the loop never ends" % (badst, unparse(_loops(fb_)[0].test)))
    # (4) _read_bytes
    rby = ctx.repo.func(NPU, "_read_bytes")
    loops = _loops(rby)
    ctx.need(len(loops) == 1, "_read_bytes has %d while loops" % len(loops))
    lp = loops[0]
    brk = [n for s in lp.body for n in walk_local(s) if isinstance(n, ast.If) and any(isinstance(b, ast.Break) for b in n.body)]
    ok = bool(brk) and "len(r) == 0" in unparse(brk[0].test) and "len(data) == size" in unparse(brk[0].test) and isinstance(brk[0].test, ast.BoolOp) and isinstance(brk[0].test.op, ast.Or)
    ctx.check(ok, brk[0] if brk else lp, "exit on an empty read or on a complete length", "_read_bytes no longer leaves its loop on an empty read (truncated files would hang)")
    rd = [a for s in lp.body for a in walk_local(s) if isinstance(a, ast.Assign) and isinstance(a.value, ast.Call) and call_attr(a.value) == "read"]
    ctx.check(bool(rd) and unparse(rd[0].value.args[0]) == "size - len(data)", rd[0] if rd else lp, "each read asks for the missing part only")
    hs = [h for t_ in nodes_of_type(rby, ast.Try) for h in t_.handlers]
    ctx.check(all(unparse(h.type) == "io.BlockingIOError" for h in hs), hs[0] if hs else rby, "only BlockingIOError is retried (non-blocking descriptors are outside the property's domain)",
              "_read_bytes retries on %s" % [unparse(h.type) for h in hs])
    # (5) read_array
    rarr = ctx.repo.func(NP, "NumpyArrayWrapper.read_array")
    ctx.check(not _loops(rarr), rarr, "read_array has no while loop")
    fl = [l for l in nodes_of_type(rarr, ast.For) if isinstance(l.iter, ast.Call) and call_name(l.iter) == "range"]
    ctx.need(fl, "chunk loop of read_array not found")
    step = fl[0].iter.args[2] if len(fl[0].iter.args) == 3 else None
    sd = [a for a in nodes_of_type(rarr, ast.Assign) if step is not None and dotted(step) in stores_to(a)]
    ok = bool(sd) and isinstance(sd[0].value, ast.BinOp) and isinstance(sd[0].value.op, ast.FloorDiv) and isinstance(sd[0].value.right, ast.Call) and call_name(sd[0].value.right) == "min" \
        and any(unparse(x) == unparse(sd[0].value.left) for x in sd[0].value.right.args)
    ctx.check(ok, sd[0] if sd else fl[0], "chunk step = B // min(B, itemsize) >= 1", "chunk step %s may be 0" % (unparse(sd[0].value) if sd else None))
    # undeclared loops in the load path
    for q in ("_fill_buffer", "_read_block", "_read_all", "read", "seek", "_rewind", "readinto", "tell"):
        fn = ZF(ctx, q)
        if q in ("read", "seek", "_rewind", "readinto", "tell"):
            if _loops(fn):
                # a loop without a declared variant can be neither discharged nor refuted: analysis error, not a violation
                ctx.need(False, "undeclared while loop in %s.%s (no progress variant is declared for it)" % (Z, q))
            ctx.ok(fn, "%s has no loop of its own" % q)


def exact(ctx):
    f = ctx.repo.func(NPU, "_read_bytes")
    g = cfg_of(f)
    loops = _loops(f)
    ctx.need(loops, "_read_bytes loop not found")
    chk = [n for n in f.body if isinstance(n, ast.If) and unparse(n.test) in ("len(data) != size", "len(data) < size")]
    if not chk:
        ctx.bad(f, "_read_bytes does not compare the obtained length with the requested size after its loop: a truncated file yields a short array", key=NPU + "::_read_bytes::length check")
        return
    c = chk[0]
    ctx.check(any(isinstance(s, ast.Raise) and call_name(s.exc) == "ValueError" for s in c.body), c, "fewer bytes than requested => ValueError")
    rets = nodes_of_type(f, ast.Return)
    ctx.check(rets and all(dotted(r.value) == "data" and any(i is c and not pol for (i, _, pol) in g.conditions_at(g.nodes_of(r))) for r in rets), c, "data is returned only with the exact length")
    ctx.check(f.body.index(c) > f.body.index(loops[0]), c, "the comparison follows the read loop")
    lp = loops[0]
    rd = [a for a in nodes_of_type(lp, ast.Assign) if isinstance(a.value, ast.Call) and call_attr(a.value) == "read"]
    acc = [a for a in nodes_of_type(lp, ast.AugAssign) if dotted(a.target) == "data" and isinstance(a.op, ast.Add)]
    ok = bool(rd) and bool(acc) and dotted(acc[0].value) == rd[0].targets[0].id and g.every_path_from(g.nodes_of(rd[0]), g.nodes_of_all(acc), g.nodes_of(lp) + [g.exit], skip_exc=True)
    ctx.check(bool(ok), acc[0] if acc else lp, "every block read is appended to the data before the loop decides to go on or stop",
              "_read_bytes does not accumulate each block it reads: the length never reaches the requested size, the rest of the file is consumed and every array load fails")
    init = [a for a in f.body if isinstance(a, ast.Assign) and "data" in stores_to(a)]
    ctx.check(bool(init) and unparse(init[0].value) in ("bytes()", "b''") and f.body.index(init[0]) < f.body.index(lp), init[0] if init else f, "accumulation starts from empty bytes")
    ra = ctx.repo.func(NP, "NumpyArrayWrapper.read_array")
    fl = [l for l in nodes_of_type(ra, ast.For) if isinstance(l.iter, ast.Call) and call_name(l.iter) == "range"]
    ctx.need(fl, "chunk loop not found")
    reads = [c_ for c_ in calls_in(fl[0]) if call_attr(c_) in ("read", "readinto", "_read_bytes")]
    ctx.check(len(reads) == 1 and call_name(reads[0]) == "_read_bytes" and dotted(reads[0].args[0]) == "unpickler.file_handle", reads[0] if reads else fl[0],
              "array payload bytes are read only through _read_bytes (exact length or ValueError)", "array payload is read through %s" % [call_name(r) for r in reads])
    rs = [a for a in nodes_of_type(ra, ast.Assign) if "read_size" in stores_to(a)]
    ctx.check(bool(rs) and unparse(rs[0].value) == "int(read_count * self.dtype.itemsize)" and dotted(reads[0].args[1]) == "read_size", rs[0] if rs else ra, "requested size = count * itemsize")


def eof_not_data(ctx):
    f = ZF(ctx, "_fill_buffer")
    bad_at, msg = _fill_buffer_table(ctx)
    if bad_at is not None:
        ctx.bad(bad_at, msg, key="%s::%s._fill_buffer::one refill attempt (case table)" % (CP, Z))
    else:
        ctx.ok(f, "one refill attempt over the case table (%d walks): finished / unread => answered at once; end-of-stream or empty read => EOF latched, size recorded, False; a block => decompressed" % msg)
    def size_ok(v):
        # the position reached, or "unknown" (-1: seek-from-end re-scans) - possibly chosen by a conditional expression
        if dotted(v) == "self._pos" or const_value(v) == -1:
            return True
        return isinstance(v, ast.IfExp) and size_ok(v.body) and size_ok(v.orelse)
    sz = [a for a in nodes_of_type(f, ast.Assign) if "self._size" in stores_to(a)]
    ctx.check(bool(sz) and all(size_ok(a.value) for a in sz) and not all(const_value(a.value) == -1 for a in sz), sz[0] if sz else f, "the stream size recorded at EOF is the current position (or left unknown)",
              "at end of file the stream size is recorded as %s, not the position reached" % (unparse(sz[0].value) if sz else "nothing"))
    g0 = cfg_of(f)
    mode_sets = [a for a in nodes_of_type(f, ast.Assign) if "self._mode" in stores_to(a) and dotted(a.value) == "_MODE_READ_EOF"]
    for r in [r for r in nodes_of_type(f, ast.Return) if is_const(r.value, False)]:
        conds = [(unparse(t), pol) for (_, t, pol) in g0.conditions_at(g0.nodes_of(r))]
        already = ("self._mode == _MODE_READ_EOF", True) in conds
        ctx.check(already or g0.every_path_to(g0.nodes_of(r), g0.nodes_of_all(mode_sets)), r, "'no more data' is answered only with the EOF mode latched (callers never poll a finished stream again)",
                  "_fill_buffer answers False without latching the EOF mode: the stream looks still readable, so a reader that retries on empty reads spins forever on a truncated file")
    rets = [r for r in nodes_of_type(f, ast.Return) if is_const(r.value, True)]
    g = cfg_of(f)
    lp = _loops(f)
    ctx.check(bool(rets) and bool(lp), rets[0] if rets else f, "True is only answered after the loop saw a non-empty buffer")
    # every `raise EOFError` states a real end: end-of-stream marker seen, or an empty read of the underlying file
    for r in [x for x in nodes_of_type(f, ast.Raise) if x.exc is not None and (dotted(x.exc) == "EOFError" or call_name(x.exc) == "EOFError")]:
        facts = cond_facts([c_ for c_ in g.conditions_at(g.nodes_of(r)) if lp and in_block(c_[0], lp[0].body)])
        ends = {("self._decompressor.eof", True), ("rawblock", False), ("rawblock == b''", True), ("len(rawblock) == 0", True)}
        ok = len([f_ for f_ in facts if f_ in ends]) == 1 and all(f_ in ends or f_ == ("self._decompressor.eof", False) for f_ in facts)
        ctx.check(ok, r, "EOFError is raised exactly on %s" % facts, "EOFError is raised under %s: a stream with data left is reported finished (or the end is never reported)" % facts)
    dec_ = [a for a in nodes_of_type(f, ast.Assign) if "self._buffer" in stores_to(a) and isinstance(a.value, ast.Call) and call_name(a.value) == "self._decompressor.decompress"]
    ctx.check(bool(dec_), dec_[0] if dec_ else f, "the refilled buffer is the decompressor's output for the block just read", "_fill_buffer no longer stores the decompressed block in the buffer")
    # collected data is returned iff asked for
    for q_ in ("_read_all", "_read_block"):
        fn_ = ZF(ctx, q_)
        g_ = cfg_of(fn_)
        apps = [c for c in calls_in(fn_) if call_name(c) == "blocks.append"]
        joins = [r for r in nodes_of_type(fn_, ast.Return) if isinstance(r.value, ast.Call) and call_attr(r.value) == "join"]
        ctx.check(bool(apps) and bool(joins), apps[0] if apps else fn_, "%s collects the blocks and returns their concatenation" % q_, "%s no longer collects the blocks it reads (or no longer returns them)" % q_)
        for x in apps + joins:
            facts = [f_ for f_ in cond_facts(g_.conditions_at(g_.nodes_of(x))) if "return_data" in f_[0]]
            ctx.check(facts == [("return_data", True)], x, "under return_data", "`%s` is executed under %s" % (unparse(x, 50), facts))


# ---------------------------------------------------------------------------
# C13
# ---------------------------------------------------------------------------

def cursor(ctx):
    f = ZF(ctx, "_read_block")
    n = 0
    for a in nodes_of_type(f, ast.Assign):
        if not ("data" in stores_to(a)):
            continue
        v = a.value
        blk = parent(a).body if a in getattr(parent(a), "body", []) else parent(a).orelse
        if isinstance(v, ast.Subscript) and dotted(v.value) == "self._buffer" and isinstance(v.slice, ast.Slice):
            n += 1
            lo, hi = v.slice.lower, v.slice.upper
            st = [s for s in blk if isinstance(s, ast.Assign) and "self._buffer_offset" in stores_to(s)]
            if lo is not None and st:
                g_ = cfg_of(f)
                ctx.check(not g_.path_exists(g_.nodes_of(st[0]), g_.nodes_of(a)), a, "the slice is taken from the current offset before the offset is advanced",
                          "the offset is advanced before the slice [offset:end] is taken: the slice is empty and the bytes are lost")
            ctx.check(bool(st) and hi is not None and unparse(st[0].value) == unparse(hi), a, "the slice handed out ends where the new buffer offset is stored (%s)" % (unparse(hi) if hi else None),
                      "slice upper bound %s differs from the offset stored afterwards (%s): bytes are skipped or returned twice" % (unparse(hi) if hi else None, unparse(st[0].value) if st else "none"))
            if lo is not None:
                ctx.check(unparse(lo) == "self._buffer_offset", a, "the slice starts at the current offset")
                if isinstance(hi, ast.Name):
                    d = [x for x in nodes_of_type(f, ast.Assign) if hi.id in stores_to(x)]
                    ctx.check(len(d) == 1 and unparse(d[0].value) == "self._buffer_offset + n_bytes", d[0] if d else a, "end = offset + n_bytes")
                g = cfg_of(f)
                conds = g.conditions_at(g.nodes_of(a))
                ctx.check(any(unparse(t) in ("%s <= len(self._buffer)" % unparse(hi),) and pol for (_, t, pol) in conds), a, "the fast path is taken only when the buffer holds enough bytes")
            else:
                # offset 0 relies on the re-basing statement before the loop and on _fill_buffer resetting the offset
                lp = _loops(f)
                rebase = [s for s in f.body if isinstance(s, ast.Assign) and "self._buffer" in stores_to(s) and unparse(s.value) == "self._buffer[self._buffer_offset:]"]
                zero = [s for s in f.body if isinstance(s, ast.Assign) and "self._buffer_offset" in stores_to(s) and is_const(s.value, 0)]
                ok = bool(rebase) and bool(zero) and lp and f.body.index(rebase[0]) < f.body.index(zero[0]) < f.body.index(lp[0])
                ctx.check(bool(ok), a, "slicing from 0 is sound: the buffer is re-based to its unread part before the loop",
                          "the slice starts at 0 but the buffer is not re-based to its unread part before the loop")
                g = cfg_of(f)
                conds = g.conditions_at(g.nodes_of(a))
                ctx.check(any(unparse(t) == "%s < len(self._buffer)" % unparse(hi) and pol for (_, t, pol) in conds), a, "a partial slice is taken only when the buffer holds more than wanted")
        elif dotted(v) == "self._buffer":
            n += 1
            st = [s for s in blk if isinstance(s, ast.Assign) and "self._buffer" in stores_to(s) and const_value(s.value) == b""]
            fb_ = ZF(ctx, "_fill_buffer")
            kind = _refill_test_kind(_loops(fb_)[0].test) if _loops(fb_) else None
            if kind is None:
                raise Undecidable("refill test of _fill_buffer not recognised")
            after = _cursor_after(blk, ("N", "Z"))
            if after is None:
                raise Undecidable("the whole-buffer branch of _read_block writes the cursor in a way the abstract cursor does not model")
            badst = sorted(x for x in after if not _refill_test_holds(kind, x))
            ctx.check(not badst, a, "after the whole buffer was handed out every possible cursor state %s makes the refill test true (%s form)" % (sorted(after), kind),
                      "the whole buffer is handed out, leaving the cursor at %s, but the refill test `%s` is false in that state: the same block is returned again and again" % (badst, unparse(_loops(fb_)[0].test)))
            if st:
                g_ = cfg_of(f)
                ctx.check(not g_.path_exists(g_.nodes_of(st[0]), g_.nodes_of(a), avoid=g_.nodes_of(_loops(f)[0]) if _loops(f) else ()), a, "the buffer is handed out before it is emptied",
                          "the buffer is emptied before it is handed out: b'' is returned in place of the data")
    g = cfg_of(f)
    lpb = _loops(f)
    if lpb:
        # def-before-use inside one iteration: the bytes counted/collected are the bytes sliced in THIS iteration
        defs = [a for a in nodes_of_type(lpb[0], ast.Assign) if "data" in stores_to(a)]
        uses = [s_ for s_ in body_walk(lpb[0]) if isinstance(s_, (ast.Expr, ast.AugAssign)) and "data" in names_in(s_) and "data" not in stores_to(s_)]
        head = g.nodes_of(lpb[0])
        ctx.check(bool(defs) and bool(uses) and g.every_path_from(head, g.nodes_of_all(defs), g.nodes_of_all(uses)), uses[0] if uses else lpb[0],
                  "every use of `data` in the loop is preceded, in the same iteration, by a slice of the refilled buffer",
                  "`data` is used in the read loop without being taken from the buffer in that iteration (stale or undefined bytes are returned)")
    fast = [a for a in nodes_of_type(f, ast.Assign) if "data" in stores_to(a) and isinstance(a.value, ast.Subscript) and isinstance(a.value.slice, ast.Slice) and a.value.slice.lower is not None]
    for a in fast:
        rets = [r for r in nodes_of_type(f, ast.Return) if r.value is not None and "data" in names_in(r.value)]
        ctx.check(bool(rets) and g.every_path_from(g.nodes_of(a), g.nodes_of_all(rets), None, skip_exc=True), a, "the fast path returns the slice it took (no fall-through into the refill loop)",
                  "the fast path takes bytes from the buffer but does not return them: they are lost and the refill loop reads further bytes instead")
    ctx.floor(n, 3, "sites handing out buffer data in _read_block")
    fb = ZF(ctx, "_fill_buffer")
    lp = _loops(fb)
    z = [a for a in lp[0].body if isinstance(a, ast.Assign) and "self._buffer_offset" in stores_to(a) and is_const(a.value, 0)] if lp else []
    ctx.check(bool(z), z[0] if z else fb, "a refilled buffer is read from offset 0")
    ra = ZF(ctx, "_read_all")
    rebase = [s for s in ra.body if isinstance(s, ast.Assign) and "self._buffer" in stores_to(s) and unparse(s.value) == "self._buffer[self._buffer_offset:]"]
    lpa = _loops(ra)
    ctx.check(bool(rebase) and lpa and ra.body.index(rebase[0]) < ra.body.index(lpa[0]), rebase[0] if rebase else ra, "_read_all starts from the unread part of the buffer")
    zero = [s for s in ra.body if isinstance(s, ast.Assign) and "self._buffer_offset" in stores_to(s) and is_const(s.value, 0)]
    ctx.check(bool(rebase) and bool(zero) and bool(lpa) and ra.body.index(rebase[0]) < ra.body.index(zero[0]) < ra.body.index(lpa[0]), zero[0] if zero else ra,
              "and resets the offset to 0 after re-basing (the emptiness test of _fill_buffer compares offset with the re-based length)",
              "_read_all re-bases the buffer without resetting the offset: when offset == remaining length the unread bytes are taken for consumed")
    app = [c for c in calls_in(ra) if call_name(c) == "blocks.append"]
    ctx.check(bool(app) and dotted(app[0].args[0]) == "self._buffer", app[0] if app else ra, "_read_all collects each whole buffer")
    if app and lpa:
        gra = cfg_of(ra)
        clr_ = [a_ for a_ in lpa[0].body if isinstance(a_, ast.Assign) and "self._buffer" in stores_to(a_)]
        pos_ = [a_ for a_ in lpa[0].body if isinstance(a_, ast.AugAssign) and dotted(a_.target) == "self._pos"]
        ctx.check(bool(clr_) and not gra.path_exists(gra.nodes_of_all(clr_), list(gra.nodes_of(app[0])) + list(gra.nodes_of_all(pos_)), avoid=gra.nodes_of(lpa[0])), app[0],
                  "the buffer is collected and counted before it is emptied", "_read_all empties the buffer before collecting / counting it")
    for fn in (f, ra):
        j = [r for r in nodes_of_type(fn, ast.Return) if isinstance(r.value, ast.Call) and unparse(r.value) == "b''.join(blocks)"]
        ctx.check(bool(j), j[0] if j else fn, "%s returns the concatenation of the collected blocks in order" % fn.name)
    # the cursor through _fill_buffer itself: entered with "nothing unread" (the states the consumers leave behind that
    # satisfy the refill test), it must answer False (EOF) without making consumed bytes readable again, and answer
    # True only with fresh data at offset 0
    fbl = _loops(fb)
    kind = _refill_test_kind(fbl[0].test) if fbl else None
    if kind is not None:
        entry = {("E", "Z")}
        wb = [a_ for a_ in nodes_of_type(f, ast.Assign) if "data" in stores_to(a_) and dotted(a_.value) == "self._buffer"]
        for a_ in wb:
            blk_ = parent(a_).body if a_ in getattr(parent(a_), "body", []) else parent(a_).orelse
            r_ = _cursor_after(blk_, ("N", "Z"))
            entry |= {x for x in (r_ or ()) if _refill_test_holds(kind, x)}
        if lpa:
            r_ = _cursor_after(lpa[0].body, ("N", "Z"))
            entry |= {x for x in (r_ or ()) if _refill_test_holds(kind, x)}
        body = fbl[0].body
        trs = [x for x in body if isinstance(x, ast.Try)]
        if len(trs) != 1:
            raise Undecidable("_fill_buffer's loop body is not `statements, one try, statements`")
        tr_ = trs[0]
        pre, post = body[:body.index(tr_)], body[body.index(tr_) + 1:]
        hs_ = [h_ for h_ in tr_.handlers if handler_catches(h_, ["EOFError"])]
        eof = _cursor_after(pre + tr_.body + (hs_[0].body if hs_ else []), entry)
        ref = _cursor_after(pre + tr_.body + tr_.orelse + post, entry)
        if eof is None or ref is None:
            raise Undecidable("_fill_buffer writes the cursor in a way the abstract cursor does not model")
        stale = sorted(x for x in eof if x[0] == "N" and x[1] in ("Z", "M", "?"))
        ctx.check(not stale, hs_[0] if hs_ else fb, "at end of file the cursor states %s expose no consumed bytes again" % sorted(eof),
                  "when _fill_buffer answers EOF the cursor can be %s: the last block, already delivered, is readable again (read/readline/readinto at EOF return stale bytes, tell() passes the size)" % stale)
        # leaving the loop with data: refill test false => buffer N; its offset must be 0
        out = sorted(x for x in ref if not _refill_test_holds(kind, x))
        ctx.check(all(x == ("N", "Z") for x in out) and bool(out), fbl[0], "data is announced only as a fresh non-empty buffer read from offset 0",
                  "after a refill the cursor can be %s when _fill_buffer answers True: bytes of the new block are skipped or the offset is stale" % [x for x in out if x != ("N", "Z")])


def pos(ctx):
    rb = ZF(ctx, "_read_block")
    g = cfg_of(rb)
    augs = [a for a in nodes_of_type(rb, ast.AugAssign) if dotted(a.target) == "self._pos"]
    ctx.check(len(augs) == 2 and all(isinstance(a.op, ast.Add) and unparse(a.value) == "len(data)" for a in augs), augs[0] if augs else rb,
              "_read_block advances the position by len(data) at its two data-producing sites", "_read_block has %d position updates (expected fast path + loop)" % len(augs))
    lp = _loops(rb)
    if lp:
        inl = [a for a in augs if a in lp[0].body]
        ctx.check(len(inl) == 1 and _back_edge_unconditional(lp[0], inl[0]), inl[0] if inl else lp[0], "once per loop iteration, unconditionally (also when data is discarded)",
                  "the position is not advanced on every iteration of the read loop")
    fast = [a for a in augs if not lp or a not in lp[0].body]
    for a in fast:
        rets = [r for r in nodes_of_type(rb, ast.Return) if g.path_exists(g.nodes_of(a), g.nodes_of(r))]
        ctx.ok(a, "fast path advances the position before returning")
    ra = ZF(ctx, "_read_all")
    lpa = _loops(ra)
    augs = [a for a in nodes_of_type(ra, ast.AugAssign) if dotted(a.target) == "self._pos"]
    ok = len(augs) == 1 and unparse(augs[0].value) == "len(self._buffer)" and lpa and _back_edge_unconditional(lpa[0], augs[0])
    ctx.check(bool(ok), augs[0] if augs else ra, "_read_all advances the position by each buffer's length, unconditionally")
    if ok:
        clr = [a for a in lpa[0].body if isinstance(a, ast.Assign) and "self._buffer" in stores_to(a)]
        ctx.check(bool(clr) and lpa[0].body.index(augs[0]) < lpa[0].body.index(clr[0]), augs[0], "before the buffer is emptied")
    w = ZF(ctx, "write")
    augs = [a for a in nodes_of_type(w, ast.AugAssign) if dotted(a.target) == "self._pos"]
    ctx.check(len(augs) == 1 and unparse(augs[0].value) == "len(data)", augs[0] if augs else w, "write advances the position by the uncompressed length")
    ctx.check(any(unparse(r.value) == "len(data)" for r in nodes_of_type(w, ast.Return)), w, "write returns the number of uncompressed bytes")
    t = ZF(ctx, "tell")
    ctx.check(any(dotted(r.value) == "self._pos" for r in nodes_of_type(t, ast.Return)), t, "tell returns the position")
    init = ZF(ctx, "__init__")
    ctx.check(any(is_const(a.value, 0) for a in assigns_to(init, "self._pos")), init, "position starts at 0")
    ctx.check(any(const_value(a.value) == -1 for a in assigns_to(init, "self._size")), init, "size is unknown (-1) until EOF was seen")
    # nobody else touches _pos
    cls = ctx.repo.cls(CP, Z)
    for m in cls.body:
        if isinstance(m, ast.FunctionDef) and m.name not in ("__init__", "_read_block", "_read_all", "write", "_rewind"):
            for n in body_walk(m):
                if isinstance(n, (ast.Assign, ast.AugAssign)) and "self._pos" in stores_to(n):
                    ctx.bad(n, "%s modifies the stream position" % m.name)


def rewind(ctx):
    f = ZF(ctx, "_rewind")
    g = cfg_of(f)
    want = {
        "self._mode": lambda v: dotted(v) == "_MODE_READ",
        "self._pos": lambda v: is_const(v, 0),
        "self._decompressor": lambda v: isinstance(v, ast.Call) and call_name(v) == "zlib.decompressobj" and v.args and dotted(v.args[0]) == "self.wbits",
        "self._buffer": lambda v: const_value(v) == b"",
        "self._buffer_offset": lambda v: is_const(v, 0),
    }
    for attr, pred in want.items():
        st = [a for a in assigns_to(f, attr) if pred(a.value)]
        ctx.check(bool(st) and g.every_path_from([g.entry], g.nodes_of_all(st)), st[0] if st else f, "_rewind re-initialises %s" % attr, "_rewind does not re-initialise %s: reads after a backward seek return wrong bytes" % attr,
                  key=None if st else "%s::%s._rewind::reset of %s" % (CP, Z, attr))
    sk = [c for c in calls_in(f) if call_name(c) == "self._fp.seek"]
    ctx.check(bool(sk) and const_value(sk[0].args[0]) == 0 and (len(sk[0].args) == 1 or const_value(sk[0].args[1]) == 0), sk[0] if sk else f, "_rewind seeks the underlying file to its start",
              "_rewind does not seek the underlying file to 0", key=None if sk else "%s::%s._rewind::fp.seek" % (CP, Z))
    seek_table(ctx)


def seek_table(ctx):
    """seek(offset, whence) decided over a table of concrete cases: the function's own statements are folded (sa/table.py:
    tests, assignments to locals, arguments of the two calls that matter) - whatever the locals are called and however
    the branches are arranged. For each row: absolute target = {0: offset, 1: pos + offset, 2: size + offset};
    target < pos  =>  _rewind() is called and target bytes are skipped;  otherwise no rewind and target - pos bytes are
    skipped; the skipping is _read_block(n, return_data=False); the new position is returned; other whence => ValueError."""
    from ..table import trace, Unknown
    s = ZF(ctx, "seek")
    gs = cfg_of(s)
    params = [a.arg for a in s.args.args]
    ctx.need(len(params) >= 3, "seek(self, offset, whence) signature not recognised")
    off_p, wh_p = params[1], params[2]
    rows = 0
    consts = {}
    for st in ctx.repo.mod(CP).tree.body:
        if isinstance(st, ast.Assign) and len(st.targets) == 1 and isinstance(st.targets[0], ast.Name) and isinstance(st.value, ast.Constant) and isinstance(st.value.value, (int, float)):
            consts[st.targets[0].id] = st.value.value
    for whence_v in (0, 1, 2, 3):
        for pos, size, off in ((40, 90, 5), (40, 90, 70), (0, 10, 0), (40, 90, -15), (20000, 50000, 15000), (20000, 50000, 19999)):
            env = dict(consts)
            env.update({wh_p: whence_v, off_p: off, "self._pos": pos, "self._size": size, "self._mode": "_MODE_READ", "io.SEEK_SET": 0, "io.SEEK_CUR": 1, "io.SEEK_END": 2,
                   "SEEK_SET": 0, "SEEK_CUR": 1, "SEEK_END": 2})
            try:
                kind, val, visited, calls = trace(gs, env, call_args=("self._rewind", "self._read_block", "self._read_all"))
            except Unknown as e:
                raise Undecidable("seek: not understood under whence=%s (%s)" % (whence_v, e))
            rows += 1
            if whence_v == 3:
                ok = kind == "raise" and isinstance(val, ast.Raise) and call_name(val.exc) == "ValueError"
                if not ok:
                    ctx.bad(s, "an invalid whence (%s) does not raise ValueError" % whence_v, key="%s::%s.seek::invalid whence" % (CP, Z))
                    return
                continue
            target = {0: off, 1: pos + off, 2: size + off}[whence_v]
            if target < 0:
                continue    # negative absolute targets: behaviour of the plain stream is an error / clamp; not decided here
            rew = [c for c in calls if c[0] == "self._rewind"]
            rb = [c for c in calls if c[0] == "self._read_block"]
            want_rewind = target < pos
            want_skip = target if want_rewind else target - pos
            what = "whence=%d offset=%d at position %d (size %d): target %d" % (whence_v, off, pos, size, target)
            if bool(rew) != want_rewind:
                ctx.bad(rew[0][2] if rew else s, "%s - seek %s" % (what, "does not rewind although the target is before the current position (the decompressor only moves forward)" if want_rewind
                                                                 else "rewinds although the target is not before the current position"), key="%s::%s.seek::rewind iff target < position" % (CP, Z))
                return
            if len(rb) != 1 or not rb[0][1] or rb[0][1][0] is Unknown or rb[0][1][0] != want_skip:
                ctx.bad(rb[0][2] if rb else s, "%s - seek skips %s bytes, expected %d" % (what, (rb[0][1][0] if rb and rb[0][1] and rb[0][1][0] is not Unknown else "an unknown number of") if rb else "no", want_skip),
                        key="%s::%s.seek::distance skipped" % (CP, Z))
                return
            c = rb[0][2]
            if not is_const(kwarg(c, "return_data", 1), False):
                ctx.bad(c, "the skipped bytes are not discarded (return_data is not False)")
                return
            if rew and not gs.path_exists(gs.nodes_of(rew[0][2]), gs.nodes_of(c)):
                ctx.bad(c, "%s - the skipping read does not follow the rewind" % what)
                return
            if kind != "return":
                ctx.bad(s, "%s - seek does not return" % what)
                return
    ctx.ok(s, "seek: target per whence, rewind iff target < position, distance skipped by a discarding read - %d rows of the case table" % rows)
    ctx.check(any(dotted(r.value) == "self._pos" for r in nodes_of_type(s, ast.Return)), s, "seek returns the new position")
    # whence 2 with an unknown size: the size is found by reading to the end before it is used
    try:
        kind, val, visited, calls = trace(gs, {wh_p: 2, off_p: -5, "self._pos": 40, "self._size": -1, "self._mode": "_MODE_READ", "io.SEEK_END": 2, "SEEK_END": 2},
                                          call_args=("self._read_all", "self._read_block", "self._rewind"))
    except Unknown:
        kind, calls = None, []
    ra = [c for c in calls if c[0] == "self._read_all"]
    ctx.check(bool(ra) and is_const(kwarg(ra[0][2], "return_data", 0), False) and (not [c for c in calls if c[0] == "self._read_block"] or
              gs.path_exists(gs.nodes_of(ra[0][2]), gs.nodes_of([c for c in calls if c[0] == "self._read_block"][0][2]))),
              ra[0][2] if ra else s, "whence 2 with an unknown size reads to the end (discarding) before the size is used", "whence 2 does not determine the size first")


def whence(ctx):
    # (decided by the case table of seek_table: kept as a clause name for the evidence and the seeds' records)
    seek_table(ctx)


def _mode_test_value(t, mode):
    """truth of a test on self._mode under self._mode == <mode constant>; None if the test is about something else"""
    if isinstance(t, ast.UnaryOp) and isinstance(t.op, ast.Not):
        v = _mode_test_value(t.operand, mode)
        return None if v is None else (not v)
    if isinstance(t, ast.Compare) and len(t.ops) == 1 and dotted(t.left) == "self._mode":
        op, r = t.ops[0], t.comparators[0]
        if isinstance(op, (ast.Eq, ast.NotEq)) and isinstance(r, ast.Name):
            return (r.id == mode) == isinstance(op, ast.Eq)
        if isinstance(op, (ast.In, ast.NotIn)) and isinstance(r, (ast.Tuple, ast.List, ast.Set)) and all(isinstance(e, ast.Name) for e in r.elts):
            return (mode in [e.id for e in r.elts]) == isinstance(op, ast.In)
    return None


def flush(ctx):
    w = ZF(ctx, "write")
    g = cfg_of(w)
    comp = [a for a in nodes_of_type(w, ast.Assign) if isinstance(a.value, ast.Call) and call_name(a.value) == "self._compressor.compress"]
    wr = [c for c in calls_in(w) if call_name(c) == "self._fp.write"]
    ok = bool(comp) and bool(wr) and dotted(wr[0].args[0]) == comp[0].targets[0].id and dotted(comp[0].value.args[0]) == "data"
    ctx.check(ok, wr[0] if wr else w, "write forwards compress(data) to the underlying file", "write does not forward the compressed data")
    c = ZF(ctx, "close")
    gc_ = cfg_of(c)
    fl = [x for x in calls_in(c) if call_name(x) == "self._fp.write" and x.args and isinstance(x.args[0], ast.Call) and call_name(x.args[0]) == "self._compressor.flush"]
    if not fl:
        ctx.bad(c, "close() does not write compressor.flush(): the end of the compressed stream is lost", key="%s::%s.close::flush" % (CP, Z))
        return
    cl = [x for x in calls_in(c) if call_name(x) == "self._fp.close"]
    forget = [a for a in assigns_to(c, "self._fp") if is_const(a.value, None)]
    for x in fl:
        conds = gc_.conditions_at(gc_.nodes_of(x))
        ctx.check(any(unparse(t) == "self._mode == _MODE_WRITE" and pol for (_, t, pol) in conds), x, "in write mode close() writes the compressor's final block")
        extra = [(unparse(t), pol) for (_, t, pol) in conds if "self._mode" not in unparse(t)]
        ctx.check(not extra, x, "on no other condition than the mode (an empty payload still gets a complete, decodable stream)",
                  "the final flush is additionally conditioned on %s: some streams are left without their end marker" % extra)
        ctx.check(all(gc_.path_exists(gc_.nodes_of(x), gc_.nodes_of(y)) and not gc_.path_exists(gc_.nodes_of(y), gc_.nodes_of(x)) for y in cl + forget), x, "before the underlying file is closed / forgotten",
                  "the final block is written after the underlying file was closed")
    fc_ = [a for a in assigns_to(c, "self._compressor") if is_const(a.value, None)]
    ctx.check(all(not gc_.path_exists(gc_.nodes_of(a), gc_.nodes_of_all(fl)) for a in fc_), fc_[0] if fc_ else c, "the compressor is forgotten only after its final block was obtained",
              "the compressor is dropped before flush() is called on it")
    for x in fl:
        # the final block is written exactly in write mode: evaluate every mode test guarding it
        for (i_, t_, pol) in gc_.conditions_at(gc_.nodes_of(x)):
            v = _mode_test_value(t_, "_MODE_WRITE")
            if v is not None:
                ctx.check(v == pol, x, "guard `%s` is %s in write mode" % (unparse(t_), pol), "the final flush sits on the %s branch of `%s`, which write mode never takes: no stream is ever terminated" % (pol, unparse(t_)))
    tr = [t for t in nodes_of_type(c, ast.Try) if t.finalbody]
    md = [a for t in tr for s in t.finalbody for a in walk_local(s) if isinstance(a, ast.Assign) and "self._mode" in stores_to(a) and dotted(a.value) == "_MODE_CLOSED"]
    ctx.check(bool(md), md[0] if md else c, "the mode becomes CLOSED in a finally block")
    first = [n for n in nodes_of_type(c, ast.If) if unparse(n.test) == "self._mode == _MODE_CLOSED" and isinstance(n.body[-1], ast.Return)]
    ctx.check(bool(first), first[0] if first else c, "closing twice is a no-op")


def ownership(ctx):
    """Who may close the underlying file: close() closes self._fp exactly when __init__ opened it by name; a file
    object / in-memory buffer handed in by the caller (dump(obj, buf), load(buf)) stays open and readable."""
    init = ZF(ctx, "__init__")
    g = cfg_of(init)
    opens = [a for a in assigns_to(init, "self._fp") if isinstance(a.value, ast.Call) and call_name(a.value) in ("io.open", "open")]
    borrows = [a for a in assigns_to(init, "self._fp") if dotted(a.value) == "filename"]
    owns = [a for a in assigns_to(init, "self._closefp") if is_const(a.value, True)]
    ctx.check(len(opens) == 1 and len(borrows) == 1, opens[0] if opens else init, "__init__ either opens the named file or borrows the caller's file object",
              "__init__ no longer has one opening and one borrowing assignment of self._fp")
    if opens:
        ctx.check(bool(owns) and all(g.every_path_to(g.nodes_of(o), g.nodes_of_all(opens)) for o in owns) and g.every_path_from(g.nodes_of(opens[0]), g.nodes_of_all(owns), None, skip_exc=True),
                  owns[0] if owns else opens[0], "ownership (_closefp = True) is recorded exactly on the path that opened the file",
                  "ownership of the underlying file is not recorded exactly where it is opened (a borrowed file would be closed, or an opened one leaked)")
    if borrows and owns:
        ctx.check(not any(g.path_exists(g.nodes_of(b), g.nodes_of(o)) or g.path_exists(g.nodes_of(o), g.nodes_of(b)) for b in borrows for o in owns), borrows[0],
                  "a borrowed file object is never marked as owned")
    dflt = [a for a in assigns_to(init, "self._closefp") if is_const(a.value, False)]
    ctx.check(bool(dflt) and all(g.every_path_to(g.nodes_of_all(opens + borrows), g.nodes_of(d)) for d in dflt[:1]), dflt[0] if dflt else init, "the default is 'not owned'",
              "self._closefp has no 'not owned' default before the file is attached")
    c = ZF(ctx, "close")
    gc_ = cfg_of(c)
    cl = [x for x in calls_in(c) if call_name(x) == "self._fp.close"]
    if not cl:
        ctx.bad(c, "close() never closes the underlying file it opened", key="%s::%s.close::closes owned file" % (CP, Z))
    for x in cl:
        raw = gc_.conditions_at(gc_.nodes_of(x))
        conds = [(unparse(t), pol) for (_, t, pol) in raw]
        ctx.check(cond_holds(raw, "self._closefp", True), x, "close() closes the underlying file only when it owns it",
                  "close() closes the underlying file under %s, not under `self._closefp`: a caller's buffer is closed by dump()/load()" % ([c_ for c_ in conds if "_mode" not in c_[0]] or "no ownership test"))
    n = 0
    for q, fn in ctx.repo.mod(CP).funcs.items():
        if q.startswith(Z + ".") and fn.name != "close":
            for x in calls_in(fn):
                if call_name(x) == "self._fp.close":
                    n += 1
                    ctx.bad(x, "%s closes the underlying file outside close()" % q)
    ctx.ok(c, "no other BinaryZlibFile method closes the underlying file", key="%s::%s::only close() closes _fp" % (CP, Z))


def guards(ctx):
    from ..core import mentions
    want = {"read": "_check_can_read", "write": "_check_can_write", "seek": "_check_can_seek", "tell": "_check_not_closed", "readinto": None, "close": None}
    for name, chk in want.items():
        f = ZF(ctx, name)
        g = cfg_of(f)
        ws = [w for w in f.body if isinstance(w, ast.With) and any(dotted(i.context_expr) == "self._lock" for i in w.items)]
        outside = [s_ for s_ in f.body if s_ not in ws and any(isinstance(n, ast.Attribute) and isinstance(n.value, ast.Name) and n.value.id == "self" for n in ast.walk(s_))]
        ok = len(ws) == 1 and not outside
        ctx.check(ok, ws[0] if ws else f, "%s: every statement touching the object's state runs under self._lock" % name,
                  "%s touches the object's state outside `with self._lock` (%s)" % (name, [unparse(x, 40) for x in outside] or "no locked block"))
        if ok and chk:
            cc = [c for c in calls_in(ws[0]) if call_name(c) == "self." + chk]
            others = [c for c in calls_in(ws[0]) if c not in cc and (call_name(c) or "").startswith("self.")]
            ctx.check(bool(cc) and g.every_path_to(g.nodes_of_all(others), g.nodes_of_all(cc)), cc[0] if cc else ws[0], "%s: %s() precedes every other operation on the object" % (name, chk),
                      "%s does not call %s() before operating on the object" % (name, chk))
    r = ZF(ctx, "read")
    g = cfg_of(r)
    for c in calls_in(r):
        if call_name(c) == "self._read_all":
            ctx.check(any(unparse(t) == "size < 0" and pol for (_, t, pol) in g.conditions_at(g.nodes_of(c))), c, "read(<0) reads everything")
        if call_name(c) == "self._read_block":
            ctx.check(dotted(c.args[0]) == "size", c, "read(n) reads a block of n")
    z = [n for n in nodes_of_type(r, ast.If) if unparse(n.test) == "size == 0"]
    ctx.check(bool(z) and isinstance(z[0].body[-1], ast.Return) and const_value(z[0].body[-1].value) == b"", z[0] if z else r, "read(0) returns b''", "read(0) does not return b''")
    def default_of(fn, name):
        a = fn.args
        pos = a.posonlyargs + a.args
        for p_, d_ in zip(pos[len(pos) - len(a.defaults):], a.defaults):
            if p_.arg == name:
                return d_
        return None
    dsz = default_of(r, r.args.args[1].arg) if len(r.args.args) > 1 else None
    ctx.check(dsz is not None and isinstance(const_value(dsz), int) and const_value(dsz) < 0, r, "read() without a size reads everything (default size is negative)", "read()'s default size is %s" % (unparse(dsz) if dsz is not None else "missing"))
    for q_ in ("_read_all", "_read_block"):
        fn_ = ZF(ctx, q_)
        d_ = default_of(fn_, "return_data")
        ctx.check(d_ is not None and is_const(d_, True), fn_, "%s returns the data unless told otherwise (read() relies on the default)" % q_, "%s(return_data=%s): read() gets None" % (q_, unparse(d_) if d_ is not None else "?"))
    sk_ = ZF(ctx, "seek")
    dw = default_of(sk_, "whence")
    ctx.check(dw is not None and const_value(dw) == 0, sk_, "seek() is absolute by default (whence=0)", "seek()'s default whence is %s" % (unparse(dw) if dw is not None else "missing"))
    init_ = ZF(ctx, "__init__")
    for nm_ in ("__init__", "_rewind"):
        fn_ = ZF(ctx, nm_)
        z0 = [a_ for a_ in assigns_to(fn_, "self._buffer_offset")]
        ctx.check(bool(z0) and all(is_const(a_.value, 0) for a_ in z0), z0[0] if z0 else fn_, "%s starts reading at offset 0 of an empty buffer" % nm_, "%s sets the buffer offset to %s" % (nm_, [unparse(a_.value) for a_ in z0]))
    disp = [c for c in calls_in(r) if call_name(c) in ("self._read_all", "self._read_block")]
    ctx.check(len(disp) == 2 and all(isinstance(parent(c), ast.Return) for c in disp), disp[0] if disp else r, "read returns what _read_all/_read_block produced", "read drops the bytes produced by _read_all/_read_block")
    cc = ctx.repo.func(CP, Z + "._check_can_read")
    ctx.check("_MODE_READ_EOF" in ast.unparse(cc) and any(isinstance(n, ast.Raise) for n in body_walk(cc)), cc, "reading is refused unless the mode is READ or READ_EOF")


# ---------------------------------------------------------------------------
# C03
# ---------------------------------------------------------------------------

def _module_bytes(mod):
    out = {}
    for a in mod.tree.body:
        if isinstance(a, ast.Assign) and isinstance(a.value, ast.Constant) and isinstance(a.value.value, (bytes, str, int)):
            for t in stores_to(a):
                out[t] = a.value.value
    return out


def registry_table(ctx):
    """[(name, wrapper ClassDef, prefix bytes, extension str, call node)]"""
    npm = ctx.repo.mod(NP)
    cpm = ctx.repo.mod(CP)
    consts = _module_bytes(cpm)
    out = []
    for node in npm.tree.body:
        if isinstance(node, ast.Expr) and isinstance(node.value, ast.Call) and call_name(node.value) == "register_compressor":
            c = node.value
            name = const_value(c.args[0])
            w = c.args[1]
            ctx.need(isinstance(w, ast.Call) and dotted(w.func) in cpm.classes, "registered object %s is not an instance of a compressor.py class" % unparse(w))
            cls = cpm.classes[dotted(w.func)]
            prefix = ext = None
            for attr in ("prefix", "extension"):
                v = ctx.res.class_attr(CP, cls, attr)
                # CompressorWrapper itself defines none at class level; look in __init__ call
                val = None
                if v is not None and not (isinstance(v, ast.Constant) and v.value in (b"", "")):
                    val = consts.get(dotted(v)) if dotted(v) else const_value(v)
                if val is None:
                    init = ctx.res.method(CP, cls, "__init__")
                    for ic in calls_in(init) if init is not None else []:
                        if call_name(ic) == "CompressorWrapper.__init__":
                            kv = kwarg(ic, attr)
                            if kv is not None:
                                val = consts.get(dotted(kv)) if dotted(kv) else const_value(kv)
                if attr == "prefix":
                    prefix = val
                else:
                    ext = val
            out.append((name, cls, prefix, ext, c))
    return out


def registry(ctx):
    tab = registry_table(ctx)
    ctx.floor(len(tab), 6, "registered compressors")
    for name, cls, prefix, ext, c in tab:
        ctx.check(isinstance(prefix, bytes) and len(prefix) > 0, c, "%s: non-empty bytes prefix %r" % (name, prefix), "%s: prefix %r is not a non-empty bytes constant" % (name, prefix))
        ctx.check(isinstance(ext, str) and ext.startswith(".") and len(ext) > 1, c, "%s: extension %r" % (name, ext), "%s: extension %r is not a non-empty .ext string" % (name, ext))
        ctx.check(not (isinstance(prefix, bytes) and prefix[:1] == b"\x80"), c, "%s: prefix does not start with the PROTO opcode 0x80 of uncompressed pickles" % name,
                  "%s: prefix starts with 0x80: every uncompressed pickle of protocol >= 2 would be mis-detected as compressed" % name)
    for i, a in enumerate(tab):
        for b in tab[i + 1:]:
            pa, pb = a[2], b[2]
            if isinstance(pa, bytes) and isinstance(pb, bytes):
                ctx.check(not pa.startswith(pb) and not pb.startswith(pa), b[4], "prefixes of %s and %s cannot be confused (neither starts with the other)" % (a[0], b[0]),
                          "prefix of %s (%r) and of %s (%r) overlap: detection takes whichever is registered first" % (a[0], pa, b[0], pb))
            ea, eb = a[3], b[3]
            if isinstance(ea, str) and isinstance(eb, str):
                ctx.check(not ea.endswith(eb) and not eb.endswith(ea), b[4], "extensions of %s and %s cannot be confused" % (a[0], b[0]), "extensions %r and %r overlap" % (ea, eb))
    zp = _module_bytes(ctx.repo.mod(CP)).get("_ZFILE_PREFIX")
    for name, cls, prefix, ext, c in tab:
        if isinstance(prefix, bytes) and isinstance(zp, bytes):
            ctx.check(not prefix.startswith(zp) and not zp.startswith(prefix), c, "%s: prefix differs from the legacy ZF prefix" % name)
    dc = ctx.repo.func(NPU, "_detect_compressor")
    sw = [c for c in calls_in(dc) if call_attr(c) == "startswith"]
    ctx.check(len(sw) == 2 and any(unparse(c.args[0]) == "compressor.prefix" for c in sw), sw[0] if sw else dc, "detection compares the first bytes of the content with each registered prefix")
    rets = [r for r in nodes_of_type(dc, ast.Return)]
    ctx.check(any(const_value(r.value) == "not-compressed" for r in rets) and any(dotted(r.value) == "name" for r in rets), dc, "detection answers the matching compressor's name, else 'not-compressed'")
    mp_ = [a for a in nodes_of_type(dc, ast.Assign) if isinstance(a.value, ast.Call) and call_name(a.value) == "_get_prefixes_max_len"]
    pk = [c for c in calls_in(dc) if call_attr(c) in ("peek", "read") and c.args]
    ctx.check(bool(mp_) and pk and all(dotted(c.args[0]) == mp_[0].targets[0].id for c in pk), mp_[0] if mp_ else dc,
              "the number of leading bytes examined is computed from the registry at call time (compressors register after import)",
              "the number of leading bytes examined is not computed from the registry at call time: longer magic numbers registered later are cut off")
    ml = ctx.repo.func(NPU, "_get_prefixes_max_len")
    ctx.check(any(isinstance(r.value, ast.Call) and call_name(r.value) == "max" for r in nodes_of_type(ml, ast.Return)), ml, "enough leading bytes are looked at for the longest prefix")
    # sniffing leaves the stream where it was: peek() does not move it, read() is undone by seek(0) on every path
    gd = cfg_of(dc)
    arg = dc.args.args[0].arg
    for c in pk:
        facts = cond_facts(gd.conditions_at(gd.nodes_of(c)))
        if call_attr(c) == "peek":
            ctx.check(("hasattr(%s, 'peek')" % arg, True) in facts, c, "peek() is used only on objects that have it", "peek() is called under %s" % facts)
        else:
            sk = [x for x in calls_in(dc) if call_name(x) == arg + ".seek" and x.args and const_value(x.args[0]) == 0]
            ctx.check(bool(sk) and gd.every_path_from(gd.nodes_of(c), gd.nodes_of_all(sk), None, skip_exc=True), c, "a consuming read() of the magic number is undone by seek(0) before the content is handed to the reader",
                      "the magic number is read() but the stream is not rewound on every path: the reader selected afterwards starts %s bytes into the content" % "max_prefix_len")
            ctx.check(("hasattr(%s, 'peek')" % arg, False) in facts, c, "read()+seek(0) is the fallback for objects without peek()")
    fb = [a for a in nodes_of_type(dc, ast.Assign) if isinstance(a.value, ast.Call) and a.value in pk]
    ctx.check(len(fb) == len(pk) == 2 and len({a.targets[0].id for a in fb if isinstance(a.targets[0], ast.Name)}) == 1 and all(isinstance(x.func.value, ast.Name) and x.func.value.id == fb[0].targets[0].id for x in sw), fb[0] if fb else dc,
              "both ways of sniffing feed the same comparison", "the bytes compared with the prefixes are not the sniffed ones on every path")


MAGIC = {
    ("BinaryZlibFile", None): b"\x78",
    ("BinaryGzipFile", None): b"\x1f\x8b",
    ("bz2.BZ2File", None): b"BZ",
    ("lzma.LZMAFile", "FORMAT_ALONE"): b"\x5d\x00",
    ("lzma.LZMAFile", "FORMAT_XZ"): b"\xfd\x37\x7a\x58\x5a",
    ("LZ4FrameFile", None): b"\x04\x22\x4d\x18",
}


def magic(ctx):
    tab = registry_table(ctx)
    cpm = ctx.repo.mod(CP)
    for name, cls, prefix, ext, c in tab:
        init = ctx.res.method(CP, cls, "__init__")
        factory = None
        for a in nodes_of_type(init, ast.Assign):
            if "self.fileobj_factory" in stores_to(a) and not is_const(a.value, None):
                factory = dotted(a.value)
        for ic in calls_in(init):
            if call_name(ic) == "CompressorWrapper.__init__" and kwarg(ic, "obj") is not None:
                factory = dotted(kwarg(ic, "obj"))
        fmt = ctx.res.class_attr(CP, cls, "_lzma_format_name")
        fmt = const_value(fmt) if fmt is not None else None
        want = MAGIC.get((factory, fmt))
        ctx.check(want is not None and want == prefix, c, "%s: factory %s%s produces streams starting with %r = its prefix" % (name, factory, " (%s)" % fmt if fmt else "", want),
                  "%s: factory %s%s produces streams starting with %r but the registered prefix is %r: its own files are not recognised on load" % (name, factory, " (%s)" % fmt if fmt else "", want, prefix))
    z = cpm.classes[Z]
    wb = ctx.res.class_attr(CP, z, "wbits")
    ctx.check(wb is not None and unparse(wb) == "zlib.MAX_WBITS", z, "BinaryZlibFile.wbits = zlib.MAX_WBITS (zlib header 0x78)", "BinaryZlibFile.wbits = %s" % (unparse(wb) if wb is not None else None))
    gz = cpm.classes["BinaryGzipFile"]
    wb = ctx.res.class_attr(CP, gz, "wbits")
    own = any(isinstance(s, ast.Assign) and "wbits" in stores_to(s) for s in gz.body)
    ctx.check(own and const_value(wb) == 31, gz, "BinaryGzipFile.wbits = 31 (gzip header 1f 8b)", "BinaryGzipFile.wbits = %s" % (unparse(wb) if wb is not None else None))
    init = ZF(ctx, "__init__")
    co = [c for c in calls_in(init) if call_name(c) == "zlib.compressobj"]
    de = [c for c in calls_in(init) if call_name(c) == "zlib.decompressobj"]
    ctx.check(bool(co) and len(co[0].args) >= 3 and dotted(co[0].args[2]) == "self.wbits" and dotted(co[0].args[0]) == "self.compresslevel", co[0] if co else init, "the compressor uses the class's wbits and the requested level")
    ctx.check(bool(de) and dotted(de[0].args[0]) == "self.wbits", de[0] if de else init, "the decompressor uses the class's wbits")
    # every (de)compressor the class ever builds - the rewind of the emulated seek included - speaks the class's format
    for q_, fn_ in ctx.repo.mod(CP).funcs.items():
        if not q_.startswith(Z + "."):
            continue
        for c_ in calls_in(fn_):
            if call_name(c_) == "zlib.decompressobj":
                ctx.check(bool(c_.args) and dotted(c_.args[0]) == "self.wbits", c_, "%s builds its decompressor with self.wbits" % q_,
                          "%s builds a decompressor with %s: in the gzip subclass the stream is no longer readable after this point (e.g. after seek(0) of the magic-number sniff)" % (q_, unparse(c_.args[0]) if c_.args else "the default window"))
            if call_name(c_) == "zlib.compressobj":
                ctx.check(len(c_.args) >= 3 and dotted(c_.args[2]) == "self.wbits", c_, "%s builds its compressor with self.wbits" % q_, "%s builds a compressor with another window/format than self.wbits" % q_)


LEVEL_KW = {"BinaryZlibFile": "compresslevel", "BinaryGzipFile": "compresslevel", "bz2.BZ2File": "compresslevel", "lzma.LZMAFile": "preset", "LZ4FrameFile": "compression_level"}


def siblings(ctx):
    cpm = ctx.repo.mod(CP)
    n = 0
    for cname, cls in cpm.classes.items():
        if not any(cc.name == "CompressorWrapper" for _, cc in ctx.res.mro(CP, cls)):
            continue
        for m in cls.body:
            if not isinstance(m, ast.FunctionDef):
                continue
            if m.name == "compressor_file":
                n += 1
                g = cfg_of(m)
                rets = [r for r in nodes_of_type(m, ast.Return) if isinstance(r.value, ast.Call)]
                ctx.check(len(rets) == 2, m, "%s.compressor_file has a default-level and an explicit-level branch" % cname)
                for r in rets:
                    c = r.value
                    mode = c.args[1] if len(c.args) > 1 else kwarg(c, "mode")
                    ctx.check(dotted(c.args[0]) == "fileobj" and const_value(mode) == "wb", r, "%s opens the target in 'wb'" % cname, "%s.compressor_file opens with mode %s" % (cname, unparse(mode) if mode is not None else None))
                    conds = g.conditions_at(g.nodes_of(r))
                    none_branch = any(unparse(t) == "compresslevel is None" and pol for (_, t, pol) in conds)
                    lv = [k for k in c.keywords if dotted(k.value) == "compresslevel"]
                    if none_branch:
                        ctx.check(not lv, r, "%s: no level is forwarded when none was given" % cname)
                    else:
                        okk = len(lv) == 1 and lv[0].arg in ("compresslevel", "preset", "compression_level")
                        if cname.startswith("LZMA") or cname.startswith("XZ"):
                            okk = okk and lv[0].arg == "preset"
                        if cname.startswith("LZ4"):
                            okk = okk and lv[0].arg == "compression_level"
                        if cname in ("CompressorWrapper", "BZ2CompressorWrapper"):
                            okk = okk and lv[0].arg == "compresslevel"
                        ctx.check(okk, r, "%s forwards the level under the factory's own keyword (%s)" % (cname, lv[0].arg if lv else None),
                                  "%s does not forward the compression level under the right keyword" % cname)
                    if cname.startswith(("LZMA", "XZ")):
                        ctx.check(dotted(kwarg(c, "format")) == "self._lzma_format", r, "%s passes its container format" % cname)
            if m.name == "decompressor_file":
                n += 1
                cs = [c for c in calls_in(m) if len(c.args) >= 2 and dotted(c.args[0]) == "fileobj"]
                ctx.check(bool(cs) and all(const_value(c.args[1]) == "rb" for c in cs), m, "%s.decompressor_file opens the source in 'rb'" % cname, "%s.decompressor_file does not open in 'rb'" % cname)
    ctx.floor(n, 8, "compressor_file / decompressor_file implementations")
    wf = ctx.repo.func(NPU, "_write_fileobject")
    cs = [c for c in calls_in(wf) if call_attr(c) == "compressor_file"]
    gwf = cfg_of(wf)
    ctx.check(len(cs) >= 1 and all(c.args and dotted(c.args[0]) == "filename" and dotted(kwarg(c, "compresslevel")) == "compresslevel" for c in cs)
              and gwf.every_path_from([gwf.entry], gwf.nodes_of_all(cs), None, skip_exc=True), cs[0] if cs else wf, "_write_fileobject forwards target and level to the wrapper, on every path")
    sel = [c for c in cs if isinstance(c.func.value, ast.Subscript) and dotted(c.func.value.slice) == "compressmethod"]
    ctx.check(len(sel) == 1, sel[0] if sel else wf, "the wrapper is chosen by the requested method")
    cm = [a for a in nodes_of_type(wf, ast.Assign) if "compressmethod" in stores_to(a)]
    cl = [a for a in nodes_of_type(wf, ast.Assign) if "compresslevel" in stores_to(a)]
    ctx.check(bool(cm) and unparse(cm[0].value) == "compress[0]" and bool(cl) and unparse(cl[0].value) == "compress[1]", cm[0] if cm else wf, "compress = (method, level)")
    vf = ctx.repo.func(NPU, "_validate_fileobject_and_memmap")
    dc = [c for c in calls_in(vf) if call_attr(c) == "decompressor_file"]
    ctx.check(len(dc) == 1 and isinstance(dc[0].func.value, ast.Name) and dotted(dc[0].args[0]) == "fileobj", dc[0] if dc else vf, "load opens the detected compressor's reader on the file object")
    d = [a for a in nodes_of_type(vf, ast.Assign) if "compressor_wrapper" in stores_to(a)]
    ctx.check(bool(d) and unparse(d[0].value) == "_COMPRESSORS[compressor]", d[0] if d else vf, "reader = wrapper registered under the detected name")
    det = [a for a in nodes_of_type(vf, ast.Assign) if "compressor" in stores_to(a)]
    ctx.check(bool(det) and unparse(det[0].value) == "_detect_compressor(fileobj)", det[0] if det else vf, "the name comes from content detection")


def dump_flow(ctx):
    f = ctx.repo.func(NP, "dump")
    g = cfg_of(f)
    ps = [c for c in calls_in(f) if call_name(c) == "NumpyPickler"]
    dumps = [c for c in ps if isinstance(parent(c), ast.Attribute) and parent(c).attr == "dump" and isinstance(parent(parent(c)), ast.Call)]
    ctx.check(bool(dumps) and g.every_path_from([g.entry], g.nodes_of_all(dumps), None, skip_exc=True), dumps[0] if dumps else f, "every normal path of dump() pickles the value (compressed writer, plain file, or file object)",
              "dump() has a normal path that writes nothing for some kind of target")
    for c in ps:
        ctx.check(dotted(kwarg(c, "protocol", 1)) == "protocol", c, "the requested pickle protocol reaches this pickler", "protocol is not forwarded to this pickler")
        st = enclosing_stmt(c)
        ctx.check(isinstance(st, ast.Expr) and isinstance(st.value, ast.Call) and call_attr(st.value) == "dump" and dotted(st.value.args[0]) == f.args.args[0].arg, c, "and the value itself is dumped")
    wf = [c for c in calls_in(f) if call_name(c) == "_write_fileobject"]
    ctx.check(len(wf) == 1 and dotted(wf[0].args[0]) == "filename" and unparse(kwarg(wf[0], "compress", 1)) == "(compress_method, compress_level)", wf[0] if wf else f,
              "the resolved (method, level) reaches the compressed writer")
    for c in wf:
        conds = g.conditions_at(g.nodes_of(c))
        branch = [(unparse(t), pol) for (i_, t, pol) in conds if not any(isinstance(s_, ast.Raise) for s_ in i_.body)]
        ctx.check(branch == [("compress_level != 0", True)], c, "compressed iff compress_level != 0", "the compressed branch is taken under %s" % branch)
        ctx.check(isinstance(parent(c), ast.withitem), c, "the compressed writer is used as a context manager (closed, hence flushed, on every path)", "the compressed writer is not closed by a with-statement")
    op = [c for c in calls_in(f) if call_name(c) == "open"]
    for c in op:
        ctx.check(const_value(c.args[1]) == "wb" and isinstance(parent(c), ast.withitem) and dotted(c.args[0]) == "filename", c, "uncompressed path target is opened 'wb' in a with-statement")
    ni = ctx.repo.func(NP, "NumpyPickler.__init__")
    pc = [c for c in calls_in(ni) if call_name(c) == "Pickler.__init__"]
    ctx.check(bool(pc) and dotted(kwarg(pc[0], "protocol", 2)) == "protocol" and dotted(pc[0].args[1]) == "self.file_handle", pc[0] if pc else ni, "NumpyPickler forwards protocol and file handle to pickle._Pickler")
    ui = ctx.repo.func(NP, "NumpyUnpickler.__init__")
    uc = [c for c in calls_in(ui) if call_name(c) == "Unpickler.__init__"]
    if not (pc and uc):
        ctx.bad(ui if not uc else ni, "the pickle base class is no longer initialised with the file handle (%s)" % ("Unpickler.__init__" if not uc else "Pickler.__init__"), key=NP + "::base constructors")
        return
    opts_w = {k.arg: unparse(k.value) for k in pc[0].keywords if k.arg in ("fix_imports", "buffer_callback")}
    opts_r = {k.arg: unparse(k.value) for k in uc[0].keywords if k.arg in ("fix_imports", "encoding", "errors", "buffers")}
    ctx.check(opts_w.get("fix_imports") == opts_r.get("fix_imports") and "encoding" not in opts_r and "errors" not in opts_r, uc[0],
              "writer and reader use the same pickle compatibility options (fix_imports, encoding: defaults on both sides)",
              "pickler options %s vs unpickler options %s: what one side writes under protocols 0-2 the other cannot resolve" % (opts_w, opts_r))
    ctx.check(dotted(uc[0].args[1]) == "self.file_handle", uc[0], "the unpickler reads the validated file handle")
    t = [n for n in nodes_of_type(ni, ast.If) if unparse(n.test) == "protocol is None"]
    from ..core import has_stmt
    ctx.check(bool(t) and has_stmt(t[0].body, "protocol = pickle.DEFAULT_PROTOCOL"), t[0] if t else ni, "protocol defaults to pickle.DEFAULT_PROTOCOL")
    # compress argument resolution
    tt = [n for n in nodes_of_type(f, ast.If) if unparse(n.test) == "compress is True"]
    ctx.check(bool(tt), tt[0] if tt else f, "compress=True selects the default method/level")
    lv = [n for n in nodes_of_type(f, ast.If) if "compress_level not in range(10)" in unparse(n.test)]
    ctx.check(bool(lv) and any(isinstance(s, ast.Raise) for s in lv[0].body), lv[0] if lv else f, "levels outside 0..9 are rejected")
    mt = [n for n in nodes_of_type(f, ast.If) if unparse(n.test) == "compress_method not in _COMPRESSORS"]
    ctx.check(bool(mt) and any(isinstance(s, ast.Raise) for s in mt[0].body), mt[0] if mt else f, "unknown methods are rejected")
    # load path never looks at the name
    n_calls = 0
    for rel, q in ((NP, "load"), (NP, "_unpickle"), (NPU, "_validate_fileobject_and_memmap"), (NPU, "_detect_compressor"), (NP, "load_temporary_memmap")):
        fn = ctx.repo.func(rel, q)
        for c in calls_in(fn):
            n_calls += 1
            if call_attr(c) in ("endswith", "splitext", "suffix") or (call_name(c) or "").endswith("path.splitext"):
                ctx.bad(c, "%s looks at the file name (%s): the format must be recognised from the content" % (q, unparse(c)))
    ctl = ast.parse("x = filename.endswith('.gz')")
    ctx.check(any(isinstance(nd, ast.Call) and call_attr(nd) == "endswith" for nd in ast.walk(ctl)), f, "positive control matched; %d calls on the load path scanned, none inspects the file name" % n_calls, key=NP + "::load path::content sniffing only")
    ld = ctx.repo.func(NP, "load")
    vs = [c for c in calls_in(ld) if call_name(c) == "_validate_fileobject_and_memmap"]
    us = [c for c in calls_in(ld) if call_name(c) == "_unpickle"]
    ctx.check(len(vs) == 2 and len(us) == 2 and all(any(isinstance(w, ast.With) and any(i.context_expr is v for i in w.items) for w in ancestors(u)) for u in us for v in vs[:0] or [None]) is not None, vs[0] if vs else ld,
              "both target kinds (file object, path) go through content validation before unpickling")
    for u in us:
        ctx.check(dotted(u.args[0]) == "fobj", u, "the validated (possibly decompressing) file object is unpickled")


def close_clause(ctx):
    wf = ctx.repo.func(NPU, "_write_fileobject")
    rets = nodes_of_type(wf, ast.Return)
    ctx.check(rets and all(isinstance(r.value, ast.Call) and call_name(r.value) == "_buffered_write_file" and dotted(r.value.args[0]) == "file_instance" for r in rets), rets[0] if rets else wf,
              "the compressor file object is wrapped in the buffered writer (closing it closes the compressor)")
    bw = ctx.repo.func(NPU, "_buffered_write_file")
    ctx.check(any(isinstance(r.value, ast.Call) and call_name(r.value) == "io.BufferedWriter" and dotted(r.value.args[0]) == "fobj" for r in nodes_of_type(bw, ast.Return)), bw, "buffered writer = io.BufferedWriter(raw) (close() flushes then closes raw)")
    br = ctx.repo.func(NPU, "_buffered_read_file")
    ctx.check(any(isinstance(r.value, ast.Call) and call_name(r.value) == "io.BufferedReader" and dotted(r.value.args[0]) == "fobj" for r in nodes_of_type(br, ast.Return)), br, "buffered reader = io.BufferedReader(raw)")


def arg_resolution(ctx):
    """compress argument forms: True / int / name / (name, level) / extension-implied"""
    from ..core import cond_holds, has_stmt
    f = ctx.repo.func(NP, "dump")
    g = cfg_of(f)
    t_true = [n for n in nodes_of_type(f, ast.If) if unparse(n.test) == "compress is True"]
    ctx.check(bool(t_true) and has_stmt(t_true[0].body, "compress_level = None"), t_true[0] if t_true else f, "compress=True: default method, default level (None)")
    dflt = [a for a in nodes_of_type(f, ast.Assign) if "compress_method" in stores_to(a) and const_value(a.value) == "zlib"]
    ctx.check(bool(dflt), dflt[0] if dflt else f, "default method is zlib")
    tup = [n for n in nodes_of_type(f, ast.If) if unparse(n.test) == "isinstance(compress, tuple)"]
    ok = bool(tup) and has_stmt(tup[0].body, "compress_method, compress_level = compress") and any(isinstance(n_, ast.If) and unparse(n_.test) == "len(compress) != 2" and any(isinstance(x, ast.Raise) for x in n_.body) for n_ in tup[0].body)
    ctx.check(ok, tup[0] if tup else f, "(name, level): unpacked in that order, other lengths rejected", "tuple form of compress is not unpacked as (method, level)")
    st = [n for n in nodes_of_type(f, ast.If) if unparse(n.test) == "isinstance(compress, str)"]
    ok = bool(st) and has_stmt(st[0].body, "compress_method = compress") and has_stmt(st[0].body, "compress_level = None")
    ctx.check(ok, st[0] if st else f, "name: that method with its default level")
    if st:
        ctx.check(has_stmt(st[0].orelse, "compress_level = compress"), st[0], "anything else is the level (bool/int) with the default method")
    ext = [l for l in nodes_of_type(f, ast.For) if unparse(l.iter) == "_COMPRESSORS.items()"]
    ctx.need(ext, "extension loop not found in dump")
    lp = ext[0]
    tests = [n for n in lp.body if isinstance(n, ast.If)]
    ok = bool(tests) and unparse(tests[0].test) == "filename.endswith(%s.extension)" % dotted(lp.target.elts[1]) and has_stmt(tests[0].body, "compress_method = %s" % dotted(lp.target.elts[0]))
    ctx.check(ok, lp, "a file name ending with a registered extension selects that compressor", "extension matching is %s" % (unparse(tests[0].test) if tests else None))
    conds = g.conditions_at(g.nodes_of(lp))
    ctx.check(cond_holds(conds, "is_filename and (not isinstance(compress, tuple))", True), lp, "only for path targets without an explicit (method, level)")
    imp = [n for n in nodes_of_type(f, ast.If) if unparse(n.test) == "compress_method in _COMPRESSORS and compress_level == 0"]
    ctx.check(bool(imp) and has_stmt(imp[0].body, "compress_level = None"), imp[0] if imp else f, "an extension-implied compressor with level 0/False still compresses (default level)")
    fo = [a for a in nodes_of_type(f, ast.Assign) if "is_fileobj" in stores_to(a)]
    ctx.check(bool(fo) and unparse(fo[0].value) == "hasattr(filename, 'write')", fo[0] if fo else f, "file objects are recognised by their write method")
    rej = [n for n in nodes_of_type(f, ast.If) if unparse(n.test) == "not is_filename and (not is_fileobj)" and any(isinstance(x, ast.Raise) for x in n.body)]
    ctx.check(bool(rej), rej[0] if rej else f, "other targets are rejected")


def mode_typestate(ctx):
    """who may set BinaryZlibFile._mode, and to what"""
    allowed = {
        "__init__": {"_MODE_CLOSED", "_MODE_READ", "_MODE_WRITE"},
        "_fill_buffer": {"_MODE_READ_EOF"},
        "_rewind": {"_MODE_READ"},
        "close": {"_MODE_CLOSED"},
    }
    cls = ctx.repo.cls(CP, Z)
    n = 0
    for m in cls.body:
        if not isinstance(m, ast.FunctionDef):
            continue
        for a in nodes_of_type(m, ast.Assign):
            if "self._mode" in stores_to(a):
                n += 1
                v = dotted(a.value)
                ctx.check(m.name in allowed and v in allowed[m.name], a, "%s sets the mode to %s (allowed transition)" % (m.name, v),
                          "%s sets the stream mode to %s: not one of the mode transitions of the read/write state machine" % (m.name, v))
    have = {(m.name, dotted(a.value)) for m in cls.body if isinstance(m, ast.FunctionDef) for a in nodes_of_type(m, ast.Assign) if "self._mode" in stores_to(a)}
    for need_ in (("__init__", "_MODE_READ"), ("__init__", "_MODE_WRITE"), ("_fill_buffer", "_MODE_READ_EOF"), ("_rewind", "_MODE_READ"), ("close", "_MODE_CLOSED")):
        ctx.check(need_ in have, cls, "transition present: %s sets %s" % need_, "the mode transition `%s sets %s` is gone: the state machine of the stream no longer reaches/leaves that mode" % need_,
                  key="%s::%s::transition %s->%s" % (CP, Z, need_[0], need_[1]))
    consts = _module_bytes(ctx.repo.mod(CP))
    vals = [consts.get(k) for k in ("_MODE_CLOSED", "_MODE_READ", "_MODE_READ_EOF", "_MODE_WRITE")]
    ctx.check(None not in vals and len(set(vals)) == 4, cls, "the four mode constants are distinct (%s)" % vals, "mode constants are not pairwise distinct: %s" % vals)
    fb = ZF(ctx, "_fill_buffer")
    g = cfg_of(fb)
    bad_at, msg = _fill_buffer_table(ctx)
    ctx.check(bad_at is None, bad_at or fb, "READ -> READ_EOF only at the end of the data (case table of one refill attempt)", msg if bad_at is not None else "")
    init = ZF(ctx, "__init__")
    gi = cfg_of(init)
    from ..core import cond_holds
    for a in nodes_of_type(init, ast.Assign):
        if "self._mode" in stores_to(a) and dotted(a.value) in ("_MODE_READ", "_MODE_WRITE"):
            want = "mode == 'rb'" if dotted(a.value) == "_MODE_READ" else "mode == 'wb'"
            ctx.check(cond_holds(gi.conditions_at(gi.nodes_of(a)), want, True), a, "%s iff %s" % (dotted(a.value), want))


def mode_gates(ctx):
    """the mode predicates and gates evaluated for each of the four mode constants (finite table, no execution)"""
    MODES = ("_MODE_CLOSED", "_MODE_READ", "_MODE_READ_EOF", "_MODE_WRITE")
    want_pred = {"closed": {"_MODE_CLOSED"}, "readable": {"_MODE_READ", "_MODE_READ_EOF"}, "writable": {"_MODE_WRITE"}}
    for name, true_in in want_pred.items():
        fn = ZF(ctx, name)
        rets = [r for r in nodes_of_type(fn, ast.Return) if r.value is not None]
        ok = len(rets) == 1 and all(_mode_test_value(rets[0].value, m) == (m in true_in) for m in MODES)
        ctx.check(ok, rets[0] if rets else fn, "%s is true exactly in %s" % (name, sorted(true_in)), "%s returns `%s`, which is not true exactly in %s" % (name, unparse(rets[0].value) if rets else None, sorted(true_in)))
    want_gate = {"_check_can_read": {"_MODE_READ", "_MODE_READ_EOF"}, "_check_can_write": {"_MODE_WRITE"}, "_check_can_seek": {"_MODE_READ", "_MODE_READ_EOF"}}
    for name, pass_in in want_gate.items():
        fn = ZF(ctx, name)
        g = cfg_of(fn)
        gate = [i for i in nodes_of_type(fn, ast.If) if _mode_test_value(i.test, "_MODE_READ") is not None]
        ok = len(gate) == 1 and any(isinstance(x, ast.Raise) for x in gate[0].body) and all(_mode_test_value(gate[0].test, m) == (m not in pass_in) for m in MODES)
        ctx.check(ok, gate[0] if gate else fn, "%s refuses every mode except %s" % (name, sorted(pass_in)), "%s does not raise exactly outside %s" % (name, sorted(pass_in)))
    nc = ZF(ctx, "_check_not_closed")
    t = [i for i in nodes_of_type(nc, ast.If) if unparse(i.test) == "self.closed"]
    ctx.check(bool(t) and any(isinstance(x, ast.Raise) and call_name(x.exc) == "ValueError" for x in walk_local(t[0])) and isinstance(t[0].body[-1], ast.Raise), t[0] if t else nc,
              "operations on a closed file raise ValueError", "_check_not_closed does not raise ValueError exactly when closed")


def no_swallow(ctx):
    """A load that failed never returns an object: every handler of the unpickling entry points re-raises."""
    n = 0
    for rel, q in ((NP, "_unpickle"), (NP, "load"), (NP, "load_temporary_memmap"), (NP, "NumpyUnpickler.load_build")):
        fn = ctx.repo.func(rel, q)
        g = cfg_of(fn)
        for h in [h for t in nodes_of_type(fn, ast.Try) for h in t.handlers]:
            if q.endswith("__init__"):
                continue
            n += 1
            raises = [x for s_ in h.body for x in walk_local(s_) if isinstance(x, ast.Raise)]
            ok = bool(raises) and not g.path_exists(g.nodes_of(h), [g.exit], avoid=g.nodes_of_all(raises), strict=False)
            ctx.check(ok, h, "%s: the `except %s` handler raises on every path" % (q, unparse(h.type) if h.type else ""),
                      "%s: the `except %s` handler can fall through: a truncated or damaged file makes load() return %s instead of raising" % (
                          q, unparse(h.type) if h.type else "", "None / a partial object"))
    ctx.floor(n, 1, "handlers on the unpickling path")
    up = ctx.repo.func(NP, "_unpickle")
    rets = nodes_of_type(up, ast.Return)
    ld = [a for a in nodes_of_type(up, ast.Assign) if isinstance(a.value, ast.Call) and call_name(a.value) == "unpickler.load"]
    g = cfg_of(up)
    def origin(name, depth=0):
        # follow plain copies `b = a` (single definition) back to the loaded variable
        d = [a for a in nodes_of_type(up, ast.Assign) if name in stores_to(a) and not is_const(a.value, None)]
        if len(d) == 1 and isinstance(d[0].value, ast.Name) and depth < 4:
            return origin(d[0].value.id, depth + 1)
        return name
    ctx.check(bool(ld) and bool(rets) and all(dotted(r.value) is not None and origin(dotted(r.value)) == ld[0].targets[0].id and g.every_path_to(g.nodes_of(r), g.nodes_of(ld[0]), skip_exc=True) for r in rets), ld[0] if ld else up,
              "_unpickle returns exactly what unpickler.load() produced", "_unpickle does not return, on every path, the object produced by unpickler.load()")
