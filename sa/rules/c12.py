"""C12 - a cached function never returns a value computed by different source code."""

from . import mem

PROPERTY = "C12"
EXPLANATION = (
    "Static decision of the structural clauses of C12: the source-code check dominates every read of the cache; from the "
    "point where stored and current source differ every path wipes the function's directory and answers False; the "
    "in-memory fast-path table (_FUNCTION_HASHES) is kept coherent with the stored source (every writer of func_code.py "
    "evicts the entries of other live functions sharing the id); the fast-path key includes the code object; the source is "
    "re-read from disk at call time. Equality of source text is joblib's oracle for 'same code' and is not questioned."
    ' A fast-path entry is specific to the store it was validated against; call() checks the stored source before persisting a result next to it.'
    " Whoever stores the source has wiped the function's directory first (C05.LABEL-AFTER-WIPE); the fingerprint describes the callable that was handed in (never an unwrapped inner function)."
)
ASSUMPTIONS = [
    "source text equality is the oracle for 'same code' (closures over differing values are outside the property's domain)",
    "tokenize.open reads the current file content",
]


def run(ctx):
    ctx.run("C12.CHECK-DOMINATES", "R-ORDER", mem.check_dominates)
    ctx.run("C12.DIFF-WIPES", "R-ORDER", mem.diff_wipes)
    ctx.run("C12.FASTPATH-COHERENT", "R-WHO", mem.fastpath_coherent)
    ctx.run("C12.CODE-HASH", "R-FLOW", mem.code_hash)
    ctx.run("C12.FRESH-SOURCE", "R-WHO", mem.fresh_source)
    ctx.run("C05.CODE-READER", "R-ERRDISC", mem.code_reader)
    ctx.run("C05.INVALIDATE-ORDER", "R-ORDER", mem.invalidate_order)
    ctx.run("C05.LABEL-AFTER-WIPE", "R-ORDER", mem.label_after_wipe)
    ctx.run("C12.GETSTATE", "R-WHO", mem.getstate_pure)
