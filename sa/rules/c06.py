"""C06 - Memory serves repeated calls from cache whatever the equivalent call form."""

from . import c07, c08, mem

PROPERTY = "C06"
EXPLANATION = (
    "Static decision of the structural clauses of C06: check_call_in_cache and the cached call compute the id with the "
    "same expression and both decide through _is_in_cache_and_valid; on a valid hit the function body is reached only "
    "if loading raised; every call Python accepts is accepted by filter_args and mapped to one canonical form "
    "(C07 clauses), ignored names are removed (C07.IGNORE), dict/set/frozenset arguments hash order-insensitively and "
    "seed-independently (C08 clauses), surplus keywords are collected in sorted order. Counting executions is dynamic by "
    "nature and is NOT decided; eviction/invalidation interplay is C12/C18."
    ' expires_after: duration = timedelta(every parameter), valid iff age < total_seconds(); metadata codec agreement between writer and reader.'
    ' Arithmetic on the optional timestamp (None after pickling) is guarded (C06.OPTIONAL-TIMESTAMP).'
)
ASSUMPTIONS = [
    "pickle of equal builtin values yields equal streams for protocol 3 once containers are order-normalised",
]


def run(ctx):
    ctx.run("C06.HIT-SIBLING", "R-SIBLING", mem.hit_sibling)
    ctx.run("C06.CACHE-FORWARD", "R-FLOW", mem.cache_forward)
    ctx.run("C02.ONE-ID", "R-FLOW", mem.one_id)
    ctx.run("C02.KEY-FLOW", "R-FLOW", mem.key_flow)
    ctx.run("C12.CHECK-DOMINATES", "R-ORDER", mem.check_dominates)
    ctx.run("C12.FASTPATH-COHERENT", "R-DUAL", mem.fastpath_coherent)
    ctx.run("C05.LOAD-TOLERANT", "R-ERRDISC", mem.load_tolerant)
    ctx.run("C07.SIGNATURE", "R-WHO", c07.signature_fresh)
    ctx.run("C07.KINDS", "R-TABLE", c07.kinds)
    ctx.run("C07.LOCKSTEP", "R-DUAL", c07.lockstep)
    ctx.run("C07.POSITIONAL", "R-FLOW", c07.positional)
    ctx.run("C07.KW", "R-ORDER", c07.kw)
    ctx.run("C07.METHOD", "R-ORDER", c07.method)
    ctx.run("C07.IGNORE", "R-ORDER", c07.ignore)
    ctx.run("C07.NO-FORMAT", "R-WHO", c07.no_format_on_success)
    ctx.run("C08.PURE", "R-WHO", c08.pure)
    ctx.run("C08.UNORDERED", "R-TABLE", c08.unordered)
    ctx.run("C08.SEED", "R-WHO", c08.seed)
    ctx.run("C08.MEMO", "R-ORDER", c08.memo)
    ctx.run("C08.FEED-TOTAL", "R-FLOW", c08.feed_total)
    ctx.run("C12.GETSTATE", "R-WHO", mem.getstate_pure)
    ctx.run("C06.EXPIRES", "R-ARITH", mem.expires)
    ctx.run("C05.META-DUAL", "R-DUAL", mem.meta_dual)
    ctx.run("C05.RESULT-BEFORE-META", "R-ORDER", mem.result_before_meta)
    ctx.run("C06.OPTIONAL-TIMESTAMP", "R-FLOW", mem.optional_timestamp)
