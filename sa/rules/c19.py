"""C19 - numpy arrays persist bit-exactly and memory-map faithfully."""

import ast

from ..cfg import cfg_of
from ..core import (
    cond_facts, enclosing_func, Undecidable, in_block,
    ancestors, assigns_to, body_walk, call_attr, call_name, calls_in, const_value, dotted, enclosing_stmt, is_const, kwarg,
    nodes_of_type, parent, stores_to, unparse, walk_local, names_in, param_names,
)

NP = "joblib/numpy_pickle.py"
NPU = "joblib/numpy_pickle_utils.py"
MR = "joblib/_memmapping_reducer.py"
BP = "joblib/backports.py"
PROPERTY = "C19"
EXPLANATION = (
    "Static decision of the structural clauses of C19 (the suite skips every test of this code here - numpy is not "
    "installed - but the text is there to analyse): array interception in the pickler (exact types, wrapper pickled, frame "
    "committed for protocol >= 4, then raw bytes - in that dominance order) and in the unpickler (BUILD hook); metadata "
    "handed to the wrapper; writer/reader duality of the inline payload (pickle<->pickle for object arrays; one length "
    "byte + padding + raw bytes otherwise, under equal guards, for read_array and read_mmap); alignment arithmetic "
    "padding = A - (p mod A) with p the position after the length byte, A <= 255; C/F order handling; byte-order "
    "normalisation flag; the mmap gate; reduce tuples of the memmap reducers against the signatures they call; the "
    "auto-memmap threshold. numpy's own semantics (nditer, frombuffer, memmap) are trusted."
    ' Compatibility probes by attribute absence are not answered by class-level defaults (C19.COMPAT-ABSENCE); a failing dump of an array propagates (no partial file is advertised, C19.DUMP-FAIL-PROPAGATES); the temporary folder is resolved at every use (C19.TEMP-FOLDER-LIVE).'
)
ASSUMPTIONS = [
    "numpy.nditer(order=o) with chunk.tobytes('C') emits the elements in order o; frombuffer/memmap reinterpret bytes faithfully",
    "pickle frames: commit_frame(force=True) flushes buffered opcodes to the file before raw bytes are written",
]

W = "NumpyArrayWrapper"


def F(ctx, q, rel=NP):
    return ctx.repo.func(rel, q)


def _def(fn, name):
    return [a for a in nodes_of_type(fn, ast.Assign) if name in stores_to(a)]


def intercept(ctx):
    f = F(ctx, "NumpyPickler.save")
    g = cfg_of(f)
    t = [n for n in nodes_of_type(f, ast.If) if any(isinstance(c, ast.Compare) and isinstance(c.ops[0], (ast.In, ast.NotIn)) and unparse(c.left) == "type(obj)" for c in ast.walk(n.test))]
    ctx.need(t, "array interception test not found in NumpyPickler.save")
    test = t[0].test
    cmp_ = [c for c in ast.walk(test) if isinstance(c, ast.Compare) and isinstance(c.ops[0], (ast.In, ast.NotIn)) and unparse(c.left) == "type(obj)"]
    tys = sorted(unparse(e) for e in cmp_[0].comparators[0].elts)
    ctx.check(tys == ["self.np.matrix", "self.np.memmap", "self.np.ndarray"], t[0], "intercepts exactly type(obj) in (ndarray, matrix, memmap)", "intercepted types are %s" % tys)
    facts = cond_facts([(t[0], test, True)])
    ctx.check(("self.np is not None", True) in facts and any(f[0].startswith("type(obj) in ") and f[1] for f in facts) and len(facts) == 2, t[0], "only when numpy is importable; the wrapper branch is the TRUE branch of that test",
              "the array branch of NumpyPickler.save is entered under %s" % facts)
    dflt = [c for c in calls_in(f) if call_name(c) == "Pickler.save" and len(c.args) == 2 and dotted(c.args[1]) == f.args.args[1].arg]
    ctx.check(bool(dflt) and all(isinstance(parent(c), ast.Return) or isinstance(parent(c), ast.Expr) for c in dflt) and g.every_path_from([g.entry], set(g.nodes_of_all(dflt)) | set(g.nodes_of_all([x for x in calls_in(f) if call_attr(x) == "write_array"])), None, skip_exc=True),
              dflt[0] if dflt else f, "every other object goes to the default pickler: each path ends in Pickler.save(self, obj) or in the array branch",
              "NumpyPickler.save has a path that pickles nothing (neither the array branch nor Pickler.save(self, obj))")
    body = ast.Module(body=t[0].body, type_ignores=[])
    wrap = [a for a in walk_local(body) if isinstance(a, ast.Assign) and isinstance(a.value, ast.Call) and call_name(a.value) == "self._create_array_wrapper"]
    sv = [c for c in calls_in(body) if call_name(c) == "Pickler.save" and len(c.args) == 2 and wrap and dotted(c.args[1]) == wrap[0].targets[0].id]
    cf = [c for c in calls_in(body) if call_name(c) == "self.framer.commit_frame"]
    wa = [c for c in calls_in(body) if call_attr(c) == "write_array"]
    ctx.check(bool(wrap) and bool(sv), sv[0] if sv else t[0], "the wrapper (metadata) is pickled in place of the array", "the array wrapper is not pickled")
    ctx.check(bool(wa) and wa[0].args and dotted(wa[0].args[0]) == "obj" and dotted(wa[0].args[1]) == "self", wa[0] if wa else t[0], "then the raw payload is written by wrapper.write_array(obj, self)", "write_array is not called with the array and the pickler")
    if not cf:
        ctx.bad(t[0], "no framer.commit_frame(force=True) between the wrapper and the raw bytes: with protocol >= 4 the wrapper's opcodes are still buffered when the payload is written, so the file is not loadable",
                key=NP + "::NumpyPickler.save::commit_frame")
    else:
        c = cf[0]
        ctx.check(is_const(kwarg(c, "force", 0), True), c, "commit_frame(force=True)")
        conds = [(unparse(tt), pol) for (i_, tt, pol) in g.conditions_at(g.nodes_of(c)) if i_ is not t[0]]
        ctx.check(conds == [("self.proto >= 4", True)], c, "frames are committed iff proto >= 4", "commit_frame is conditioned on %s" % conds)
        if sv and wa:
            ctx.check(g.every_path_to(g.nodes_of(c), g.nodes_of(sv[0])) and g.path_exists(g.nodes_of(c), g.nodes_of(wa[0])) and not g.path_exists(g.nodes_of(wa[0]), g.nodes_of(c)), c,
                      "order: pickle wrapper -> commit frame -> raw bytes", "commit_frame is not between pickling the wrapper and writing the raw bytes")
    if sv and wa:
        ctx.check(g.every_path_to(g.nodes_of(wa[0]), g.nodes_of(sv[0])), wa[0], "the wrapper precedes the payload")
    mm = [n for n in t[0].body if isinstance(n, ast.If) and unparse(n.test) == "type(obj) is self.np.memmap"]
    ctx.check(bool(mm) and any(unparse(s_) == "obj = self.np.asanyarray(obj)" for s_ in mm[0].body), mm[0] if mm else t[0], "memmaps are converted with asanyarray before dumping")
    ctx.check(bool(wa) and not any(g.path_exists(g.nodes_of(wa[0]), g.nodes_of(c)) for c in dflt), t[0], "intercepted arrays do not also go through the default saver")
    u = F(ctx, "NumpyUnpickler.load_build")
    gu = cfg_of(u)
    base = [c for c in calls_in(u) if call_name(c) == "Unpickler.load_build"]
    test_ = [n for n in nodes_of_type(u, ast.If) if "isinstance(self.stack[-1]" in unparse(n.test)]
    ctx.check(bool(base) and bool(test_) and gu.every_path_to(gu.nodes_of(test_[0]), gu.nodes_of_all(base)), base[0] if base else u, "load_build first lets pickle build the object, then inspects the top of the stack")
    if test_:
        ctx.check(unparse(test_[0].test, 200) in ("isinstance(self.stack[-1], (NDArrayWrapper, NumpyArrayWrapper))", "isinstance(self.stack[-1], (NumpyArrayWrapper, NDArrayWrapper))", "isinstance(self.stack[-1], NumpyArrayWrapper)"), test_[0],
                  "a NumpyArrayWrapper (or legacy NDArrayWrapper) on top of the stack is recognised", "load_build replaces the top of the stack under `%s`" % unparse(test_[0].test, 200))
        rd = [c for c in calls_in(test_[0]) if call_name(c) == "array_wrapper.read" and len(c.args) == 2]
        ctx.check(bool(rd) and dotted(rd[0].args[0]) == "self" and dotted(rd[0].args[1]) == "self.ensure_native_byte_order", rd[0] if rd else test_[0], "and replaced by wrapper.read(self, ensure_native_byte_order)")
        if rd:
            fc = cond_facts([c_ for c_ in gu.conditions_at(gu.nodes_of(rd[0])) if c_[0] is not test_[0] and "self.np" not in unparse(c_[1])])
            ctx.check(all(f == ("isinstance(array_wrapper, NDArrayWrapper)", False) for f in fc), rd[0], "the current-format reader is used for every wrapper that is not a legacy NDArrayWrapper",
                      "wrapper.read(self, ensure_native_byte_order) is reached under %s" % fc)
        leg = [c for c in calls_in(test_[0]) if call_name(c) == "array_wrapper.read" and len(c.args) == 1]
        for c in leg:
            fc = cond_facts([c_ for c_ in gu.conditions_at(gu.nodes_of(c)) if c_[0] is not test_[0] and "self.np" not in unparse(c_[1])])
            ctx.check(fc == [("isinstance(array_wrapper, NDArrayWrapper)", True)], c, "the legacy reader only for NDArrayWrapper", "the legacy reader is reached under %s" % fc)
        npn = [n for n in nodes_of_type(test_[0], ast.If) if "self.np" in unparse(n.test)]
        for n in npn:
            ctx.check(unparse(n.test) == "self.np is None" and any(isinstance(x, ast.Raise) for x in n.body), n, "without numpy an ImportError is raised (never a silent wrapper object in the result)",
                      "the numpy-missing guard of load_build is `%s`" % unparse(n.test))
        pop = [c for c in calls_in(test_[0]) if call_name(c) == "self.stack.pop"]
        app = [c for c in calls_in(test_[0]) if call_name(c) == "self.stack.append"]
        ctx.check(bool(pop) and bool(app) and dotted(app[0].args[0]) == "_array_payload", app[0] if app else test_[0], "the array takes the wrapper's place on the stack")
    cls = ctx.repo.cls(NP, "NumpyUnpickler")
    reg = [s for s in cls.body if isinstance(s, ast.Assign) and isinstance(s.targets[0], ast.Subscript) and dotted(s.targets[0].value) == "dispatch"]
    ctx.check(bool(reg) and unparse(reg[0].targets[0].slice) == "pickle.BUILD[0]" and dotted(reg[0].value) == "load_build", reg[0] if reg else cls, "the hook is registered for the BUILD opcode", "load_build is not registered for pickle.BUILD[0]")
    up = F(ctx, "_unpickle")
    c = [c for c in calls_in(up) if call_name(c) == "NumpyUnpickler"]
    ctx.check(bool(c) and [dotted(a) for a in c[0].args] == ["filename", "fobj", "ensure_native_byte_order"] and dotted(kwarg(c[0], "mmap_mode")) == "mmap_mode", c[0] if c else up, "_unpickle builds the unpickler with (filename, fobj, byte-order flag, mmap_mode)")


def meta(ctx):
    f = F(ctx, "NumpyPickler._create_array_wrapper")
    c = [c for c in calls_in(f) if call_name(c) == W]
    ctx.need(c, "wrapper construction not found")
    c = c[0]
    init = F(ctx, W + ".__init__")
    params = [a.arg for a in init.args.args][1:]
    ctx.check(params[:5] == ["subclass", "shape", "order", "dtype", "allow_mmap"], init, "wrapper signature (subclass, shape, order, dtype, allow_mmap, alignment)")
    got = [unparse(a) for a in c.args]
    ctx.check(got == ["type(array)", "array.shape", "order", "array.dtype"], c, "wrapper receives type(array), array.shape, order, array.dtype in signature order", "wrapper receives %s" % got)
    ctx.check(dotted(kwarg(c, "allow_mmap")) == "allow_mmap", c, "and allow_mmap")
    o = _def(f, "order")
    ctx.check(bool(o) and unparse(o[0].value) == "'F' if array.flags.f_contiguous and (not array.flags.c_contiguous) else 'C'", o[0] if o else f, "order = 'F' iff f_contiguous and not c_contiguous",
              "order flag computed as %s" % (unparse(o[0].value) if o else None))
    am = _def(f, "allow_mmap")
    ctx.check(bool(am) and unparse(am[0].value) == "not self.buffered and (not array.dtype.hasobject)", am[0] if am else f, "allow_mmap = not buffered and not hasobject")
    tr = nodes_of_type(f, ast.Try)
    ok = tr and any(call_name(x) == "self.file_handle.tell" for x in calls_in(ast.Module(body=tr[0].body, type_ignores=[]))) and \
        any(unparse(h.type) == "io.UnsupportedOperation" and any("'numpy_array_alignment_bytes': None" in unparse(s_) for s_ in h.body) for h in tr[0].handlers)
    ctx.check(bool(ok), tr[0] if tr else f, "alignment is disabled exactly when the target does not support tell()")
    for attr in params[:5] + ["numpy_array_alignment_bytes"]:
        st = assigns_to(init, "self." + attr)
        ctx.check(bool(st) and dotted(st[0].value) == attr, st[0] if st else init, "wrapper stores %s unchanged" % attr)
    ni = F(ctx, "NumpyPickler.__init__")
    b = assigns_to(ni, "self.buffered")
    ctx.check(bool(b) and unparse(b[0].value) == "isinstance(self.file_handle, BinaryZlibFile)", b[0] if b else ni, "buffered = target is a BinaryZlibFile")


def _guarded_by_alignment(g, node, fn):
    return any(unparse(t) == "numpy_array_alignment_bytes is not None" and pol for (_, t, pol) in g.conditions_at(g.nodes_of(node)))


def io_dual(ctx):
    w = F(ctx, W + ".write_array")
    r = F(ctx, W + ".read_array")
    m = F(ctx, W + ".read_mmap")
    gw, gr, gm = cfg_of(w), cfg_of(r), cfg_of(m)
    # object arrays
    pw = [c for c in calls_in(w) if call_name(c) == "pickle.dump"]
    pr = [c for c in calls_in(r) if call_name(c) == "pickle.load"]
    ok = len(pw) == 1 and len(pr) == 1 and dotted(pw[0].args[1]) == "pickler.file_handle" and dotted(pr[0].args[0]) == "unpickler.file_handle"
    ctx.check(ok, pw[0] if pw else w, "object arrays: pickle.dump to the file handle <-> pickle.load from it", "object-array payload: writer/reader do not mirror each other")
    if ok:
        cw = [(unparse(t), pol) for (_, t, pol) in gw.conditions_at(gw.nodes_of(pw[0]))]
        cr = [(unparse(t), pol) for (_, t, pol) in gr.conditions_at(gr.nodes_of(pr[0]))]
        ctx.check(cw == [("array.dtype.hasobject", True)] and cr == [("self.dtype.hasobject", True)], pw[0], "both under dtype.hasobject", "guards differ: writer %s reader %s" % (cw, cr))
    for fn in (w, r, m):
        d = _def(fn, "numpy_array_alignment_bytes")
        ctx.check(bool(d) and unparse(d[0].value) == "self.safe_get_numpy_array_alignment_bytes()", d[0] if d else fn, "%s reads the wrapper's alignment through the compat getter" % fn.name)
    # writer: one length byte + padding
    tb = [c for c in calls_in(w) if call_name(c) == "int.to_bytes"]
    ctx.need(tb, "writer length byte not found")
    ln = kwarg(tb[0], "length", 1)
    ctx.check(const_value(ln) == 1 and dotted(tb[0].args[0]) == "padding_length", tb[0], "writer encodes padding_length in exactly 1 byte")
    wr = [c for c in calls_in(w) if call_name(c) == "pickler.file_handle.write"]
    byte_w = [c for c in wr if dotted(c.args[0]) == enclosing_stmt(tb[0]).targets[0].id]
    pad_w = [c for c in wr if dotted(c.args[0]) == "padding"]
    ctx.check(len(byte_w) == 1 and _guarded_by_alignment(gw, byte_w[0], w), byte_w[0] if byte_w else w, "the length byte is written once, when alignment is enabled")
    pd = _def(w, "padding")
    ctx.check(len(pad_w) == 1 and bool(pd) and isinstance(pd[0].value, ast.BinOp) and isinstance(pd[0].value.op, ast.Mult) and "padding_length" in names_in(pd[0].value) and isinstance(pd[0].value.left, ast.Constant) and len(pd[0].value.left.value) == 1,
              pad_w[0] if pad_w else w, "then padding_length padding bytes", "padding written is not padding_length bytes")
    if pad_w:
        ctx.check(any(unparse(t) == "padding_length != 0" and pol for (_, t, pol) in gw.conditions_at(gw.nodes_of(pad_w[0]))), pad_w[0], "(only when padding_length != 0)")
        ctx.check(gw.every_path_to(gw.nodes_of(pad_w[0]), gw.nodes_of_all(byte_w)), pad_w[0], "length byte first, padding second")
    # reader read_array
    for fn, g_, nm in ((r, gr, "read_array"), (m, gm, "read_mmap")):
        rd1 = [c for c in calls_in(fn) if call_name(c) == "unpickler.file_handle.read" and const_value(c.args[0]) == 1]
        fb = [c for c in calls_in(fn) if call_name(c) == "int.from_bytes"]
        ok = len(rd1) == 1 and len(fb) == 1 and _guarded_by_alignment(g_, rd1[0], fn) and dotted(fb[0].args[0]) == enclosing_stmt(rd1[0]).targets[0].id
        ctx.check(ok, rd1[0] if rd1 else fn, "%s reads exactly 1 length byte under the same guard and decodes it" % nm, "%s does not mirror the writer's 1-byte length field" % nm)
        bo_w = const_value(kwarg(tb[0], "byteorder", 2))
        bo_r = const_value(kwarg(fb[0], "byteorder", 1)) if fb else None
        ctx.check(bo_w == bo_r, fb[0] if fb else fn, "same byte order for the length field (%s)" % bo_w)
    rdp = [c for c in calls_in(r) if call_name(c) == "unpickler.file_handle.read" and dotted(c.args[0]) == "padding_length"]
    ctx.check(len(rdp) == 1 and any(unparse(t) == "padding_length != 0" and pol for (_, t, pol) in gr.conditions_at(gr.nodes_of(rdp[0]))), rdp[0] if rdp else r,
              "read_array skips padding_length bytes (when != 0)", "read_array does not skip exactly padding_length padding bytes")
    # mmap offset
    off = [a for a in nodes_of_type(m, ast.AugAssign) if dotted(a.target) == "offset"]
    o0 = _def(m, "offset")
    cp = _def(m, "current_pos")
    ok = len(off) == 1 and isinstance(off[0].op, ast.Add) and sorted(_flat(off[0].value)) == ["1", "padding_length"] and o0 and dotted(o0[0].value) == "current_pos" and cp and unparse(cp[0].value) == "unpickler.file_handle.tell()"
    ctx.check(bool(ok), off[0] if off else m, "read_mmap: payload offset = tell() + 1 + padding_length", "read_mmap computes the payload offset differently")
    if off:
        ctx.check(_guarded_by_alignment(gm, off[0], m), off[0], "under the alignment guard")
        ctx.check(gm.every_path_to(gm.nodes_of_all([c for c in calls_in(m) if call_name(c) == "unpickler.file_handle.read"]), gm.nodes_of_all(cp)), cp[0], "tell() is taken before the length byte is read")
    co = [n for n in nodes_of_type(m, ast.If) if unparse(n.test) == "unpickler.mmap_mode == 'w+'" and any(unparse(s_) == "unpickler.mmap_mode = 'r+'" for s_ in n.body)]
    mk_ = [c for c in calls_in(m) if call_name(c) == "make_memmap"]
    ctx.check(bool(co) and mk_ and gm.every_path_to(gm.nodes_of_all(mk_), gm.nodes_of_all(co)), co[0] if co else m, "read_mmap coerces 'w+' to 'r+' before mapping (loading never zeroes the file)",
              "read_mmap can map the file with mode 'w+', which truncates it")
    sk = [c for c in calls_in(m) if call_name(c) == "unpickler.file_handle.seek"]
    ctx.check(len(sk) == 1 and unparse(sk[0].args[0]) == "offset + marray.nbytes", sk[0] if sk else m, "read_mmap leaves the file position right after the payload")
    # payload
    it = [l for l in nodes_of_type(w, ast.For) if isinstance(l.iter, ast.Call) and call_name(l.iter) == "pickler.np.nditer"]
    ctx.need(it, "writer chunk loop not found")
    cw_ = [c for c in calls_in(it[0]) if call_name(c) == "pickler.file_handle.write"]
    ctx.check(len(cw_) == 1 and unparse(cw_[0].args[0]) == "%s.tobytes('C')" % dotted(it[0].target), cw_[0] if cw_ else it[0], "writer emits every chunk's bytes once")
    ctx.check(not _guarded_by_alignment(gw, it[0], w) and any(unparse(t) == "array.dtype.hasobject" and not pol for (_, t, pol) in gw.conditions_at(gw.nodes_of(it[0]))), it[0], "payload is written for every non-object array, aligned or not")
    cnt = _def(r, "count")
    ctx.check(len(cnt) == 2 and any(is_const(a.value, 1) for a in cnt) and any("multiply.reduce" in unparse(a.value) for a in cnt), cnt[0] if cnt else r, "reader element count = product of the shape (1 for 0-d)")
    for a in cnt:
        fc = cond_facts(gr.conditions_at(gr.nodes_of(a)))
        if is_const(a.value, 1):
            ctx.check(fc == [("len(self.shape) == 0", True)], a, "count = 1 exactly for 0-d arrays", "count = 1 is chosen under %s" % fc)
        else:
            ctx.check(fc == [("len(self.shape) == 0", False)], a, "the product of the shape otherwise", "the shape product is chosen under %s" % fc)
            src = [x for x in ast.walk(a.value) if isinstance(x, ast.Name) and x.id not in ("unpickler",)]
            d = _def(r, src[0].id) if src else []
            ctx.check(bool(d) and "self.shape" in unparse(d[0].value), d[0] if d else a, "over the stored shape (as int64)")
    emp = [a for a in nodes_of_type(r, ast.Assign) if isinstance(a.value, ast.Call) and call_name(a.value) == "unpickler.np.empty"]
    ctx.check(len(emp) == 1 and dotted(emp[0].value.args[0]) == "count" and dotted(kwarg(emp[0].value, "dtype", 1)) == "self.dtype", emp[0] if emp else r, "the result buffer has `count` elements of the stored dtype")
    for fn_, nm in ((r, "array"), (m, "marray")):
        rets_ = [x for x in nodes_of_type(fn_, ast.Return)]
        ctx.check(bool(rets_) and all(dotted(x.value) == nm for x in rets_), rets_[0] if rets_ else fn_, "%s returns the array it built" % fn_.name, "%s does not return the array it built" % fn_.name)
    fl = [l for l in nodes_of_type(r, ast.For) if isinstance(l.iter, ast.Call) and call_name(l.iter) == "range"]
    ctx.need(fl, "reader chunk loop not found")
    ctx.check(unparse(fl[0].iter) == "range(0, count, max_read_count)", fl[0], "reader covers [0, count) in steps of max_read_count")
    rc = _def(r, "read_count")
    ctx.check(bool(rc) and unparse(rc[0].value) == "min(max_read_count, count - i)", rc[0] if rc else r, "each chunk has min(step, remaining) elements")
    st = [a for a in walk_local(ast.Module(body=fl[0].body, type_ignores=[])) if isinstance(a, ast.Assign) and isinstance(a.targets[0], ast.Subscript) and dotted(a.targets[0].value) == "array"]
    ctx.check(bool(st) and unparse(st[0].targets[0].slice) == "i:i + read_count", st[0] if st else fl[0], "chunks are stored at their own offset")
    fbuf = [c for c in calls_in(fl[0]) if call_name(c) == "unpickler.np.frombuffer"]
    ctx.check(bool(fbuf) and dotted(kwarg(fbuf[0], "dtype")) == "self.dtype" and dotted(kwarg(fbuf[0], "count")) == "read_count", fbuf[0] if fbuf else fl[0], "bytes are reinterpreted with the stored dtype")


def _flat(e):
    if isinstance(e, ast.BinOp) and isinstance(e.op, ast.Add):
        return _flat(e.left) + _flat(e.right)
    return [unparse(e)]


def align(ctx):
    w = F(ctx, W + ".write_array")
    pl = _def(w, "padding_length")
    ctx.need(pl, "padding_length definition not found")
    v = pl[0].value
    A = "numpy_array_alignment_bytes"
    pos = _def(w, "pos_after_padding_byte")
    cur = _def(w, "current_pos")
    form1 = isinstance(v, ast.BinOp) and isinstance(v.op, ast.Sub) and dotted(v.left) == A and isinstance(v.right, ast.BinOp) and isinstance(v.right.op, ast.Mod) and dotted(v.right.right) == A
    p_expr = v.right.left if form1 else None
    form2 = isinstance(v, ast.BinOp) and isinstance(v.op, ast.Mod) and dotted(v.right) == A and isinstance(v.left, ast.UnaryOp) and isinstance(v.left.op, ast.USub)
    if form2:
        p_expr = v.left.operand
    ctx.check(form1 or form2, pl[0], "padding = A - (p mod A)  (or (-p) mod A): (p + padding) mod A == 0", "padding is computed as %s, which does not align the payload" % unparse(v))
    if p_expr is not None:
        pe = p_expr
        if isinstance(pe, ast.Name):
            d = _def(w, pe.id)
            pe = d[0].value if d else pe
        ok = sorted(_flat(pe)) == ["1", "current_pos"] and cur and unparse(cur[0].value) == "pickler.file_handle.tell()"
        ctx.check(bool(ok), pl[0], "p is the position just after the length byte (tell() + 1)", "p is %s, not tell() + 1: the payload is misaligned by the length byte" % unparse(pe))
    m = ctx.repo.mod(NP)
    c = [a for a in m.tree.body if isinstance(a, ast.Assign) and "NUMPY_ARRAY_ALIGNMENT_BYTES" in stores_to(a)]
    val = const_value(c[0].value) if c else None
    ctx.check(isinstance(val, int) and 1 <= val <= 255 and val & (val - 1) == 0, c[0] if c else m.tree.body[0], "default alignment %s is a power of two and fits the single length byte (padding <= A <= 255)" % val,
              "alignment constant %s does not fit the 1-byte padding length" % val)
    init = F(ctx, W + ".__init__")
    a = init.args
    dv = a.defaults[-1] if a.defaults else None
    ctx.check(dv is not None and dotted(dv) == "NUMPY_ARRAY_ALIGNMENT_BYTES", init, "wrappers default to that alignment")
    g = F(ctx, W + ".safe_get_numpy_array_alignment_bytes")
    ctx.check(any(unparse(r.value) == "getattr(self, 'numpy_array_alignment_bytes', None)" for r in nodes_of_type(g, ast.Return)), g, "old pickles without the attribute mean 'no alignment' (None)")
    # tell() before the byte is written
    gw = cfg_of(w)
    wr = [c_ for c_ in calls_in(w) if call_name(c_) == "pickler.file_handle.write"]
    ctx.check(cur and all(gw.every_path_to(gw.nodes_of(x), gw.nodes_of(cur[0])) for x in wr if gw.conditions_at(gw.nodes_of(x)) and _guarded_by_alignment(gw, x, w)), cur[0] if cur else w, "the position is sampled before anything of the payload header is written")


def order(ctx):
    w = F(ctx, W + ".write_array")
    it = [c for c in calls_in(w) if call_name(c) == "pickler.np.nditer"]
    ctx.check(bool(it) and dotted(kwarg(it[0], "order")) == "self.order" and dotted(it[0].args[0]) == "array", it[0] if it else w, "writer iterates the array in the wrapper's order", "writer iterates with order=%s" % (unparse(kwarg(it[0], "order")) if it and kwarg(it[0], "order") is not None else None))
    r = F(ctx, W + ".read_array")
    g = cfg_of(r)
    t = [n for n in nodes_of_type(r, ast.If) if unparse(n.test) == "self.order == 'F'"]
    if not t:
        alt = [n for n in nodes_of_type(r, ast.If) if "self.order" in unparse(n.test)]
        if alt:
            ctx.bad(alt[0], "the reader rebuilds the Fortran layout under `%s`, not under `self.order == 'F'`: C- and F-ordered arrays come back transposed" % unparse(alt[0].test), key=NP + "::NumpyArrayWrapper.read_array::order branch")
            return
    ctx.need(t, "reader order branch not found")
    from ..core import subseq
    def touching(stmts):
        return [unparse(s_) for s_ in stmts if any(isinstance(x, ast.Name) and x.id == "array" for x in ast.walk(s_))]
    b, e = touching(t[0].body), touching(t[0].orelse)
    ctx.check(b == ["array.shape = self.shape[::-1]", "array = array.transpose()"], t[0], "F order: reversed shape then transpose", "F-order reconstruction is %s" % b)
    ctx.check(e == ["array.shape = self.shape"], t[0], "C order: shape as stored", "C-order reconstruction is %s" % e)
    m = F(ctx, W + ".read_mmap")
    mk = [c for c in calls_in(m) if call_name(c) == "make_memmap"]
    ctx.need(mk, "make_memmap call not found")
    c = mk[0]
    want = {"dtype": "self.dtype", "shape": "self.shape", "order": "self.order", "mode": "unpickler.mmap_mode", "offset": "offset"}
    for k, v in want.items():
        ctx.check(dotted(kwarg(c, k)) == v, c, "memmap %s=%s" % (k, v), "memmap is created with %s=%s" % (k, unparse(kwarg(c, k)) if kwarg(c, k) is not None else None))
    ctx.check(dotted(c.args[0]) == "unpickler.filename", c, "on the file being loaded")
    mm = ctx.repo.mod(BP)
    fns = [f for q, f in mm.funcs.items() if q == "make_memmap"]
    np_call = None
    for n in ast.walk(mm.tree):
        if isinstance(n, ast.Call) and call_name(n) == "np.memmap":
            np_call = n
    ctx.check(np_call is not None and all(dotted(kwarg(np_call, k)) == k for k in ("dtype", "mode", "offset", "shape", "order")), np_call or mm.tree.body[0], "make_memmap forwards dtype/mode/offset/shape/order to np.memmap under their own names")


def byteorder(ctx):
    r = F(ctx, W + ".read_array")
    g = cfg_of(r)
    c = [c for c in calls_in(r) if call_name(c) == "_ensure_native_byte_order"]
    ctx.check(len(c) == 1 and [(unparse(t), pol) for (_, t, pol) in g.conditions_at(g.nodes_of(c[0]))] == [("ensure_native_byte_order", True)], c[0] if c else r, "byte order is normalised iff the flag is set")
    ld = F(ctx, "load")
    a = [n for n in nodes_of_type(ld, ast.If) if unparse(n.test) == "ensure_native_byte_order == 'auto'"]
    ctx.check(bool(a) and any(unparse(s_) == "ensure_native_byte_order = mmap_mode is None" for s_ in a[0].body), a[0] if a else ld, "'auto' = normalise unless memory-mapping")
    rej = [n for n in nodes_of_type(ld, ast.If) if unparse(n.test) == "ensure_native_byte_order and mmap_mode is not None" and any(isinstance(s, ast.Raise) for s in n.body)]
    ctx.check(bool(rej), rej[0] if rej else ld, "True together with a mmap mode is rejected")
    for c in calls_in(ld):
        if call_name(c) == "_unpickle":
            ctx.check(dotted(kwarg(c, "ensure_native_byte_order")) == "ensure_native_byte_order", c, "the flag reaches _unpickle")
    lt = F(ctx, "load_temporary_memmap")
    c = [c for c in calls_in(lt) if call_name(c) == "_unpickle"]
    ctx.check(bool(c) and is_const(kwarg(c[0], "ensure_native_byte_order"), False), c[0] if c else lt, "temporary memmaps for workers are never byte-swapped")
    e = ctx.repo.func(NPU, "_ensure_native_byte_order")
    sw = [c_ for c_ in calls_in(e) if call_attr(c_) == "byteswap"]
    ctx.check(bool(sw) and all(not c_.args and not c_.keywords for c_ in sw), sw[0] if sw else e, "the swap makes a copy (byteswap() without inplace): a memory-mapped or shared buffer is never modified",
              "byte order is normalised with byteswap(%s): the legacy reader hands memory-mapped arrays to this function, so the file itself would be rewritten" % (unparse(sw[0], 60) if sw else ""))
    # the swapped copy is re-interpreted with the NATIVE dtype (`<array>.byteswap().view(<array>.dtype.newbyteorder('='))`) and
    # that value is what the function hands back - spelled in one expression or through locals, assigned or returned
    p_arr = e.args.args[0].arg
    def _res(x):
        if isinstance(x, ast.Name) and x.id != p_arr:
            dd = _def(e, x.id)
            return dd[0].value if len(dd) == 1 else x
        return x
    views = [c_ for c_ in calls_in(e) if call_attr(c_) == "view" and isinstance(c_.func.value, ast.Call) and call_attr(c_.func.value) == "byteswap" and dotted(c_.func.value.func.value) == p_arr
             and len(c_.args) == 1 and unparse(_res(c_.args[0])) == "%s.dtype.newbyteorder('=')" % p_arr]
    handed = False
    for v_ in views:
        st_ = enclosing_stmt(v_)
        if isinstance(st_, ast.Return) and st_.value is v_:
            handed = True
        if isinstance(st_, ast.Assign) and st_.value is v_ and any(isinstance(r_.value, ast.Name) and r_.value.id in stores_to(st_) for r_ in nodes_of_type(e, ast.Return)):
            handed = True
    ctx.check(handed, views[0] if views else e, "swap = byteswap + view with native dtype (values preserved)")
    pr = ctx.repo.func(NPU, "_is_numpy_array_byte_order_mismatch")
    rets_ = nodes_of_type(pr, ast.Return)
    if len(rets_) != 1 or rets_[0].value is None:
        raise Undecidable("the byte-order predicate no longer returns one boolean expression (shape not recognised)")
    else:
        # finite truth table: the predicate's own expression is interpreted over (host order) x (dtype.byteorder) x (field orders)
        arg = pr.args.args[0].arg
        class _Unknown(Exception):
            pass

        def ev(e, env):
            if isinstance(e, ast.Constant):
                return e.value
            if isinstance(e, ast.BoolOp):
                v = None
                for x in e.values:
                    v = ev(x, env)
                    if isinstance(e.op, ast.And) and not v:
                        return v
                    if isinstance(e.op, ast.Or) and v:
                        return v
                return v
            if isinstance(e, ast.UnaryOp) and isinstance(e.op, ast.Not):
                return not ev(e.operand, env)
            if isinstance(e, ast.IfExp):
                return ev(e.body, env) if ev(e.test, env) else ev(e.orelse, env)
            if isinstance(e, ast.Call) and call_name(e) == "bool" and len(e.args) == 1:
                return bool(ev(e.args[0], env))
            if isinstance(e, ast.Compare) and len(e.ops) == 1:
                l, r = ev(e.left, env), ev(e.comparators[0], env)
                op = e.ops[0]
                if isinstance(op, ast.Eq):
                    return l == r
                if isinstance(op, ast.NotEq):
                    return l != r
                if isinstance(op, ast.In):
                    return l in r
                if isinstance(op, ast.NotIn):
                    return l not in r
                if isinstance(op, ast.Is):
                    return l is r
                if isinstance(op, ast.IsNot):
                    return l is not r
                raise _Unknown(unparse(e))
            if isinstance(e, (ast.Tuple, ast.List, ast.Set)):
                return tuple(ev(x, env) for x in e.elts)
            txt = ast.unparse(e)
            if txt in env:
                return env[txt]
            if isinstance(e, ast.Name):
                d_ = [a_ for a_ in nodes_of_type(pr, ast.Assign) if e.id in stores_to(a_)]
                if len(d_) == 1:
                    return ev(d_[0].value, env)
            if isinstance(e, ast.Call) and call_name(e) in ("all", "any") and len(e.args) == 1 and isinstance(e.args[0], ast.GeneratorExp) and len(e.args[0].generators) == 1:
                gen = e.args[0].generators[0]
                it = ast.unparse(gen.iter)
                if it != arg + ".dtype.fields.values()" or not isinstance(gen.target, ast.Name) or gen.ifs:
                    raise _Unknown(it)
                fields = env[arg + ".dtype.fields"]
                vals = []
                for fbo in fields:
                    env2 = dict(env)
                    env2[gen.target.id + "[0].byteorder"] = fbo
                    env2[gen.target.id + "[0].str[0]"] = fbo
                    vals.append(bool(ev(e.args[0].elt, env2)))
                return all(vals) if call_name(e) == "all" else any(vals)
            raise _Unknown(txt)

        table_bad, n_rows = [], 0
        try:
            for host in ("big", "little"):
                foreign = "<" if host == "big" else ">"
                for bo in ("<", ">", "=", "|"):
                    for fields in (None, ("<", "<"), (">", ">"), ("<", ">"), ("=", "="), ("=", foreign)):
                        if bo != "|" and fields is not None:
                            continue
                        env = {"sys.byteorder": host, arg + ".dtype.byteorder": bo, arg + ".dtype.fields": fields}
                        got = bool(ev(rets_[0].value, env))
                        want = bo == foreign or (bo == "|" and bool(fields) and all(f == foreign for f in fields))
                        n_rows += 1
                        if got != want:
                            table_bad.append((host, bo, fields, got))
            ctx.check(not table_bad, rets_[0], "byte-order predicate agrees with its specification on all %d rows of (host order x dtype order x field orders): foreign order, or a struct whose fields are ALL foreign" % n_rows,
                      "the byte-order predicate is wrong for (host, dtype.byteorder, field orders) = %s: arrays are byte-swapped when they must not be, or left foreign" % table_bad[:3])
        except _Unknown as u_:
            raise Undecidable("the byte-order predicate reads `%s`, which the table does not model" % u_)
        except Exception as u_:
            ctx.bad(rets_[0], "the byte-order predicate cannot be evaluated on the table (%s: %s): e.g. a field entry is indexed at the wrong position" % (type(u_).__name__, u_), key=NPU + "::_is_numpy_array_byte_order_mismatch::inputs")
    en = ctx.repo.func(NPU, "_ensure_native_byte_order")
    t_ = [n for n in nodes_of_type(en, ast.If) if isinstance(n.test, ast.Call) and call_name(n.test) == "_is_numpy_array_byte_order_mismatch"]
    ctx.check(bool(t_), t_[0] if t_ else en, "the swap is applied iff the predicate holds")
    rd = F(ctx, W + ".read")
    asr = [n for n in body_walk(rd) if isinstance(n, ast.Assert)]
    ctx.check(bool(asr) and unparse(asr[0].test) == "not ensure_native_byte_order", asr[0] if asr else rd, "memory-mapped reads assert that no byte-order coercion was requested")


def mmap_gate(ctx):
    rd = F(ctx, W + ".read")
    g = cfg_of(rd)
    sub = [n for n in nodes_of_type(rd, ast.If) if "self.subclass" in unparse(n.test, 300)]
    ctx.check(len(sub) == 1, sub[0] if sub else rd, "read() has one subclass test")
    if sub:
        fc = cond_facts([(sub[0], sub[0].test, True)])
        ctx.check(len(fc) == 2 and ("hasattr(array, '__array_prepare__')", True) in fc and any(((f[0].startswith("self.subclass in ") and not f[1]) or (f[0].startswith("self.subclass not in ") and f[1])) and "ndarray" in f[0] and "memmap" in f[0] for f in fc), sub[0],
                  "another subclass is rebuilt only when the stored class is neither ndarray nor memmap", "the subclass is rebuilt under %s" % fc)
        rb = [x for x in nodes_of_type(rd, ast.Return)]
        plain = [x for x in rb if dotted(x.value) == "array"]
        ctx.check(bool(plain) and all(any(i is sub[0] and not pol for (i, _, pol) in g.conditions_at(g.nodes_of(x))) for x in plain), plain[0] if plain else rd, "plain arrays and memmaps are returned as read")
        prep = [x for x in rb if isinstance(x.value, ast.Call) and call_attr(x.value) == "__array_prepare__"]
        ctx.check(bool(prep) and all(dotted(x.value.args[0]) == "array" for x in prep), prep[0] if prep else sub[0], "a subclass instance is prepared from the array that was read")
        rc = [c for c in calls_in(rd) if (call_name(c) or "").endswith("_reconstruct")]
        ctx.check(bool(rc) and dotted(rc[0].args[0]) == "self.subclass", rc[0] if rc else sub[0], "of the stored subclass")
    mm = [c for c in calls_in(rd) if call_name(c) == "self.read_mmap"]
    ra = [c for c in calls_in(rd) if call_name(c) == "self.read_array"]
    if not (mm and ra):
        ctx.bad(rd, "read() no longer obtains the array from both read_mmap (memory-mapped) and read_array (copied)", key=NP + "::NumpyArrayWrapper.read::mmap or copy")
        return
    cm = sorted(g.fact_set(g.nodes_of(mm[0])))
    ctx.check(cm == [("self.allow_mmap", True), ("unpickler.mmap_mode is None", False)], mm[0], "memory-map iff a mode was validated and the wrapper allows it", "read_mmap is chosen under %s" % cm)
    ctx.check([(unparse(t), pol) for (_, t, pol) in g.conditions_at(g.nodes_of(ra[0]))] == [("unpickler.mmap_mode is not None and self.allow_mmap", False)], ra[0], "otherwise read the bytes")
    ctx.check([dotted(a) for a in ra[0].args] == ["unpickler", "ensure_native_byte_order"], ra[0], "read_array gets the unpickler and the flag")
    v = ctx.repo.func(NPU, "_validate_fileobject_and_memmap")
    gv = cfg_of(v)
    sets = [a for a in nodes_of_type(v, ast.Assign) if "validated_mmap_mode" in stores_to(a)]
    keep = [a for a in sets if dotted(a.value) == "mmap_mode"]
    ctx.check(len(keep) == 2, keep[0] if keep else v, "the mode survives validation only on the default path and the raw-uncompressed-file branch")
    inner = [a for a in keep if len(gv.conditions_at(gv.nodes_of(a))) > 1]
    for a in inner:
        from ..core import cond_holds
        cl_ = gv.conditions_at(gv.nodes_of(a))
        conds = {unparse(t): pol for (_, t, pol) in cl_}
        ctx.check(cond_holds(cl_, "isinstance(fileobj, io.BytesIO)", False) and cond_holds(cl_, "compressor != 'not-compressed'", False) and cond_holds(cl_, "_is_raw_file(fileobj)", True), a,
                  "kept only for uncompressed, on-disk, raw files", "mmap_mode is kept under %s" % conds)
    nul = [a for a in sets if is_const(a.value, None)]
    ctx.check(bool(nul), nul[0] if nul else v, "and nulled first whenever a mode was requested")
    # ... and it is the VALIDATED mode that reaches the unpickler, in both loaders
    for q_ in ("load", "load_temporary_memmap"):
        fn_ = ctx.repo.func(NP, q_)
        for w_ in nodes_of_type(fn_, ast.With):
            for it in w_.items:
                if isinstance(it.context_expr, ast.Call) and call_name(it.context_expr) == "_validate_fileobject_and_memmap":
                    ov = it.optional_vars
                    second = ov.elts[1] if isinstance(ov, ast.Tuple) and len(ov.elts) == 2 and isinstance(ov.elts[1], ast.Name) else None
                    ups = [c_ for c_ in calls_in(ast.Module(body=w_.body, type_ignores=[])) if call_name(c_) == "_unpickle"]
                    for u_ in ups:
                        mm_ = kwarg(u_, "mmap_mode", 3)
                        if mm_ is None:
                            ctx.ok(u_, "%s: this _unpickle call does not memory-map" % q_)
                        else:
                            ctx.check(second is not None and dotted(mm_) == second.id and second.id != "_", u_, "%s hands the validated mode (`%s`) to the unpickler" % (q_, second.id if second is not None else "?"),
                                      "%s hands `%s` to _unpickle instead of the mode validated for this file: a compressed or in-memory file is memory-mapped at offsets of the decompressed stream (garbage arrays)" % (q_, unparse(mm_)))
    for a in nul:
        fc = cond_facts([c_ for c_ in gv.conditions_at(gv.nodes_of(a)) if "mmap_mode" in unparse(c_[1])])
        ctx.check(fc == [("mmap_mode is not None", True)] or fc == [("mmap_mode is None", False)], a, "the validation branch is entered exactly when a mode was requested", "the mode is validated under %s: a requested mode skips the validation (a compressed or in-memory file would be memory-mapped)" % fc)
    rf = ctx.repo.func(NPU, "_is_raw_file")
    rr = [r for r in nodes_of_type(rf, ast.Return)]
    un = [a for a in nodes_of_type(rf, ast.Assign) if isinstance(a.value, ast.Call) and call_name(a.value) == "getattr" and const_value(a.value.args[1]) == "raw"]
    ok = len(rr) == 1 and isinstance(rr[0].value, ast.Call) and call_name(rr[0].value) == "isinstance" and unparse(rr[0].value.args[1]) == "io.FileIO" and bool(un) and dotted(rr[0].value.args[0]) == un[0].targets[0].id
    ctx.check(ok, rr[0] if rr else rf, "a file is 'raw' when it, or the raw stream it buffers, is an io.FileIO (files from open() are buffered)", "_is_raw_file no longer looks through the buffering layer: no file opened with open() is ever memory-mapped")


def reduce(ctx):
    f = ctx.repo.func(MR, "_reduce_memmap_backed")
    tgt = ctx.repo.func(MR, "_strided_from_memmap")
    r = [r for r in nodes_of_type(f, ast.Return) if isinstance(r.value, ast.Tuple)]
    ctx.need(r, "_reduce_memmap_backed return tuple not found")
    fn_, args = r[0].value.elts
    params = [a.arg for a in tgt.args.args]
    ctx.check(dotted(fn_) == "_strided_from_memmap" and isinstance(args, ast.Tuple) and len(args.elts) == len(params), r[0], "reduce tuple has one value per parameter of _strided_from_memmap (%d)" % len(params),
              "reduce tuple arity %s != %d parameters" % (len(args.elts) if isinstance(args, ast.Tuple) else "?", len(params)))
    if isinstance(args, ast.Tuple) and len(args.elts) == len(params):
        want = {"filename": "m.filename", "dtype": "a.dtype", "mode": "m.mode", "offset": "offset", "order": "order", "shape": "a.shape", "strides": "strides", "total_buffer_len": "total_buffer_len"}
        for p, e in zip(params, args.elts):
            if p in want:
                ctx.check(unparse(e) == want[p], e, "slot %s <- %s" % (p, want[p]), "slot %s receives %s (expected %s): the view is rebuilt on the wrong %s" % (p, unparse(e), want[p], p))
            else:
                ctx.check(isinstance(e, ast.Constant), e, "slot %s <- constant %s" % (p, unparse(e)))
    off = [a for a in nodes_of_type(f, ast.Assign) if "offset" in stores_to(a)]
    offa = [a for a in nodes_of_type(f, ast.AugAssign) if dotted(a.target) == "offset"]
    two_steps = bool(off) and unparse(off[0].value) == "a_start - m_start" and bool(offa) and unparse(offa[0].value) == "m.offset" and isinstance(offa[0].op, ast.Add)
    one_step = len(off) == 1 and not offa and unparse(off[0].value) in ("a_start - m_start + m.offset", "m.offset + (a_start - m_start)", "m.offset + a_start - m_start", "a_start + m.offset - m_start")
    ctx.check(two_steps or one_step, off[0] if off else f, "offset = (start of a - start of m) + m.offset")
    # _strided_from_memmap forwards to make_memmap
    for c in calls_in(tgt):
        if call_name(c) == "make_memmap":
            for k in ("dtype", "mode", "offset", "order", "unlink_on_gc_collect"):
                kv_ = kwarg(c, k)
                if k == "mode" and isinstance(kv_, ast.IfExp) and names_in(kv_) == {"mode"}:
                    continue  # inline 'w+' -> 'r+' coercion, judged below
                ctx.check(dotted(kwarg(c, k)) == k, c, "make_memmap %s=%s" % (k, k), "make_memmap gets %s=%s" % (k, unparse(kwarg(c, k)) if kwarg(c, k) is not None else None))
            ctx.check(dotted(c.args[0]) == "filename", c, "on the same file")
    gt = cfg_of(tgt)
    coerce = [n for n in nodes_of_type(tgt, ast.If) if unparse(n.test) == "mode == 'w+'" and any(unparse(s_) == "mode = 'r+'" for s_ in n.body)]
    for c in [c for c in calls_in(tgt) if call_name(c) == "make_memmap"]:
        mv = kwarg(c, "mode")
        inline = isinstance(mv, ast.IfExp) and "'w+'" in unparse(mv) and "'r+'" in unparse(mv)
        ctx.check(inline or (bool(coerce) and gt.every_path_to(gt.nodes_of(c), gt.nodes_of_all(coerce))), c, "mode 'w+' is coerced to 'r+' before this memmap is (re)opened (the data is not zeroed in the worker)",
                  "this make_memmap call can receive mode 'w+': re-opening the file in the worker truncates and zeroes the parent's data")
    ast_ = [c for c in calls_in(tgt) if call_name(c) == "as_strided"]
    ctx.check(bool(ast_) and dotted(kwarg(ast_[0], "shape")) == "shape" and dotted(kwarg(ast_[0], "strides")) == "strides", ast_[0] if ast_ else tgt, "non-contiguous views are rebuilt with the original shape and strides")
    # branch table of the reducer pair (each value chosen under its own flag)
    gf_ = cfg_of(f)
    for a_ in [x for x in nodes_of_type(f, ast.Assign) if "order" in stores_to(x)]:
        fc = cond_facts(gf_.conditions_at(gf_.nodes_of(a_)))
        v_ = const_value(a_.value)
        ctx.check((v_ == "F" and fc == [("m.flags['F_CONTIGUOUS']", True)]) or (v_ == "C" and fc == [("m.flags['F_CONTIGUOUS']", False)]), a_, "order=%r exactly when the backing memmap %s Fortran-contiguous" % (v_, "is" if v_ == "F" else "is not"),
                  "order=%r is chosen under %s" % (v_, fc))
    for a_ in [x for x in nodes_of_type(f, ast.Assign) if "strides" in stores_to(x)]:
        fc = cond_facts(gf_.conditions_at(gf_.nodes_of(a_)))
        contiguous = {("a.flags['F_CONTIGUOUS']", False), ("a.flags['C_CONTIGUOUS']", False)}
        if is_const(a_.value, None):
            ctx.check(fc == [("a.flags['F_CONTIGUOUS'] or a.flags['C_CONTIGUOUS']", True)], a_, "no strides are shipped only for a contiguous view", "strides=None is chosen under %s: a non-contiguous view is rebuilt as a contiguous block (wrong elements)" % fc)
        else:
            ctx.check(unparse(a_.value) == "a.strides" and set(fc) == contiguous, a_, "a non-contiguous view ships its own strides", "strides=%s is chosen under %s" % (unparse(a_.value), fc))
    tb = [x for x in nodes_of_type(f, ast.Assign) if "total_buffer_len" in stores_to(x) and not is_const(x.value, None)]
    ctx.check(bool(tb) and unparse(tb[0].value) == "(a_end - a_start) // a.itemsize", tb[0] if tb else f, "the enclosing buffer spans the view's byte bounds, in items")
    gt0 = cfg_of(tgt)
    for rt_ in nodes_of_type(tgt, ast.Return):
        fc = cond_facts(gt0.conditions_at(gt0.nodes_of(rt_)))
        strided = isinstance(rt_.value, ast.Call) and call_name(rt_.value) == "as_strided"
        ctx.check(fc == [("strides is None", not strided)], rt_, "%s exactly when strides %s given" % ("as_strided view" if strided else "plain memmap", "are" if strided else "are not"),
                  "_strided_from_memmap returns %s under %s" % ("the strided view" if strided else "the plain memmap", fc))
    bm = ctx.repo.func(MR, "_get_backing_memmap")
    gb = cfg_of(bm)
    for rt_ in nodes_of_type(bm, ast.Return):
        fc = cond_facts(gb.conditions_at(gb.nodes_of(rt_)))
        v_ = unparse(rt_.value)
        if v_ == "None":
            ctx.check(fc == [("b is None", True)], rt_, "no base => not memmap-backed", "_get_backing_memmap returns None under %s" % fc)
        elif v_ == bm.args.args[0].arg:
            ctx.check(("isinstance(b, mmap)", True) in fc and ("b is None", False) in fc, rt_, "base is a raw mmap => the array itself is the memmap", "_get_backing_memmap returns the array itself under %s" % fc)
        else:
            ctx.check(v_ == "_get_backing_memmap(b)" and ("isinstance(b, mmap)", False) in fc, rt_, "otherwise the base chain is followed", "_get_backing_memmap returns %s under %s" % (v_, fc))
    bw = ctx.repo.func(MR, "reduce_array_memmap_backward")
    gw_ = cfg_of(bw)
    for rt_ in nodes_of_type(bw, ast.Return):
        fc = cond_facts(gw_.conditions_at(gw_.nodes_of(rt_)))
        if isinstance(rt_.value, ast.Call) and call_name(rt_.value) == "_reduce_memmap_backed":
            ctx.check(set(fc) == {("isinstance(m, np.memmap)", True), ("m.filename in JOBLIB_MMAPS", False)} or set(fc) == {("isinstance(m, np.memmap)", True), ("m.filename not in JOBLIB_MMAPS", True)}, rt_,
                      "a worker result backed by a user's memmap file is sent back as a reference to that file", "the by-reference reduction is chosen under %s" % fc)
        else:
            ctx.check("np.asarray(a)" in unparse(rt_.value, 300), rt_, "anything else (plain arrays, joblib's own temporary memmaps) is sent back by value")
    fw = ctx.repo.func(MR, "ArrayMemmapForwardReducer.__call__")
    lt = ctx.repo.func(NP, "load_temporary_memmap")
    rr = [r_ for r_ in nodes_of_type(fw, ast.Return) if isinstance(r_.value, ast.Tuple) and dotted(r_.value.elts[0]) == "load_temporary_memmap"]
    ctx.check(bool(rr) and [unparse(e) for e in rr[0].value.elts[1].elts] == ["filename", "self._mmap_mode", "self._unlink_on_gc_collect"] and [a.arg for a in lt.args.args] == ["filename", "mmap_mode", "unlink_on_gc_collect"],
              rr[0] if rr else fw, "forward reducer -> load_temporary_memmap(filename, mmap_mode, unlink_on_gc_collect): arity and order agree")
    gm = ctx.repo.func(MR, "get_memmapping_reducers")
    reg = {}
    for a in nodes_of_type(gm, ast.Assign):
        t = a.targets[0]
        if isinstance(t, ast.Subscript) and dotted(t.value) in ("forward_reducers", "backward_reducers"):
            reg[(dotted(t.value), unparse(t.slice))] = dotted(a.value)
    want = {("forward_reducers", "np.ndarray"): "forward_reduce_ndarray", ("forward_reducers", "np.memmap"): "forward_reduce_ndarray",
            ("backward_reducers", "np.ndarray"): "reduce_array_memmap_backward", ("backward_reducers", "np.memmap"): "reduce_array_memmap_backward"}
    ctx.check(reg == want, gm, "forward and backward reducers are registered for both np.ndarray and np.memmap", "reducer registration is %s" % reg)
    ctor = [c for c in calls_in(gm) if call_name(c) == "ArrayMemmapForwardReducer"]
    init = ctx.repo.func(MR, "ArrayMemmapForwardReducer.__init__")
    ip = [a.arg for a in init.args.args][1:]
    ctx.check(bool(ctor) and [dotted(a) for a in ctor[0].args] == ip[:len(ctor[0].args)], ctor[0] if ctor else gm, "reducer constructed with arguments in signature order (%s)" % ip[:5], "ArrayMemmapForwardReducer(%s) does not match %s" % ([dotted(a) for a in ctor[0].args] if ctor else None, ip))
    red = ctx.repo.func(MR, "ArrayMemmapForwardReducer.__reduce__")
    a = [x for x in nodes_of_type(red, ast.Assign) if "args" in stores_to(x)]
    ctx.check(bool(a) and [unparse(e) for e in a[0].value.elts] == ["self._max_nbytes", "None", "self._mmap_mode", "self._unlink_on_gc_collect"], a[0] if a else red, "the reducer itself pickles as (max_nbytes, None, mmap_mode, unlink_on_gc_collect)")


def threshold(ctx):
    f = ctx.repo.func(MR, "ArrayMemmapForwardReducer.__call__")
    g = cfg_of(f)
    t = [n for n in nodes_of_type(f, ast.If) if "a.nbytes" in unparse(n.test)]
    ctx.need(t, "size threshold test not found")
    conj = sorted(unparse(v) for v in t[0].test.values) if isinstance(t[0].test, ast.BoolOp) and isinstance(t[0].test.op, ast.And) else [unparse(t[0].test)]
    from ..core import same_items
    ctx.check(same_items(conj, ["not a.dtype.hasobject", "self._max_nbytes is not None", "a.nbytes > self._max_nbytes"]), t[0], "memmap iff not hasobject and a threshold is set and nbytes > threshold", "memmapping is chosen under %s" % conj)
    els = [r for r in nodes_of_type(f, ast.Return) if any(c_[0] is t[0] and c_[-1] is False for c_ in g.conditions_at(g.nodes_of(r)))]
    ctx.check(bool(els) and "dumps(a, protocol=HIGHEST_PROTOCOL)" in unparse(els[0].value), els[0] if els else t[0], "otherwise the array is pickled by value")
    d = [c for c in calls_in(t[0]) if call_name(c) == "dump"]
    ctx.check(bool(d) and [dotted(x) for x in d[0].args] == ["a", "filename"], d[0] if d else t[0], "the array itself is dumped to the temporary file")
    if d:
        from ..core import cond_holds
        ctx.check(cond_holds(g.conditions_at(g.nodes_of(d[0])), "os.path.exists(filename)", False), d[0], "once per file")
    bm = [n for n in nodes_of_type(f, ast.If) if unparse(n.test) == "m is not None and isinstance(m, np.memmap)"]
    ctx.check(bool(bm) and any(isinstance(s_, ast.Return) and unparse(s_.value) == "_reduce_memmap_backed(a, m)" for s_ in bm[0].body), bm[0] if bm else f, "arrays already backed by a memmap are passed by reference")
    fl = [a for a in nodes_of_type(f, ast.Assign) if "filename" in stores_to(a)]
    ctx.check(bool(fl) and unparse(fl[0].value) == "os.path.join(self._temp_folder, basename)", fl[0] if fl else f, "the file lives in the call's temporary folder")


def weakmap(ctx):
    """_WeakArrayKeyMap (array -> temporary file name) is keyed by id(): an entry is valid only for the very
    object that created it (ids are reused after garbage collection)."""
    g_ = ctx.repo.func(MR, "_WeakArrayKeyMap.get")
    gg = cfg_of(g_)
    rets = nodes_of_type(g_, ast.Return)
    arg = g_.args.args[1].arg

    def identity_guard(fn, g):
        """an `if` raising KeyError exactly when the weak reference no longer denotes the looked-up object"""
        out = []
        for n in nodes_of_type(fn, ast.If):
            for r in [x for x in walk_local(n) if isinstance(x, ast.Raise) and x.exc is not None and call_name(x.exc) == "KeyError"]:
                facts = cond_facts([c_ for c_ in g.conditions_at(g.nodes_of(r)) if c_[0] is n])
                if ("ref() is not %s" % arg, True) in facts or ("ref() is %s" % arg, False) in facts:
                    out.append(n)
        return out
    chk = identity_guard(g_, gg)
    id_ok = bool(chk) and all(gg.every_path_to(gg.nodes_of(r), gg.nodes_of_all(chk)) for r in rets)
    s_ = ctx.repo.func(MR, "_WeakArrayKeyMap.set")
    refs = [c for c in calls_in(s_) if call_name(c) == "weakref.ref"]
    cb = [n for n in nodes_of_type(s_, ast.FunctionDef)]
    purge_ok = bool(refs) and all(len(c.args) == 2 and isinstance(c.args[1], ast.Name) and any(f_.name == c.args[1].id for f_ in cb) for c in refs) and \
        bool(cb) and any(isinstance(x, ast.Delete) and "self._data[key]" in unparse(x) for x in ast.walk(cb[0]))
    # either safeguard alone keeps a recycled id from being served another array's file (CPython runs the weakref
    # callback before the id can be reused; with the identity test a stale entry is simply not believed): the clause is
    # violated only when neither is in place
    if id_ok and purge_ok:
        ctx.ok(chk[0], "get() believes an entry only if its weak reference still denotes the SAME object, and set() purges the entry when the array dies")
    elif id_ok or purge_ok:
        ctx.ok(chk[0] if id_ok else refs[0], "one of the two safeguards against recycled ids is in place (%s); the other is gone" % ("identity test in get()" if id_ok else "purge on destruction"))
    else:
        ctx.bad(g_, "get() trusts id(obj) (no identity test, or an inverted one) and set() does not purge entries of dead arrays: after the original array was collected, a new array "
                    "with a recycled id is served the old array's memmap file (workers see another array's data)", key=MR + "::_WeakArrayKeyMap::recycled ids")
    ds = [a_ for a_ in ast.walk(s_) if isinstance(a_, ast.Assign) and isinstance(a_.targets[0], ast.Subscript) and dotted(a_.targets[0].value) == "self._data"]
    gs = cfg_of(s_)
    ctx.check(bool(ds) and gs.every_path_from([gs.entry], gs.nodes_of_all([d_ for d_ in ds if enclosing_func(d_) is s_]), None, skip_exc=True), ds[0] if ds else s_, "set() records the (reference, value) pair on every normal path",
              "set() can return without recording the entry: the array is dumped again on every dispatch under a new name (or never found)")
    if ds:
        v = ds[0].value
        ctx.check(isinstance(v, ast.Tuple) and len(v.elts) == 2 and dotted(v.elts[1]) == s_.args.args[2].arg, ds[0], "the value recorded is the one given")
    fw = ctx.repo.func(MR, "ArrayMemmapForwardReducer.__call__")
    gt = [c for c in calls_in(fw) if call_name(c) == "self._memmaped_arrays.get"]
    st = [c for c in calls_in(fw) if call_name(c) == "self._memmaped_arrays.set"]
    ctx.check(bool(gt) and bool(st) and dotted(gt[0].args[0]) == "a" and [dotted(x) for x in st[0].args] == ["a", "basename"], gt[0] if gt else fw, "the reducer looks the array itself up and records the array itself")
    hs = [h for a_ in ancestors(gt[0]) if isinstance(a_, ast.Try) for h in a_.handlers] if gt else []
    ctx.check(any(unparse(h.type) == "KeyError" for h in hs), gt[0] if gt else fw, "an unknown (or recycled-id) array gets a fresh unique file name")
    bn = [a for a in nodes_of_type(fw, ast.Assign) if "basename" in stores_to(a) and isinstance(a.value, ast.Call) and call_attr(a.value) == "format"]
    ctx.check(bool(bn) and "uuid4().hex" in unparse(bn[0].value) and "os.getpid()" in unparse(bn[0].value), bn[0] if bn else fw, "fresh names contain the pid and a uuid (no two arrays share a file)")


def compat_absence(ctx):
    """Files written by older versions are recognised by the ABSENCE of an instance attribute on the un-pickled wrapper
    (pickle restores __dict__ without calling __init__): readers probe it with getattr(self, name, default) / hasattr.
    A class-level attribute of that name answers the probe for every old file with the new default - the reader then
    expects a padding byte the old writer never wrote and reads the payload from a shifted offset."""
    cls = ctx.repo.cls(NP, W)
    probed = {}
    for fn in [st for st in cls.body if isinstance(st, ast.FunctionDef)]:
        for c in calls_in(fn):
            if call_name(c) in ("getattr", "hasattr") and len(c.args) >= 2 and dotted(c.args[0]) == "self" and isinstance(c.args[1], ast.Constant) and (call_name(c) == "hasattr" or len(c.args) == 3):
                probed[c.args[1].value] = c
    ctx.floor(len(probed), 1, "attributes whose absence marks an old file")
    class_level = {}
    for st in cls.body:
        if isinstance(st, (ast.Assign, ast.AnnAssign)):
            if isinstance(st, ast.AnnAssign) and st.value is None:
                continue
            for t in stores_to(st):
                class_level[t] = st
    for name, probe in probed.items():
        ctx.check(name not in class_level, class_level.get(name, probe), "`%s` exists on an instance only if the writer stored it (absence = file of an older version)" % name,
                  "`%s` is also defined at class level: the probe `%s` can no longer tell a file of an older version (which has no such attribute) from a current one - "
                  "the old layout is read with the new default" % (name, unparse(probe, 70)))


def dump_fail_propagates(ctx):
    """The file name handed to the workers (load_temporary_memmap) must denote a COMPLETE dump. The name is memoised per
    array and an existing file is re-used without looking inside, so a dump that failed half-way may not be survived: every
    handler around `dump(a, filename)` re-raises on every path (or the clause is undecidable if it cleans up in a way this
    rule does not model)."""
    f = F(ctx, "ArrayMemmapForwardReducer.__call__", MR)
    g = cfg_of(f)
    ds = [c for c in calls_in(f) if call_name(c) == "dump" and len(c.args) >= 2 and dotted(c.args[1]) == "filename"]
    ctx.need(ds, "dump(a, filename) not found in the forward reducer")
    for d in ds:
        swallowed = None
        child = d
        for a_ in ancestors(d):
            if a_ is f:
                break
            if isinstance(a_, ast.Try) and in_block(child, a_.body):
                for h in a_.handlers:
                    hn = g.nodes_of(h)
                    raises = [n.id for n in g.nodes if isinstance(n.ast, ast.Raise)]
                    r = g.reach([t for n_ in hn for (t, lab) in g.nodes[n_].succ], avoid=raises)
                    if g.exit in r:          # the handler can be left other than by raising (return / fall through)
                        swallowed = h
            child = a_
        ctx.check(swallowed is None, swallowed if swallowed is not None else d, "a failing dump of the array propagates (no partial file is ever advertised)",
                  "a handler around `dump(a, filename)` can complete without re-raising: the partly written file stays under the name memoised for this array and is re-used "
                  "as a complete dump for the next task that receives the array")
    ex = [c for c in calls_in(f) if call_name(c) == "os.path.exists" and c.args and dotted(c.args[0]) == "filename"]
    ctx.check(bool(ex), ex[0] if ex else f, "an existing file is re-used as is (which is why only complete files may exist)")


def temp_folder_live(ctx):
    """Each Parallel call gets its own temporary folder from the resources manager; the reducer lives as long as the
    (re-used) executor. The folder must therefore be resolved at every use: a reducer that remembers the first answer keeps
    writing to - and re-using files of - a folder of an earlier call (same array object, same memoised basename => the
    stale file is handed out although the array was modified in between)."""
    cls = ctx.repo.cls(MR, "ArrayMemmapForwardReducer")
    prop = [st for st in cls.body if isinstance(st, ast.FunctionDef) and st.name == "_temp_folder"]
    ctx.need(prop, "ArrayMemmapForwardReducer._temp_folder not found")
    fn = prop[0]
    rets = nodes_of_type(fn, ast.Return)
    ctx.need(rets, "_temp_folder has no return")
    for r in rets:
        v = r.value
        if isinstance(v, ast.Name):
            d = _def(fn, v.id)
            v = d[0].value if len(d) == 1 else v
        ctx.check(isinstance(v, ast.Call) and call_name(v) == "self._temp_folder_resolver" and not v.args, r, "the temporary folder is asked from the resolver at every use",
                  "_temp_folder returns `%s`, not a fresh answer of the resolver: the folder of an earlier call keeps being used" % unparse(r.value, 60))
    kept = [a for a in nodes_of_type(fn, (ast.Assign, ast.AugAssign)) if any(t.startswith("self.") for t in stores_to(a))]
    ctx.check(not kept, kept[0] if kept else fn, "the property stores nothing on the reducer", "the property remembers its answer (`%s`)" % (unparse(kept[0], 60) if kept else ""))


def run(ctx):
    ctx.run("C19.COMPAT-ABSENCE", "R-DUAL", compat_absence)
    ctx.run("C19.DUMP-FAIL-PROPAGATES", "R-ERRDISC", dump_fail_propagates)
    ctx.run("C19.TEMP-FOLDER-LIVE", "R-WHO", temp_folder_live)
    ctx.run("C19.WEAKMAP", "R-WHO", weakmap)
    ctx.run("C19.INTERCEPT", "R-TABLE/R-ORDER", intercept)
    ctx.run("C19.META", "R-FLOW", meta)
    ctx.run("C19.IO-DUAL", "R-DUAL", io_dual)
    from . import zf
    ctx.run("C14.EXACT", "R-ORDER", zf.exact)
    ctx.run("C19.ALIGN", "R-ARITH", align)
    ctx.run("C19.ORDER", "R-DUAL", order)
    ctx.run("C19.BYTEORDER", "R-ORDER", byteorder)
    ctx.run("C19.MMAP-GATE", "R-ORDER", mmap_gate)
    ctx.run("C19.REDUCE", "R-DUAL", reduce)
    ctx.run("C19.THRESHOLD", "R-ORDER", threshold)
