"""C03 - dump/load round-trips every picklable object under every compressor/target."""

from . import zf

PROPERTY = "C03"
EXPLANATION = (
    "Only TABLE AGREEMENT is decided statically for C03: every registered compressor has a non-empty bytes prefix and a "
    "distinct extension, prefixes are pairwise non-overlapping and never start with the 0x80 PROTO opcode; each prefix is "
    "the magic number of the stream format its factory produces (frozen facts about zlib/gzip/bz2/lzma/xz/lz4 headers); "
    "the six wrappers open 'wb'/'rb' and forward the level under the factory's own keyword; protocol and (method, level) "
    "flow to every pickler/writer in dump; load recognises the format from the content only (who-may-call: no "
    "endswith/splitext on the load path); the compressed writer is closed by a with-statement and close() flushes. "
    "Round-trip EQUALITY of arbitrary objects is pickle's and the codecs' and is NOT claimed."
)
ASSUMPTIONS = [
    "frozen facts: zlib streams start with 0x78, gzip with 1f 8b, bz2 with 'BZ', xz with fd 37 7a 58 5a, lzma-alone with 5d 00, lz4 frames with 04 22 4d 18",
    "pickle round-trips picklable objects; for protocols 0/1 no pickle starts with a full registered prefix (first-byte overlaps ']' and 'B' are not followed by the prefix's second byte)",
]


def run(ctx):
    ctx.run("C03.REGISTRY", "R-TABLE", zf.registry)
    ctx.run("C03.MAGIC", "R-TABLE", zf.magic)
    ctx.run("C03.SIBLINGS", "R-SIBLING", zf.siblings)
    ctx.run("C03.DUMP-FLOW", "R-FLOW", zf.dump_flow)
    ctx.run("C13.REWIND", "R-TABLE", zf.rewind)
    ctx.run("C03.CLOSE", "R-ORDER", zf.close_clause)
    ctx.run("C14.NO-SWALLOW", "R-ERRDISC", zf.no_swallow)
    ctx.run("C03.ARG-RESOLUTION", "R-TABLE", zf.arg_resolution)
    from . import c19
    ctx.run("C19.INTERCEPT", "R-TABLE/R-ORDER", c19.intercept)
    ctx.run("C13.FLUSH", "R-ORDER", zf.flush)
    ctx.run("C13.OWNERSHIP", "R-WHO", zf.ownership)
    ctx.run("C13.PROGRESS", "R-PROGRESS", zf.progress)
    ctx.run("C13.CURSOR", "R-DUAL", zf.cursor)
    ctx.run("C13.POS", "R-ORDER", zf.pos)
    ctx.run("C14.EOF-NOT-DATA", "R-ORDER", zf.eof_not_data)
    ctx.run("C13.MODE-TYPESTATE", "R-WHO", zf.mode_typestate)
