"""Clauses over joblib/memory.py, _store_backends.py, disk.py, backports.py
shared by C02, C05, C06, C11, C12, C18."""

import ast

from ..cfg import cfg_of
from ..core import (
    ancestors, assigns_to, attrs_in, body_walk, call_attr, call_name, calls_in, const_value, dict_items, dotted,
    enclosing_func, enclosing_stmt, handler_catches, in_block, is_const, kwarg, mentions, names_in, nodes_of_type,
    parent, stores_to, unparse, walk_local, param_names, Undecidable,
)

MEM = "joblib/memory.py"
SB = "joblib/_store_backends.py"
DISK = "joblib/disk.py"
BP = "joblib/backports.py"
FI = "joblib/func_inspect.py"
HS = "joblib/hashing.py"

FINAL_NAMES = {"output.pkl", "metadata.json", "func_code.py"}


def M(ctx, q):
    return ctx.repo.func(MEM, q)


def S(ctx, q):
    return ctx.repo.func(SB, q)


def _local_def(fn, name):
    d = [a for a in nodes_of_type(fn, ast.Assign) if name in stores_to(a)]
    return d


def _path_const(expr, fn, depth=3):
    """Last constant path component of an os.path.join(...) expression,
    following single local definitions."""
    if isinstance(expr, ast.Name) and depth > 0:
        d = _local_def(fn, expr.id)
        if len(d) == 1:
            return _path_const(d[0].value, fn, depth - 1)
        return None
    if isinstance(expr, ast.Call) and call_name(expr) in ("os.path.join", "join") and expr.args:
        last = expr.args[-1]
        if isinstance(last, ast.Constant) and isinstance(last.value, str):
            return last.value
    return None


def _mode_of(call):
    m = kwarg(call, "mode", 1)
    return const_value(m) if m is not None else "r"


def _is_open(call, res):
    cn = call_name(call)
    if cn in ("self._open_item",):
        return True
    if cn == "open":
        return True
    return False


def write_opens(fn, res):
    out = []
    for c in calls_in(fn):
        if _is_open(c, res):
            mode = _mode_of(c)
            if isinstance(mode, str) and any(ch in mode for ch in "wax+"):
                out.append(c)
    return out


# ---------------------------------------------------------------------------
# C05
# ---------------------------------------------------------------------------

def _write_func_passed(fn):
    """If `fn` is a nested def passed as argument to a *concurrency_safe_write
    call of its parent: that call, else None."""
    par = enclosing_func(fn)
    if par is None:
        return None
    for c in calls_in(par):
        if call_attr(c) in ("_concurrency_safe_write", "concurrency_safe_write"):
            if any(dotted(a) == fn.name for a in c.args) or any(dotted(k.value) == fn.name for k in c.keywords):
                return c
    return None


def atomic_ownership(ctx):
    n = 0
    mixin = ctx.repo.cls(SB, "StoreBackendMixin")
    fns = [f for q, f in ctx.repo.mod(SB).funcs.items() if q.startswith(("StoreBackendMixin.", "FileSystemStoreBackend."))]
    for fn in fns:
        for c in write_opens(fn, ctx.res):
            n += 1
            target = c.args[0] if c.args else kwarg(c, "file")
            wf = _write_func_passed(fn)
            if wf is not None:
                params = [a.arg for a in fn.args.args]
                ok = len(params) >= 2 and dotted(target) == params[1]
                ctx.check(ok, c, "open-for-write inside the write function handed to the temp-and-rename helper; it opens the temporary name it is given",
                          "write function opens %s instead of the temporary name it is given" % unparse(target))
                # the helper call's destination is the final name
                dst = wf.args[1] if len(wf.args) > 1 else None
                name = _path_const(dst, enclosing_func(fn)) if dst is not None else None
                ctx.check(name in FINAL_NAMES, wf, "final name %r is produced only by rename of a complete temporary file" % name)
                continue
            name = _path_const(target, fn)
            if name == ".gitignore":
                ctx.ok(c, "exempt: .gitignore is never read back by joblib")
                continue
            if name in FINAL_NAMES:
                ctx.bad(c, "%s is (re)written in place under its final name: a kill or a concurrent reader in the middle of the write sees a torn file" % name)
            else:
                ctx.bad(c, "open-for-write of %s in the store outside the temp-and-rename helper" % unparse(target))
        for c in calls_in(fn):
            if call_name(c) == "numpy_pickle.dump" and len(c.args) >= 2:
                t = c.args[1]
                wf = _write_func_passed(fn)
                if wf is None:
                    ctx.bad(c, "numpy_pickle.dump into the store outside the temp-and-rename helper")
                else:
                    opened = [w for w in nodes_of_type(fn, ast.With) for it in w.items if it.optional_vars is not None and dotted(it.optional_vars) == dotted(t)]
                    ctx.check(bool(opened), c, "the result is pickled into the temporary file opened by the write function")
    ctx.floor(n, 3, "open-for-write sites in the store backend")
    # memory.py itself never opens store files for writing
    for q, fn in ctx.repo.mod(MEM).funcs.items():
        for c in write_opens(fn, ctx.res):
            ctx.bad(c, "memory.py opens a file for writing directly")


def publish_order(ctx):
    f = S(ctx, "StoreBackendMixin._concurrency_safe_write")
    g = cfg_of(f)
    w = [c for c in calls_in(f) if call_name(c) == "concurrency_safe_write"]
    mv = [c for c in calls_in(f) if call_name(c) == "self._move_item"]
    inlined = False
    if not w and mv and len(f.args.args) > 3:
        # the same helper with the module-level function inlined: the write function is called on a local whose single
        # definition extends the final name by a suffix holding the process id and the thread identity
        fin, wfp_ = f.args.args[2].arg, f.args.args[3].arg
        for c in [c for c in calls_in(f) if dotted(c.func) == wfp_ and len(c.args) == 2 and isinstance(c.args[1], ast.Name)]:
            dd = _local_def(f, c.args[1].id)
            if len(dd) != 1:
                continue
            v = dd[0].value
            txt = unparse(v, 400)
            ext = (isinstance(v, ast.Call) and isinstance(v.func, ast.Attribute) and v.func.attr == "format" and isinstance(v.func.value, ast.Constant)
                   and str(v.func.value.value).startswith("{}") and len(str(v.func.value.value)) > 2 and v.args and dotted(v.args[0]) == fin)
            tid = "get_ident()" in txt or "current_thread()" in txt or any(isinstance(a_, ast.Name) and len(_local_def(f, a_.id)) == 1 and
                  unparse(_local_def(f, a_.id)[0].value) in ("threading.get_ident()", "id(threading.current_thread())") for a_ in (v.args[1:] if isinstance(v, ast.Call) else []))
            if ext and "os.getpid()" in txt and tid and dotted(c.args[0]) == f.args.args[1].arg:
                inlined = True
                ctx.ok(c, "the helper writes a temporary file named final + '.thread-<id>-pid-<pid>' itself (module-level helper inlined)")
                for m_ in mv:
                    ctx.check(g.every_path_to(g.nodes_of(m_), g.nodes_of(c)), m_, "the temporary file is completely written (write function returned) before the rename")
                    ctx.check(len(m_.args) == 2 and dotted(m_.args[0]) == c.args[1].id and dotted(m_.args[1]) == fin, m_, "rename(temporary, final)", "rename arguments are %s" % unparse(m_))
                ctx.check(g.every_path_from([g.entry], g.nodes_of_all(mv)) and g.every_path_from([g.entry], g.nodes_of(c)), mv[0],
                          "every path of the helper writes the temporary file and renames it (no shortcut path)", "a path of _concurrency_safe_write skips the temporary file or the rename")
        others = [c for c in calls_in(f) if dotted(c.func) == wfp_ and not (len(c.args) == 2 and isinstance(c.args[1], ast.Name) and c.args[1].id != fin)]
        for c in others:
            ctx.bad(c, "the write function is called directly on the final name inside the helper: the file appears under its final name while it is being written")
    if not (w and mv) and not inlined:
        ctx.bad(f, "_concurrency_safe_write no longer writes a temporary file and renames it (%s missing): final names are not published atomically" % ("the rename" if w else "the temporary write"),
                key=SB + "::StoreBackendMixin._concurrency_safe_write::write-then-rename")
        return
    tmp = enclosing_stmt(w[0]) if w else None
    tname = tmp.targets[0].id if isinstance(tmp, ast.Assign) and isinstance(tmp.targets[0], ast.Name) else None
    for c in (mv if w else []):
        ctx.check(g.every_path_to(g.nodes_of(c), g.nodes_of_all(w)), c, "the temporary file is completely written (write function returned) before the rename")
        params = [a.arg for a in f.args.args]
        ctx.check(len(c.args) == 2 and dotted(c.args[0]) == tname and dotted(c.args[1]) == params[2], c, "rename(temporary, final)", "rename arguments are %s" % unparse(c))
    if w:
        ctx.check(len(w[0].args) == 3 and [dotted(a) for a in w[0].args] == [a.arg for a in f.args.args][1:], w[0], "helper forwards (object, final name, write function)")
    wfp = f.args.args[3].arg if len(f.args.args) > 3 else None
    direct = [c for c in calls_in(f) if dotted(c.func) == wfp] if w else []
    for c in direct:
        ctx.bad(c, "the write function is called directly on %s inside the helper: the file appears under its final name while it is being written "
                "(a kill or a concurrent reader sees a torn file)" % (unparse(c.args[1]) if len(c.args) > 1 else "?"))
    if w:
        ctx.check(g.every_path_from([g.entry], g.nodes_of_all(mv)) and g.every_path_from([g.entry], g.nodes_of_all(w)), mv[0],
                  "every path of the helper writes the temporary file and renames it (no shortcut path)", "a path of _concurrency_safe_write skips the temporary file or the rename")
    cw = ctx.repo.func(SB, "concurrency_safe_write")
    gc_ = cfg_of(cw)
    calls = [c for c in calls_in(cw) if dotted(c.func) == cw.args.args[2].arg]
    rets = nodes_of_type(cw, ast.Return)
    ctx.check(len(calls) == 1 and rets and gc_.every_path_to(gc_.nodes_of_all(rets), gc_.nodes_of_all(calls)), calls[0] if calls else cw, "concurrency_safe_write calls the write function before returning the temporary name")
    if calls:
        ctx.check(len(calls[0].args) == 2 and dotted(calls[0].args[0]) == cw.args.args[0].arg and dotted(calls[0].args[1]) == "temporary_filename", calls[0], "the write function receives the temporary name")
    ctx.check(all(dotted(r.value) == "temporary_filename" for r in rets), rets[0] if rets else cw, "the temporary name is returned")
    # write functions close their file before returning (with-statement)
    n = 0
    for q, fn in ctx.repo.mod(SB).funcs.items():
        if _write_func_passed(fn) is not None:
            n += 1
            for c in write_opens(fn, ctx.res):
                p = parent(c)
                ctx.check(isinstance(p, ast.withitem), c, "the temporary file is opened in a with-statement (closed, hence flushed, when the write function returns)",
                          "the temporary file is not closed by a with-statement before the rename")
    ctx.floor(n, 2, "write functions")
    cls = ctx.repo.cls(SB, "FileSystemStoreBackend")
    mvattr = ctx.res.class_attr(SB, cls, "_move_item")
    ok = isinstance(mvattr, ast.Call) and call_name(mvattr) == "staticmethod" and dotted(mvattr.args[0]) == "concurrency_safe_rename"
    ctx.check(ok, cls, "FileSystemStoreBackend._move_item is concurrency_safe_rename")
    bp = ctx.repo.mod(BP)
    posix = [n_ for n_ in ast.walk(bp.tree) if isinstance(n_, ast.ImportFrom) and n_.module == "os" and any(a.name == "replace" and a.asname == "concurrency_safe_rename" for a in n_.names)]
    ctx.check(bool(posix), posix[0] if posix else bp.tree.body[0], "on posix concurrency_safe_rename is os.replace (atomic overwrite)", "concurrency_safe_rename is no longer os.replace on posix",
              key=BP + "::<module>::posix concurrency_safe_rename")
    if "concurrency_safe_rename" in bp.funcs:
        nt = bp.funcs["concurrency_safe_rename"]
        ctx.check(any(call_name(c) == "replace" for c in calls_in(nt)), nt, "the nt variant retries os.replace")


def temp_name(ctx):
    cw = ctx.repo.func(SB, "concurrency_safe_write")
    d = _local_def(cw, "temporary_filename")
    ctx.need(len(d) == 1, "temporary_filename definition not found")
    v = d[0].value
    fname = cw.args.args[1].arg
    ok = isinstance(v, ast.Call) and isinstance(v.func, ast.Attribute) and v.func.attr == "format" and isinstance(v.func.value, ast.Constant)
    ctx.need(ok or isinstance(v, (ast.JoinedStr, ast.BinOp)), "temporary name is not built by str.format / f-string / concatenation")
    if ok:
        fmt = v.func.value.value
        ctx.check(fmt.startswith("{}") and len(fmt) > 2 and v.args and dotted(v.args[0]) == fname, d[0], "temporary name = final name + non-empty suffix (never equal to a name a reader looks for)",
                  "temporary name format %r does not extend the final name" % fmt)
        argtxt = [unparse(a) for a in v.args[1:]]
        pid = any(a == "os.getpid()" for a in argtxt)
        tid_names = [a for a in argtxt if a != "os.getpid()"]
        tid = False
        for a in v.args[1:]:
            if unparse(a) in ("threading.get_ident()", "id(threading.current_thread())"):
                tid = True
            if isinstance(a, ast.Name):
                dd = _local_def(cw, a.id)
                if len(dd) == 1 and unparse(dd[0].value) in ("threading.get_ident()", "id(threading.current_thread())"):
                    tid = True
        ctx.check(pid, d[0], "the suffix contains os.getpid() (two processes never share a temporary file)", "the temporary name does not contain the process id: two processes writing one entry share a temporary file")
        ctx.check(tid, d[0], "the suffix contains the thread identity (two threads never share a temporary file)", "the temporary name does not contain the thread identity")
        ctx.check(fmt.count("{}") == len(v.args), d[0], "every placeholder is filled")
    else:
        txt = unparse(v)
        ctx.check(fname in names_in(v) and "os.getpid()" in txt and ("get_ident()" in txt or "current_thread()" in txt), d[0], "temporary name extends the final name with pid and thread identity")


def load_tolerant(ctx):
    f = M(ctx, "MemorizedFunc._cached_call")
    g = cfg_of(f)
    loads = [c for c in calls_in(f) if call_name(c) == "self._load_item"]
    ctx.need(loads, "_cached_call no longer loads through self._load_item")
    calls = [c for c in calls_in(f) if call_name(c) == "self._call"]
    ctx.need(calls, "_cached_call no longer recomputes through self._call")
    for c in loads:
        tr = None
        for a in ancestors(c):
            if isinstance(a, ast.Try) and in_block(c, a.body):
                tr = a
                break
            if isinstance(a, ast.FunctionDef):
                break
        if tr is None:
            ctx.bad(c, "the cache load is not inside a try: a damaged or vanished entry makes the call fail instead of recomputing")
            continue
        hs = [h for h in tr.handlers if handler_catches(h, ["Exception"]) and (h.type is None or unparse(h.type) in ("Exception", "BaseException"))]
        if not hs:
            ctx.bad(tr, "the handler around the cache load is narrower than Exception (%s): other load failures escape to the caller" % [unparse(h.type) for h in tr.handlers])
            continue
        h = hs[0]
        ctx.ok(h, "load failure is caught (except %s)" % (unparse(h.type) if h.type else ""))
        raises = [n for s in h.body for n in walk_local(s) if isinstance(n, ast.Raise)]
        ctx.check(not raises, h, "the handler does not re-raise", "the handler re-raises: a damaged entry makes the call fail")
        rets = [n for s in h.body for n in walk_local(s) if isinstance(n, ast.Return)]
        ctx.check(not rets, h, "the handler does not return (falls through to recompute)", "the handler returns without recomputing")
        # the handler itself must be total: its message formatting cannot raise on arbitrary argument reprs
        import string as _string
        for fc in [c_ for s_ in h.body for c_ in calls_in(s_) if call_attr(c_) == "format" and isinstance(c_.func, ast.Attribute)]:
            recv = fc.func.value
            okf = isinstance(recv, ast.Constant) and isinstance(recv.value, str)
            if okf:
                try:
                    fields = [f_ for _, f_, _, _ in _string.Formatter().parse(recv.value) if f_ is not None]
                except ValueError:
                    fields = None
                okf = fields is not None and all(f_ == "" or f_.isdigit() for f_ in fields) and len(fields) <= len(fc.args)
            ctx.check(okf, fc, "the warning text is a constant template with one placeholder per argument (formatting cannot raise)",
                      "str.format is applied to text that already contains interpolated values (%s): braces in an argument's repr make the handler itself raise, and the call fails instead of recomputing" % unparse(recv, 80))
        ctx.check(g.every_path_from(g.nodes_of(h), g.nodes_of_all(calls)), h, "every path from the handler reaches self._call(...) (recompute)",
                  "a path from the load-failure handler leaves _cached_call without recomputing")
    for c in calls:
        st = enclosing_stmt(c)
        ctx.check(isinstance(st, ast.Return) and st.value is c, c, "the recomputed value is what is returned")
        ids = [dotted(a) for a in c.args[:3]]
        ctx.check(ids == ["call_id", "args", "kwargs"], c, "recompute uses the same call id and arguments")


def meta_tolerant(ctx):
    gm = S(ctx, "StoreBackendMixin.get_metadata")
    tr = [t for t in nodes_of_type(gm, ast.Try)]
    ok = tr and any(h.type is None or unparse(h.type) in ("Exception", "BaseException") for h in tr[0].handlers) and \
        all(isinstance(r.value, ast.Dict) and not r.value.keys for h in tr[0].handlers for r in h.body if isinstance(r, ast.Return))
    ctx.check(bool(ok), gm, "get_metadata returns {} on any failure (missing, torn or vanished metadata.json)", "get_metadata no longer tolerates unreadable metadata")
    n = 0
    for rel in (MEM, SB):
        for q, fn in ctx.repo.mod(rel).funcs.items():
            for node in body_walk(fn):
                if isinstance(node, ast.Subscript) and isinstance(node.ctx, ast.Load) and dotted(node.value) in ("metadata", "self.metadata") and isinstance(node.slice, ast.Constant):
                    # is `metadata` possibly coming from the store? (parameter or attribute; not a local dict literal)
                    if dotted(node.value) == "metadata" and any(isinstance(a.value, ast.Dict) for a in _local_def(fn, "metadata")):
                        continue
                    n += 1
                    key = node.slice.value
                    g = cfg_of(fn)
                    conds = g.conditions_at(g.nodes_of(node))
                    guarded = any(isinstance(t, ast.Compare) and isinstance(t.ops[0], ast.In) and const_value(t.left) == key and dotted(t.comparators[0]) == dotted(node.value) and pol for (_, t, pol) in conds)
                    guarded = guarded or any(isinstance(sub, ast.Compare) and isinstance(sub.ops[0], ast.In) and const_value(sub.left) == key and pol and isinstance(t, ast.BoolOp) and isinstance(t.op, ast.And) and sub in t.values for (_, t, pol) in conds for sub in ast.walk(t))
                    guarded = guarded or any(isinstance(t, ast.Compare) and isinstance(t.ops[0], ast.NotIn) and const_value(t.left) == key and not pol for (_, t, pol) in conds)
                    in_try = False
                    for a in ancestors(node):
                        if isinstance(a, ast.Try) and in_block(node, a.body) and any(handler_catches(h, ["KeyError"]) for h in a.handlers):
                            in_try = True
                        if isinstance(a, ast.FunctionDef):
                            break
                    ctx.check(guarded or in_try, node, "metadata[%r] is read behind an `in` test / KeyError handler" % key,
                              "metadata[%r] is read unguarded, but get_metadata returns {} for an entry whose metadata.json is missing (kill between the two renames, concurrent eviction): KeyError" % key)
    ctx.floor(n, 2, "constant-key reads of entry metadata")
    mr = M(ctx, "MemorizedResult.__init__")
    g_ = [c for c in calls_in(mr) if call_name(c) == "self.metadata.get"]
    ctx.check(bool(g_), g_[0] if g_ else mr, "MemorizedResult reads the duration with .get()")


def result_before_meta(ctx):
    f = M(ctx, "MemorizedFunc._after_call")
    g = cfg_of(f)
    d = [c for c in calls_in(f) if call_name(c) == "self.store_backend.dump_item"]
    p = [c for c in calls_in(f) if call_name(c) == "self._persist_input"]
    if not d:
        ctx.bad(f, "_after_call no longer stores the computed result (dump_item): nothing is ever served from the cache", key=MEM + "::MemorizedFunc._after_call::dump_item")
        return
    ctx.need(p, "_after_call no longer persists the inputs")
    ctx.check(g.every_path_to(g.nodes_of_all(p), g.nodes_of_all(d)), p[0], "the result is published before its metadata",
              "metadata can be published before the result: `entry present` no longer implies `result complete`")
    ctx.check(g.every_path_from([g.entry], g.nodes_of_all(d)), d[0], "every computed result is stored")
    ctx.check(d[0].args and [dotted(a) for a in d[0].args[:2]] == ["call_id", "output"], d[0], "dump_item(call_id, output)")
    ci = S(ctx, "StoreBackendMixin.contains_item")
    rets = nodes_of_type(ci, ast.Return)
    ok = len(rets) == 1 and isinstance(rets[0].value, ast.Call) and call_name(rets[0].value) == "self._item_exists" and _path_const(rets[0].value.args[0], ci) == "output.pkl"
    ctx.check(ok, rets[0] if rets else ci, "contains_item keys on output.pkl only (present under its final name => complete)", "contains_item no longer keys on output.pkl")
    pi = M(ctx, "MemorizedFunc._persist_input")
    sm = [c for c in calls_in(pi) if call_name(c) == "self.store_backend.store_metadata"]
    ctx.check(bool(sm) and [dotted(a) for a in sm[0].args] == ["call_id", "metadata"], sm[0] if sm else pi, "_persist_input stores the metadata of this call id")
    md = [a for a in nodes_of_type(pi, ast.Assign) if "metadata" in stores_to(a) and isinstance(a.value, ast.Dict)]
    keys = set(dict_items(md[0].value)) if md else set()
    ctx.check({"duration", "input_args", "time"} <= keys, md[0] if md else pi, "stored metadata has duration, input_args, time")


def code_reader(ctx):
    f = M(ctx, "MemorizedFunc._check_previous_func_code")
    g = cfg_of(f)
    rd = [c for c in calls_in(f) if call_name(c) == "self.store_backend.get_cached_func_code"]
    if not rd:
        ctx.bad(f, "_check_previous_func_code no longer reads the stored source: code changes across sessions cannot be detected", key=MEM + "::MemorizedFunc._check_previous_func_code::read of stored source")
        return
    for c in rd:
        tr = None
        for a in ancestors(c):
            if isinstance(a, ast.Try) and in_block(c, a.body):
                tr = a
                break
        if tr is None:
            ctx.bad(c, "reading the stored source is not inside a try")
            continue
        hs = [h for h in tr.handlers if handler_catches(h, ["OSError"])]
        ctx.check(bool(hs), tr, "unreadable stored source (OSError/IOError) is handled", "no handler for OSError around the read of the stored source")
        for h in hs:
            wr = [x for s in h.body for x in calls_in(s) if call_name(x) in ("self._write_func_code", "self.clear")]
            rets = [s for s in h.body if isinstance(s, ast.Return)]
            ctx.check(bool(wr) and rets and all(is_const(r.value, False) for r in rets), h, "unreadable source => (wipe and) rewrite it and report a miss (return False)",
                      "unreadable stored source is not turned into rewrite + miss")


def label_after_wipe(ctx):
    """The stored source (func_code.py) is the LABEL of every result in the function's directory: whoever writes it
    declares 'these results were computed by this source'. It may therefore be written only (a) right after the
    directory was wiped, or (b) ... never otherwise: a writer that has not compared the old label (it was unreadable
    or missing - e.g. a kill while the directory was being removed, rmtree deletes in directory order and the label
    can go first) must wipe before it labels. Every call that stores the label is dominated by a wipe of this
    function's directory (clear_path / clear) in its own function, or - for the one storing helper - every caller is."""
    cls_funcs = [(q, f) for (rel, q, f) in ctx.repo.all_functions(lambda r: r == MEM) if q.startswith("MemorizedFunc.") or q.startswith("AsyncMemorizedFunc.")]
    WRITE = ("self._write_func_code", "self.store_backend.store_cached_func_code")
    WIPE = ("self.store_backend.clear_path", "self.clear")
    n = 0
    for q, f in cls_funcs:
        g = None
        for c in calls_in(f):
            if call_name(c) not in WRITE:
                continue
            if q.endswith("._write_func_code") and call_name(c) == "self.store_backend.store_cached_func_code":
                ctx.ok(c, "the storing helper itself: judged at its callers")
                continue
            if call_name(c) == "self.store_backend.store_cached_func_code" and len(c.args) < 2 and kwarg(c, "func_code") is None:
                ctx.ok(c, "no source is handed over: the call only creates the function's directory")
                continue
            n += 1
            g = g or cfg_of(f)
            wipes = [w for w in calls_in(f) if call_name(w) in WIPE and not (call_name(w) == "self.clear" and q.endswith(".clear"))]
            ctx.check(bool(wipes) and g.every_path_to(g.nodes_of(c), g.nodes_of_all(wipes)), c,
                      "%s labels the function's directory with the current source only after wiping it" % q.split(".")[-1],
                      "%s stores the current source as the label of the function's directory without wiping the directory first: results left there by "
                      "another source (e.g. by a kill while the directory was being removed - the label can be deleted before the entries) are served as valid from then on"
                      % q.split(".")[-1])
    ctx.floor(n, 1, "writers of the stored source")


def optional_timestamp(ctx):
    """`timestamp` is optional state: the three `__getstate__` of memory.py store None for it (so that pickling a cached
    function does not change its hash), and `load_item(timestamp=None)` defaults to None. A wrapper that went through
    pickle (every cached function shipped to a worker) therefore carries None: arithmetic on it without an `is not None`
    guard raises TypeError - inside `load_item` that turns every hit into a recomputation, inside the load-failure handler
    of `_cached_call` it turns 'damaged entry => recompute' into an exception."""
    nones = 0
    for q in ("MemorizedResult.__getstate__", "MemorizedFunc.__getstate__", "Memory.__getstate__"):
        f = M(ctx, q)
        for a in nodes_of_type(f, ast.Assign):
            if any(isinstance(t, ast.Subscript) and const_value(t.slice) == "timestamp" for t in a.targets) and is_const(a.value, None):
                nones += 1
    ctx.need(nones >= 1, "no __getstate__ resets the timestamp to None any more: the premise of the clause is gone")
    n = 0
    for rel in (MEM, SB):
        for (_r, q, f) in ctx.repo.all_functions(lambda r, rel=rel: r == rel):
            g = None
            for b in [x for x in walk_local(f) if isinstance(x, ast.BinOp)]:
                ops = [o for o in (b.left, b.right) if (dotted(o) or "").split(".")[-1] == "timestamp"]
                if not ops:
                    continue
                if isinstance(parent(b), ast.BinOp) and False:
                    continue
                n += 1
                e = unparse(ops[0])
                guarded = False
                child = b
                for a_ in ancestors(b):
                    if isinstance(a_, ast.IfExp):
                        t = unparse(a_.test)
                        if (child is a_.body and t == "%s is not None" % e) or (child is a_.orelse and t == "%s is None" % e):
                            guarded = True
                    if isinstance(a_, ast.BoolOp) and isinstance(a_.op, ast.And) and any(unparse(v_) == "%s is not None" % e for v_ in a_.values[:a_.values.index(child)] if child in a_.values):
                        guarded = True
                    if isinstance(a_, ast.stmt):
                        break
                    child = a_
                if not guarded:
                    g = g or cfg_of(f)
                    st = enclosing_stmt(b)
                    facts = {(str(t), p_) for (t, p_) in g.fact_set(g.nodes_of(st))}
                    guarded = ("%s is None" % e, False) in facts
                ctx.check(guarded, b, "arithmetic on the optional %s is guarded by `is not None`" % e,
                          "`%s` is computed without testing `%s is not None`: a cached function that went through pickle carries timestamp None, so this raises TypeError "
                          "(in load_item: every hit is recomputed; in a failure handler: the call raises instead of recomputing)" % (unparse(b, 60), e))
    ctx.floor(n, 1, "arithmetic uses of the optional timestamp")


def invalidate_order(ctx):
    """Invalidation is crash-safe: the function's entries are wiped BEFORE the new source is published
    (a kill in between leaves 'no source' => rewrite + miss, never 'new source + entries of the old code')."""
    cl = M(ctx, "MemorizedFunc.clear")
    g = cfg_of(cl)
    cp = [c for c in calls_in(cl) if call_name(c) == "self.store_backend.clear_path"]
    wr = [c for c in calls_in(cl) if call_name(c) == "self._write_func_code"]
    if not (cp and wr):
        ctx.bad(cl, "MemorizedFunc.clear no longer %s" % ("stores the current source after wiping" if cp else "wipes the function's entries"), key=MEM + "::MemorizedFunc.clear::wipe and rewrite")
        return
    ctx.check(g.every_path_to(g.nodes_of_all(wr), g.nodes_of_all(cp)) and not g.path_exists(g.nodes_of_all(wr), g.nodes_of_all(cp)), wr[0],
              "the entries are wiped before the new source is stored",
              "the new source is stored before the old entries are wiped: a kill in between leaves results of the old code that now look valid")
    # ... and nothing publishes the new source ahead of that wipe on the way there
    chk = M(ctx, "MemorizedFunc._check_previous_func_code")
    gk = cfg_of(chk)
    wipes = [c for c in calls_in(chk) if call_name(c) in ("self.clear", "self.store_backend.clear_path")]
    early = [c for c in calls_in(chk) if call_name(c) in ("self._write_func_code", "self.store_backend.store_cached_func_code")]
    for w_ in early:
        ctx.check(not any(gk.path_exists(gk.nodes_of(w_), gk.nodes_of(x)) for x in wipes), w_, "storing the source in _check_previous_func_code never precedes a wipe of the old entries",
                  "the new source is stored before the old entries are wiped (`%s` can be followed by `%s`): a kill in between leaves results of the old code that now look valid"
                  % (unparse(w_, 60), unparse(wipes[0], 40) if wipes else "?"))
    clr = S(ctx, "FileSystemStoreBackend.clear_location")
    gl = cfg_of(clr)
    rm = [c for c in calls_in(clr) if call_name(c) == "shutil.rmtree"]
    rs = [c for c in calls_in(clr) if call_name(c) == "rm_subdirs"]
    for c in rs:
        conds = [(unparse(t), pol) for (_, t, pol) in gl.conditions_at(gl.nodes_of(c))]
        ctx.check(conds == [("location == self.location", True)], c, "only the cache root is emptied in place; every other location is removed as a whole",
                  "rm_subdirs is used under %s: a function directory keeps its func_code.py while its entries go" % conds)
    for c in rm:
        ctx.check(dotted(c.args[0]) == clr.args.args[1].arg, c, "the location itself is removed")


def _lazy_sites(fn, c):
    """where the call `c` (or the function handed to map()/filter() by the call `c`) is really evaluated: a call written
    inside a generator expression, or applied by map()/filter(), runs where the lazy object is CONSUMED - if that object is
    bound to a name, at the uses of the name"""
    tops = [a for a in ancestors(c) if isinstance(a, ast.GeneratorExp)]
    top = tops[-1] if tops else (c if call_name(c) in ("map", "filter") else None)
    if top is None:
        return [c], ""
    pst = parent(top)
    if isinstance(pst, ast.Assign) and len(pst.targets) == 1 and isinstance(pst.targets[0], ast.Name):
        v_ = pst.targets[0].id
        uses = [n for n in ast.walk(fn) if isinstance(n, ast.Name) and n.id == v_ and isinstance(n.ctx, ast.Load)]
        if uses:
            return uses, " (lazily, where `%s` is consumed)" % v_
    return [top], ""


def delete_tolerant(ctx):
    gi = S(ctx, "FileSystemStoreBackend.get_items")
    n = 0
    STAT = ("os.path.getatime", "os.path.getsize")
    for c in calls_in(gi):
        nm = call_name(c)
        if nm in ("map", "filter") and c.args and dotted(c.args[0]) in STAT:
            nm = dotted(c.args[0])
        elif nm not in STAT:
            continue
        n += 1
        sites_, how = _lazy_sites(gi, c)
        for site in sites_:
            ok = False
            for a in ancestors(site):
                if isinstance(a, ast.Try) and in_block(site, a.body) and any(handler_catches(h, ["OSError"]) and not any(isinstance(x, ast.Raise) for s in h.body for x in walk_local(s)) for h in a.handlers):
                    ok = True
                if isinstance(a, ast.FunctionDef):
                    break
            ctx.check(ok, site, "%s of a possibly vanished entry is tolerated%s" % (nm, how), "%s%s is not protected against a vanished entry" % (nm, how))
    ctx.floor(n, 3, "stat calls in get_items")
    cl = S(ctx, "FileSystemStoreBackend.clear_location")
    rm = [c for c in calls_in(cl) if call_name(c) == "shutil.rmtree"]
    ctx.check(bool(rm) and all(is_const(kwarg(c, "ignore_errors", 1), True) for c in rm), rm[0] if rm else cl, "entries are deleted with rmtree(ignore_errors=True)", "rmtree of an entry is not tolerant to concurrent deletion")
    for q in ("StoreBackendMixin.clear_item", "StoreBackendMixin.clear_path"):
        fn = S(ctx, q)
        c = [x for x in calls_in(fn) if call_name(x) == "self.clear_location"]
        ctx.check(bool(c), c[0] if c else fn, "%s deletes through clear_location" % q)


def getstate_pure(ctx):
    """Pickling a Memory / MemorizedFunc / MemorizedResult (done by Parallel for every task, by cloudpickle, by users)
    must not change the live object: __getstate__ edits a COPY of __dict__.  The state it resets in that copy
    (`_func_code_id`: the validity of the in-process source check) would otherwise be reset on the object in use."""
    n = 0
    for rel, m in ((MEM, ctx.repo.mod(MEM)),):
        for q, fn in m.funcs.items():
            if not q.endswith(".__getstate__"):
                continue
            n += 1
            selfn = fn.args.args[0].arg
            # names bound to the live dictionary itself
            alias = {a.targets[0].id for a in nodes_of_type(fn, ast.Assign) if len(a.targets) == 1 and isinstance(a.targets[0], ast.Name) and unparse(a.value) in (selfn + ".__dict__", "vars(%s)" % selfn)}
            bad_ = []
            for node in ast.walk(fn):
                tgt = None
                if isinstance(node, (ast.Assign, ast.AugAssign, ast.Delete)):
                    tgts = node.targets if not isinstance(node, ast.AugAssign) else [node.target]
                    for t in tgts:
                        if isinstance(t, ast.Subscript) and (dotted(t.value) in alias or unparse(t.value) in (selfn + ".__dict__", "vars(%s)" % selfn)):
                            bad_.append(node)
                        if isinstance(t, ast.Attribute) and dotted(t.value) == selfn:
                            bad_.append(node)
                if isinstance(node, ast.Call) and isinstance(node.func, ast.Attribute) and node.func.attr in ("update", "pop", "clear", "setdefault", "popitem", "__setitem__", "__delitem__") and \
                        (dotted(node.func.value) in alias or unparse(node.func.value) == selfn + ".__dict__"):
                    bad_.append(node)
            ctx.check(not bad_, bad_[0] if bad_ else fn, "%s edits a copy of the instance dictionary, never the live object" % q,
                      "%s writes into the live instance dictionary (`%s`): pickling the object resets that state on the object in use (e.g. the validated-source marker, so a changed function keeps being served from the cache)"
                      % (q, unparse(bad_[0], 60) if bad_ else ""))
            rets = [r for r in nodes_of_type(fn, ast.Return) if r.value is not None]
            ctx.check(bool(rets), fn, "%s returns the state" % q)
    ctx.floor(n, 3, "__getstate__ implementations in memory.py")


def delete_folder_loop(ctx):
    """disk.delete_folder: the retry loop (Memory.clear of a directory another process is clearing too) ends on
    success, ends quietly when the directory is already gone, and gives up after a bounded number of failures."""
    from ..core import cond_facts
    f = ctx.repo.func("joblib/disk.py", "delete_folder")
    g = cfg_of(f)
    lp = [n for n in nodes_of_type(f, ast.While)]
    if len(lp) != 1:
        raise Undecidable("delete_folder has %d while loops (one declared)" % len(lp))
    lp = lp[0]
    rm = [c for c in calls_in(lp) if call_name(c) == "shutil.rmtree"]
    ctx.check(bool(rm), rm[0] if rm else lp, "the loop removes the tree", "delete_folder no longer removes the tree")
    hs = [h for t in nodes_of_type(lp, ast.Try) for h in t.handlers if handler_catches(h, ["OSError"])]
    ctx.check(bool(hs), hs[0] if hs else lp, "failures of listdir/rmtree are caught inside the loop")
    # (a success that does not `break` is harmless: the next listdir fails, the handler sees the directory gone)
    for h in hs:
        gone = [b for b in walk_local(ast.Module(body=h.body, type_ignores=[])) if isinstance(b, (ast.Break, ast.Return))]
        okg = [b for b in gone if ("os.path.exists(folder_path)", False) in cond_facts(g.conditions_at(g.nodes_of(b)))]
        ctx.check(bool(okg) and len(okg) == len(gone), gone[0] if gone else h, "a failure because the directory has vanished (another process deleted it) ends the loop quietly",
                  "the handler leaves the loop under %s, not under `not os.path.exists(folder_path)`" % [cond_facts(g.conditions_at(g.nodes_of(b))) for b in gone])
        inc = [a for a in walk_local(ast.Module(body=h.body, type_ignores=[])) if isinstance(a, ast.AugAssign) and isinstance(a.op, ast.Add) and isinstance(a.target, ast.Name)]
        rs = [r for r in walk_local(ast.Module(body=h.body, type_ignores=[])) if isinstance(r, ast.Raise)]
        ctx.check(bool(inc) and bool(rs), inc[0] if inc else h, "every other failure is counted and re-raised once the count passes the limit",
                  "the retry loop of delete_folder does not both count failures and re-raise: it can spin forever on a directory that cannot be deleted")
        if inc and rs:
            cnt = inc[0].target.id
            # the counter is incremented on every path through the handler that stays in the loop
            stay = g.nodes_of(lp)
            ctx.check(g.every_path_from(g.nodes_of(h), set(g.nodes_of_all(inc)) | set(g.nodes_of_all(gone)), stay, skip_exc=True), inc[0], "each failed attempt that retries increments the counter")
            for r in rs:
                fc = cond_facts([c_ for c_ in g.conditions_at(g.nodes_of(r)) if in_block(c_[0], h.body)])
                lim = [f_ for f_ in fc if f_[0] in ("RM_SUBDIRS_N_RETRY < %s" % cnt, "%s > RM_SUBDIRS_N_RETRY" % cnt, "RM_SUBDIRS_N_RETRY <= %s" % cnt, "%s >= RM_SUBDIRS_N_RETRY" % cnt) and f_[1]]
                ctx.check(bool(lim), r, "re-raised when the counter exceeds RM_SUBDIRS_N_RETRY", "the error is re-raised under %s" % fc)
            init = [a for a in nodes_of_type(f, ast.Assign) if cnt in stores_to(a) and is_const(a.value, 0)]
            ctx.check(bool(init) and not any(in_block(a, lp.body) for a in init), init[0] if init else f, "the counter starts at 0 outside the loop (not reset per attempt)",
                      "the failure counter is reset inside the loop: the retry limit is never reached")


# ---------------------------------------------------------------------------
# C11 error discipline
# ---------------------------------------------------------------------------

RAISING_EXT = {
    "os.listdir": "OSError", "os.path.getatime": "OSError", "os.path.getsize": "OSError", "os.stat": "OSError",
    "os.remove": "OSError", "os.unlink": "OSError", "os.rmdir": "OSError", "os.replace": "OSError", "os.rename": "OSError",
    "os.scandir": "OSError", "shutil.move": "OSError", "shutil.copy": "OSError", "os.utime": "OSError", "os.lstat": "OSError",
    "os.chmod": "OSError", "os.truncate": "OSError", "os.link": "OSError", "os.symlink": "OSError", "os.path.getmtime": "OSError",
    "os.path.getctime": "OSError",
    # makedirs creates the parents one by one: a concurrent clear() removing a parent in between makes the next
    # mkdir fail with ENOENT (EEXIST is handled by mkdirp itself: C11.EEXIST)
    "os.makedirs": "FileNotFoundError", "os.mkdir": "FileNotFoundError",
}
RAISING_SELF = {"self._open_item": "OSError", "self._move_item": "OSError"}
ENTRY = [
    (MEM, "MemorizedFunc.__call__"), (MEM, "MemorizedFunc.call_and_shelve"), (MEM, "MemorizedFunc.call"),
    (MEM, "MemorizedFunc.check_call_in_cache"), (MEM, "MemorizedFunc.clear"), (MEM, "MemorizedFunc.__init__"),
    (MEM, "Memory.cache"), (MEM, "Memory.clear"), (MEM, "Memory.reduce_size"), (MEM, "Memory.eval"),
    (MEM, "MemorizedResult.clear"), (MEM, "MemorizedResult.__init__"),
    (MEM, "AsyncMemorizedFunc.__call__"), (MEM, "AsyncMemorizedFunc.call_and_shelve"), (MEM, "AsyncMemorizedFunc.call"),
]
# one line of reason per exemption
EXEMPT_FUNCS = {
    (MEM, "MemorizedResult.get"): "documented contract: a shelved reference raises KeyError once its entry has been cleared",
    (SB, "FileSystemStoreBackend.configure"): "construction time, on the cache root (created here, never deleted by clear/reduce_size)",
    (DISK, "disk_used"): "not used on the store",
}
EXEMPT_SITES = {
    (DISK, "rm_subdirs", "os.listdir"): "lists the cache root itself, which clear() never deletes (only its sub-directories)",
}
SCOPE11 = [MEM, SB, DISK]


def _tolerant_handler(h):
    raises = [n for s in h.body for n in walk_local(s) if isinstance(n, ast.Raise)]
    if not raises:
        return True
    # accepted: the handler first leaves when the path has vanished
    for st in h.body:
        if isinstance(st, ast.If) and "exists" in unparse(st.test) and isinstance(st.test, ast.UnaryOp) and isinstance(st.test.op, ast.Not) \
                and st.body and isinstance(st.body[-1], (ast.Break, ast.Return, ast.Continue)):
            return True
        if any(isinstance(n, ast.Raise) for n in walk_local(st)):
            return False
    return False


def raw_sites(ctx):
    """[(node, exception class name, description)] for raising file-system
    operations on store paths."""
    out = []
    for rel in (SB, DISK):
        mod = ctx.repo.mod(rel)
        for q, fn in mod.funcs.items():
            if (rel, q) in EXEMPT_FUNCS:
                continue
            if rel == SB and not q.startswith(("StoreBackendMixin.", "FileSystemStoreBackend.")) and q not in ("concurrency_safe_write",):
                # nested write functions are covered through their qualname prefix
                pass
            if rel == DISK and q.split(".")[0] not in ("rm_subdirs", "delete_folder", "mkdirp"):
                continue
            for c in calls_in(fn):
                cn = call_name(c)
                ext = ctx.res.ext_name(c.func) if cn else None
                kind = None
                if cn in ("map", "filter") and c.args and dotted(c.args[0]):
                    ext_f = ctx.res.ext_name(c.args[0])
                    if ext_f in RAISING_EXT:
                        for u in _lazy_sites(fn, c)[0]:
                            out.append((u, RAISING_EXT[ext_f], ext_f + " (applied lazily by %s(), where its result is consumed)" % cn))
                        continue
                if cn in RAISING_SELF:
                    kind = (RAISING_SELF[cn], cn)
                elif ext in RAISING_EXT:
                    kind = (RAISING_EXT[ext], ext)
                elif cn == "open" and rel == SB:
                    kind = ("OSError", "open")
                elif ext == "shutil.rmtree":
                    ie = kwarg(c, "ignore_errors", 1)
                    oe = kwarg(c, "onerror", 2) or kwarg(c, "onexc")
                    handled_by_callback = oe is not None and not is_const(oe, None)
                    if not (ie is not None and is_const(ie, True)) and not handled_by_callback:
                        kind = ("OSError", "shutil.rmtree (errors not ignored)")
                elif cn in ("numpy_pickle.load", "numpy_pickle.dump"):
                    kind = ("OSError", cn)
                if kind is None:
                    continue
                if (rel, q.split(".")[0] if rel == DISK else q, kind[1]) in EXEMPT_SITES:
                    continue
                # a call written inside a generator expression runs where the generator is CONSUMED: if the generator is
                # bound to a name, the sites to protect are the statements that use that name
                ge = [a for a in ancestors(c) if isinstance(a, ast.GeneratorExp)]
                moved = False
                if ge:
                    top = ge[-1]
                    pst = parent(top)
                    if isinstance(pst, ast.Assign) and len(pst.targets) == 1 and isinstance(pst.targets[0], ast.Name):
                        v_ = pst.targets[0].id
                        uses = [n for n in ast.walk(fn) if isinstance(n, ast.Name) and n.id == v_ and isinstance(n.ctx, ast.Load)]
                        for u in uses:
                            out.append((u, kind[0], kind[1] + " (lazily, where the generator `%s` is consumed)" % v_))
                            moved = True
                if not moved:
                    out.append((c, kind[0], kind[1]))
            for r in nodes_of_type(fn, ast.Raise):
                if r.exc is not None and isinstance(r.exc, ast.Call) and call_name(r.exc) == "KeyError" and rel == SB:
                    out.append((r, "KeyError", "raise KeyError (entry vanished)"))
    return out


def _protected(ctx, node, exc, entry_funcs, stack):
    fn = enclosing_func(node)
    # lexical handlers, inside-out
    child = node
    for a in ancestors(node):
        if a is fn:
            break
        if isinstance(a, ast.Try) and in_block(child, a.body):
            for h in a.handlers:
                if handler_catches(h, [exc]):
                    if _tolerant_handler(h):
                        return True, "handled in %s (except %s)" % (fn._qualname, unparse(h.type) if h.type else "<bare>")
                    break  # caught, re-raised: look further out
        child = a
    if fn is None:
        return False, "module level"
    key = (fn._module.relpath, fn._qualname)
    if key in EXEMPT_FUNCS:
        return True, "exempt: %s" % EXEMPT_FUNCS[key]
    wf = _write_func_passed(fn)
    if wf is not None:
        ok, why = _protected(ctx, wf, exc, entry_funcs, stack)
        return ok, "%s <- write function of %s" % (why, enclosing_func(wf)._qualname)
    if any(fn is e for e in entry_funcs):
        return False, "%s (public entry point) lets %s propagate" % (fn._qualname, exc)
    if any(fn is s for s in stack):
        return True, "recursion"
    cs = ctx.res.callers(fn, SCOPE11, polymorphic=True)
    if not cs:
        return True, "no caller from the public Memory API"
    for caller, call in cs:
        ok, why = _protected(ctx, call, exc, entry_funcs, stack + [fn])
        if not ok:
            return False, "%s <- %s" % (why, fn._qualname)
    return True, "every caller chain handles it"


def errdisc(ctx):
    entry_funcs = []
    for rel, q in ENTRY:
        if ctx.repo.has_func(rel, q):
            entry_funcs.append(ctx.repo.func(rel, q))
    ctx.floor(len(entry_funcs), 10, "public Memory entry points")
    sites = raw_sites(ctx)
    ctx.floor(len(sites), 12, "raising file-system sites on store paths")
    for node, exc, what in sites:
        ok, why = _protected(ctx, node, exc, entry_funcs, [])
        ctx.check(ok, node, "%s: %s" % (what, why),
                  "%s on a path that a concurrent clear()/reduce_size() may delete is not tolerated: %s" % (what, why))


def eexist(ctx):
    f = ctx.repo.func(DISK, "mkdirp")
    hs = [h for t in nodes_of_type(f, ast.Try) for h in t.handlers]
    if not hs:
        ctx.bad(f, "mkdirp no longer tolerates EEXIST: two processes creating the same entry directory race between the existence test and makedirs, and the loser raises FileExistsError",
                key=DISK + "::mkdirp::EEXIST handler")
        return
    for h in hs:
        ifs = [s for s in h.body if isinstance(s, ast.If) and any(isinstance(x, ast.Raise) for x in s.body)]
        stray = [x for s_ in h.body if s_ not in ifs for x in walk_local(s_) if isinstance(x, ast.Raise)]
        ok = handler_catches(h, ["OSError"]) and len(ifs) == 1 and not stray and unparse(ifs[0].test) in ("%s.errno != errno.EEXIST" % h.name, "not %s.errno == errno.EEXIST" % h.name)
        ctx.check(ok, h, "mkdirp swallows exactly EEXIST (a concurrent creator won the race)", "mkdirp no longer tolerates exactly EEXIST")
    mk = [c for c in calls_in(f) if call_name(c) == "os.makedirs"]
    ctx.check(bool(mk), mk[0] if mk else f, "mkdirp creates all missing parents (os.makedirs)")
    cl = S(ctx, "FileSystemStoreBackend.create_location")
    ctx.check(any(call_name(c) == "mkdirp" for c in calls_in(cl)), cl, "create_location goes through mkdirp")


# ---------------------------------------------------------------------------
# C12
# ---------------------------------------------------------------------------

def check_dominates(ctx):
    f = M(ctx, "MemorizedFunc._is_in_cache_and_valid")
    g = cfg_of(f)
    chk = [c for c in calls_in(f) if call_name(c) == "self._check_previous_func_code"]
    ci = [c for c in calls_in(f) if call_name(c) == "self.store_backend.contains_item"]
    if not ci:
        ctx.bad(f, "_is_in_cache_and_valid no longer decides presence through contains_item (output.pkl under its final name): a hit is answered for entries without a result, or a "
                "completed entry is treated as missing", key=MEM + "::MemorizedFunc._is_in_cache_and_valid::contains_item")
        return
    if not chk:
        ctx.bad(f, "_is_in_cache_and_valid does not check the function's source code: values computed by older code are served", key=MEM + "::MemorizedFunc._is_in_cache_and_valid::code check")
        return
    # decided over the case table (code unchanged?) x (entry present?) x (no callback / accepts / rejects), walking the
    # function's own CFG (sa/table.py): valid iff all three hold; the entry is looked up only after the code check passed;
    # a rejecting callback clears the entry; nothing else does
    from ..table import traces, Unknown
    import itertools as _it
    def txt_of(name):
        cs = [c for c in calls_in(f) if call_name(c) == name]
        return [str(unparse(c, 400)) for c in cs]
    k_chk, k_has, k_cb = txt_of("self._check_previous_func_code"), txt_of("self.store_backend.contains_item"), txt_of("self.cache_validation_callback")
    bad = None
    n_rows = 0
    for code_ok, present, cb in _it.product((True, False), (True, False), ("none", "accept", "reject")):
        env = {"self.cache_validation_callback is None": cb == "none", "self.cache_validation_callback is not None": cb != "none",
               "self.cache_validation_callback": None if cb == "none" else "<callback>"}
        for k in k_chk:
            env[k] = code_ok
        for k in k_has:
            env[k] = present
        for k in k_cb:
            env[k] = cb == "accept"
        try:
            walks = traces(g, env, call_args=("self._check_previous_func_code", "self.store_backend.contains_item", "self.store_backend.clear_item", "self.cache_validation_callback"))
        except Unknown as e:
            raise Undecidable("_is_in_cache_and_valid: not understood (%s)" % e)
        for kind, val, visited, calls in walks:
            n_rows += 1
            names_ = [c[0] for c in calls]
            want = code_ok and present and cb != "reject"
            what = "code %s, entry %s, callback %s" % ("unchanged" if code_ok else "changed", "present" if present else "absent", cb)
            if kind != "return" or val is Unknown or bool(val) != want:
                bad = (f, "%s: _is_in_cache_and_valid answers %s (expected %s): %s" % (what, val if kind == "return" else kind, want,
                       "values computed by older code / entries without a result are served" if not want else "a valid entry is treated as missing"))
            elif not code_ok and ("self.store_backend.contains_item" in names_ or "self.store_backend.clear_item" in names_):
                bad = (f, "%s: the entry is looked up although the code check failed (the check must precede and guard the look-up)" % what)
            elif "self.store_backend.contains_item" in names_ and "self._check_previous_func_code" in names_ and names_.index("self.store_backend.contains_item") < names_.index("self._check_previous_func_code"):
                bad = (f, "%s: the entry is looked up before the code check" % what)
            elif ("self.store_backend.clear_item" in names_) != (code_ok and present and cb == "reject"):
                bad = (f, "%s: clear_item is %s" % (what, "called" if "self.store_backend.clear_item" in names_ else "not called: a rejected entry stays and is offered again"))
            if bad:
                break
        if bad:
            break
    if bad:
        ctx.bad(bad[0], bad[1], key=MEM + "::MemorizedFunc._is_in_cache_and_valid::validity case table")
    else:
        ctx.ok(f, "valid iff code unchanged, entry present and not rejected; look-up guarded by the code check; a rejected entry is cleared (%d walks of the case table)" % n_rows)
    cc = M(ctx, "MemorizedFunc._cached_call")
    gc_ = cfg_of(cc)
    readers = [c for c in calls_in(cc) if call_name(c) in ("self._load_item", "self._get_memorized_result")]
    ctx.floor(len(readers), 2, "cache readers in _cached_call")
    for c in readers:
        conds = gc_.atoms_at(gc_.nodes_of(c))
        ctx.check(any(isinstance(tt, ast.Call) and call_name(tt) == "self._is_in_cache_and_valid" and pol for (_, tt, pol) in conds), c, "cache is read only after _is_in_cache_and_valid() answered True")
    # writers too: a result is stored in the directory labelled by func_code.py, so the forced-execution entry point
    # must have checked (and, on a change, wiped) that label before it persists anything there
    n_persist = 0
    for q_, fc in ctx.repo.mod(MEM).funcs.items():
        if not q_.startswith(("MemorizedFunc.", "AsyncMemorizedFunc.")) or q_.split(".")[-1] in ("_call", "_after_call"):
            continue
        gfc = cfg_of(fc)
        persist = [c for c in calls_in(fc) if call_name(c) in ("self._call", "self._after_call", "super()._call")]
        chk_w = [c for c in calls_in(fc) if call_name(c) in ("self._check_previous_func_code", "self._is_in_cache_and_valid")]
        for c in persist:
            n_persist += 1
            ctx.check(bool(chk_w) and gfc.every_path_to(gfc.nodes_of(c), gfc.nodes_of_all(chk_w)), c, "%s checks the stored source before it persists a result next to it" % q_,
                      "%s persists its result without checking the stored source: a value computed by the edited function lands in the directory labelled with the previous source, "
                      "and a process running the previous source gets it as a valid hit" % q_, key=MEM + "::%s::code check before persisting" % q_)
    ctx.floor(n_persist, 2, "persisting calls in MemorizedFunc / AsyncMemorizedFunc")
    ck = M(ctx, "MemorizedFunc.check_call_in_cache")
    rets = nodes_of_type(ck, ast.Return)
    ctx.check(len(rets) == 1 and isinstance(rets[0].value, ast.Call) and call_name(rets[0].value) == "self._is_in_cache_and_valid", rets[0] if rets else ck, "check_call_in_cache answers through _is_in_cache_and_valid")
    # validation callback: falsy => entry cleared, miss


def diff_wipes(ctx):
    f = M(ctx, "MemorizedFunc._check_previous_func_code")
    g = cfg_of(f)
    eq = [n for n in nodes_of_type(f, ast.If) if isinstance(n.test, ast.Compare) and isinstance(n.test.ops[0], ast.Eq) and {dotted(n.test.left), dotted(n.test.comparators[0])} == {"old_func_code", "func_code"}]
    if not eq:
        ctx.bad(f, "the stored source is no longer compared with the current source", key=MEM + "::MemorizedFunc._check_previous_func_code::source comparison")
        return
    t = eq[0]
    rets_ = [x for s_ in t.body for x in walk_local(s_) if isinstance(x, ast.Return)]
    ctx.check(bool(rets_) and all(is_const(r_.value, True) for r_ in rets_) and isinstance(t.body[-1], ast.Return), t, "identical source => valid")
    tn = g.nodes_of(t)[0]
    false_succ = g.label_succ(tn, "F")
    clears = [c for c in calls_in(f) if call_name(c) == "self.clear"]
    ctx.check(bool(clears), clears[0] if clears else t, "differing source => self.clear(...)", "differing source no longer wipes the function's cache")
    if clears:
        r = g.reach(false_succ, avoid=g.nodes_of_all(clears))
        ctx.check(g.exit not in r, t, "every path from `source differs` to a normal return passes self.clear()", "a path from `source differs` returns without wiping the cache: values of the old code are served")
    after = g.reach(false_succ)
    for r in nodes_of_type(f, ast.Return):
        if set(g.nodes_of(r)) & after:
            ctx.check(is_const(r.value, False), r, "after a difference the answer is False (recompute)", "returns %s although the source differs" % unparse(r.value))
    # operands
    d_old = [a for a in nodes_of_type(f, ast.Assign) if "old_func_code" in stores_to(a)]
    ok = d_old and isinstance(d_old[0].value, ast.Call) and call_name(d_old[0].value) == "extract_first_line" and any(call_name(c) == "self.store_backend.get_cached_func_code" for c in calls_in(d_old[0].value))
    ctx.check(bool(ok), d_old[0] if d_old else f, "old source = extract_first_line(stored func_code.py of this function id)")
    d_new = [a for a in nodes_of_type(f, ast.Assign) if "func_code" in stores_to(a)]
    ctx.check(bool(d_new) and dotted(d_new[0].value) == "self.func_code_info", d_new[0] if d_new else f, "current source comes from func_code_info")
    rd = [c for c in calls_in(f) if call_name(c) == "self.store_backend.get_cached_func_code"]
    ctx.check(bool(rd) and unparse(rd[0].args[0]) == "[self.func_id]", rd[0] if rd else f, "the stored source of *this* function id is read")
    cl = M(ctx, "MemorizedFunc.clear")
    gc_ = cfg_of(cl)
    cp = [c for c in calls_in(cl) if call_name(c) == "self.store_backend.clear_path"]
    wr = [c for c in calls_in(cl) if call_name(c) == "self._write_func_code"]
    ctx.check(bool(cp) and gc_.every_path_from([gc_.entry], gc_.nodes_of_all(cp)), cp[0] if cp else cl, "clear() wipes the function's directory on every path", "clear() no longer wipes the function's directory")
    ctx.check(bool(wr) and cp and gc_.every_path_to(gc_.nodes_of_all(wr), gc_.nodes_of_all(cp)), wr[0] if wr else cl, "then stores the current source")
    wf = M(ctx, "MemorizedFunc._write_func_code")
    st = [c for c in calls_in(wf) if call_name(c) == "self.store_backend.store_cached_func_code"]
    ctx.check(bool(st) and unparse(st[0].args[0]) == "[self.func_id]" and len(st[0].args) == 2, st[0] if st else wf, "_write_func_code stores the source under this function id")
    for q in ("MemorizedFunc.clear", "MemorizedFunc._check_previous_func_code"):
        fn = M(ctx, q)
        for c in [c for c in calls_in(fn) if call_name(c) == "self._write_func_code"]:
            srcs = []
            for a_ in c.args[:2]:
                d = [x for x in nodes_of_type(fn, ast.Assign) if isinstance(x.targets[0], ast.Tuple) and dotted(a_) in [dotted(e) for e in x.targets[0].elts]]
                srcs.append(dotted(d[0].value) if len(d) == 1 else None)
            ctx.check(srcs == ["self.func_code_info", "self.func_code_info"], c, "%s stores exactly the source that is compared (self.func_code_info)" % q.split(".")[-1],
                      "%s stores a source obtained from %s, not the one remembered for this wrapper and compared on later calls: after an edit+reload an older live "
                      "definition records the new text as its own" % (q.split(".")[-1], srcs))
    efl = ctx.repo.func(MEM, "extract_first_line")
    ctx.check(any(isinstance(r.value, ast.Tuple) for r in nodes_of_type(efl, ast.Return)), efl, "extract_first_line returns (code, first line)")


def fastpath_coherent(ctx):
    """_FUNCTION_HASHES shadows the authoritative per-func_id func_code.py:
    every writer of that file must invalidate the fast-path entries of other
    live functions sharing the id."""
    writers = []
    for q, fn in ctx.repo.mod(MEM).funcs.items():
        for c in calls_in(fn):
            if call_attr(c) == "store_cached_func_code" and len(c.args) + len(c.keywords) >= 2:
                writers.append((fn, c))
    ctx.need(writers, "no writer of the stored source found")
    # the table shadows the func_code.py of ONE store: an entry made while validating against store A says nothing about
    # store B (where func_code.py may not even exist). Either the recorded value / key names the store, or the fast path
    # itself consults the store before answering True.
    chk_ = M(ctx, "MemorizedFunc._check_previous_func_code")
    gk_ = cfg_of(chk_)
    fast = [r for r in nodes_of_type(chk_, ast.Return) if is_const(r.value, True)
            and any("_FUNCTION_HASHES" in unparse(t) for (_, t, pol) in gk_.conditions_at(gk_.nodes_of(r)))]
    if fast:
        hf = ctx.repo.mod(MEM).funcs.get("MemorizedFunc._hash_func")
        def names_store(e):
            return any(d == "self.store_backend" or d.startswith("self.store_backend.") or d in ("self.location", "self._location") for d in attrs_in(e))
        def names_store_via_locals(e, fn):
            if names_store(e):
                return True
            for nm in names_in(e):
                if any(names_store(a.value) for a in nodes_of_type(fn, ast.Assign) if nm in stores_to(a)):
                    return True
            return False
        keyed = hf is not None and any(r.value is not None and names_store_via_locals(r.value, hf) for r in nodes_of_type(hf, ast.Return))
        keyed = keyed or any(isinstance(n, ast.Subscript) and dotted(n.value) == "_FUNCTION_HASHES" and names_store(n.slice) for n in ast.walk(ctx.repo.mod(MEM).tree))
        guarded = all(any(names_store(t) for (_, t, pol) in gk_.conditions_at(gk_.nodes_of(r))) for r in fast)
        ctx.check(keyed or guarded, fast[0], "a fast-path entry is specific to the store it was validated against",
                  "the in-memory table of validated functions is keyed by the function only: a function validated against one store's func_code.py is trusted in every other store "
                  "(where func_code.py is then never written; after a source change a later process stores the new source there without wiping the old entries and serves them)",
                  key=MEM + "::MemorizedFunc._check_previous_func_code::fast path is per store")

    def invalidates(n):
        if isinstance(n, ast.Call) and call_name(n) in ("_FUNCTION_HASHES.clear", "_FUNCTION_HASHES.pop"):
            return True
        if isinstance(n, ast.Delete) and any(isinstance(t, ast.Subscript) and dotted(t.value) == "_FUNCTION_HASHES" for t in n.targets):
            return True
        return False
    for fn, c in writers:
        inv = [n for n in ast.walk(fn) if invalidates(n)]
        inserts = [n for n in ast.walk(fn) if isinstance(n, ast.Subscript) and dotted(n.value) == "_FUNCTION_HASHES" and isinstance(n.ctx, ast.Store)]
        if not inserts and not inv:
            # the writer leaves the table to its callers: then EVERY caller must evict the namesakes after the write (the
            # stored source has just been replaced; entries of other live functions with this id describe the old one)
            def evicts(f2, depth=0):
                if any(invalidates(n) for n in ast.walk(f2)):
                    return True
                return False
            callers = [(q2, f2, c2) for q2, f2 in ctx.repo.mod(MEM).funcs.items() for c2 in calls_in(f2) if call_name(c2) == "self." + fn.name]
            ctx.need(callers, "%s has no caller" % fn._qualname)
            for q2, f2, c2 in callers:
                g2 = cfg_of(f2)
                after = []
                for c3 in calls_in(f2):
                    nm3 = call_name(c3) or ""
                    if invalidates(c3):
                        after.append(c3)
                    elif nm3.startswith("self.") and ("MemorizedFunc." + nm3[5:]) in ctx.repo.mod(MEM).funcs and evicts(ctx.repo.mod(MEM).funcs["MemorizedFunc." + nm3[5:]]):
                        after.append(c3)
                ok_ = bool(after) and g2.every_path_from(g2.nodes_of(c2), g2.nodes_of_all(after), None, skip_exc=True)
                ctx.check(ok_, c2, "%s evicts the fast-path entries of the namesakes after it rewrote the stored source" % q2,
                          "%s rewrites func_code.py (through %s) but does not evict the fast-path entries of other live functions with the same identifier: a still-referenced older definition "
                          "keeps passing the fast path and stores / is served values of the other definition" % (q2, fn._qualname))
            continue
        if not inserts:
            ctx.ok(c, "writer of the stored source does not populate the fast-path table")
            continue
        g_ = cfg_of(fn)
        other = False
        for n in inv:
            for a in ancestors(n):
                if isinstance(a, ast.For) and "_FUNCTION_HASHES" in unparse(a.iter):
                    it_ok = unparse(a.iter) in ("list(_FUNCTION_HASHES)", "tuple(_FUNCTION_HASHES)", "list(_FUNCTION_HASHES.keys())", "_FUNCTION_HASHES.copy()", "list(_FUNCTION_HASHES.items())")
                    ctx.check(it_ok, a, "the eviction loop runs over the whole table, unconditionally", "the eviction loop iterates `%s`: on some writes of the stored source nothing is evicted" % unparse(a.iter))
                    ins_nodes = set()
                    for i_ in inserts:
                        ins_nodes.update(g_.nodes_of(i_))
                    ctx.check(g_.every_path_to(ins_nodes, g_.nodes_of(a)) or g_.every_path_from(ins_nodes, g_.nodes_of(a), None, skip_exc=True), a,
                              "every path that records this function in the table also runs the eviction of its namesakes (before or after)",
                              "the table insert can be reached without running the eviction loop")
                    early = [x for s_ in a.body for x in walk_local(s_) if isinstance(x, (ast.Break, ast.Return))]
                    ctx.check(not early and not a.orelse, a, "the eviction loop visits every entry (no break / return)",
                              "the eviction loop stops at the first match: further live functions with the same identifier stay validated against a source that is no longer stored")
                    from ..core import cond_facts
                    facts = cond_facts([c_ for c_ in g_.conditions_at(g_.nodes_of(n)) if in_block(c_[0], a.body)])
                    var = a.target.id if isinstance(a.target, ast.Name) else "?"
                    same_id = [f for f in facts if f[1] and f[0] in ("_build_func_identifier(%s) == self.func_id" % var, "self.func_id == _build_func_identifier(%s)" % var)]
                    keeps_self = [f for f in facts if f in (("%s is not self.func" % var, True), ("%s is self.func" % var, False))]
                    vacuous = [f for f in facts if f in (("%s is not self" % var, True), ("%s is self" % var, False))]   # the keys are functions, never the wrapper
                    rest = [f for f in facts if f not in same_id and f not in keeps_self and f not in vacuous]
                    ctx.check(bool(same_id) and not rest, n, "evicted: every other function with the same identifier",
                              "eviction is conditioned on %s, not on `same identifier (and not this function)`: namesakes validated against the replaced source stay on the fast path" % facts)
                    if same_id and not rest and not keeps_self:
                        # the loop also evicts this function's own entry: it must be recorded afterwards
                        ctx.check(g_.every_path_from(g_.nodes_of(a), ins_nodes, None, skip_exc=True), a, "the loop does not spare this function's own entry, which is (re)recorded after it",
                                  "the eviction loop also removes this function's own entry and the entry is recorded BEFORE the loop: the function is never on the fast path, every call re-reads and compares the source "
                                  "file, and a session still running an older version of an edited file stores the new source next to values of the old code")
        for n in inv:
            # must be able to hit entries of *other* functions: clear(), or pop/del inside a loop over the table
            if isinstance(n, ast.Call) and call_name(n) == "_FUNCTION_HASHES.clear":
                other = True
            for a in ancestors(n):
                if isinstance(a, (ast.For, ast.While)) and "_FUNCTION_HASHES" in unparse(a.iter if isinstance(a, ast.For) else a.test):
                    other = True
        ctx.check(other, c, "%s rewrites the stored source and evicts the fast-path entries of other live functions with the same id" % fn._qualname,
                  "%s rewrites func_code.py for this function id and records its own function in _FUNCTION_HASHES, but leaves the entries of other live "
                  "functions with the same id: a still-referenced older definition keeps passing the fast path and is served values computed by the new code" % fn._qualname)
    # the fast path itself
    ck = M(ctx, "MemorizedFunc._check_previous_func_code")
    fast = []
    for q_, fn_ in ctx.repo.mod(MEM).funcs.items():
        if q_.startswith("MemorizedFunc.") and any(call_name(c) == "self._hash_func" for c in calls_in(fn_)):
            fast += [n for n in ast.walk(fn_) if isinstance(n, ast.Compare) and len(n.ops) == 1 and isinstance(n.ops[0], ast.Eq) and "_FUNCTION_HASHES" in unparse(n)]
    ctx.check(bool(fast), fast[0] if fast else ck, "fast path compares the recorded (id, hash, code hash) with the current one")
    mc = M(ctx, "Memory.clear")
    ctx.check(any(call_name(c) == "_FUNCTION_HASHES.clear" for c in calls_in(mc)), mc, "Memory.clear() drops the whole fast-path table", "Memory.clear() leaves stale fast-path entries")
    gmc = cfg_of(mc)
    sc_ = [c for c in calls_in(mc) if call_name(c) == "self.store_backend.clear"]
    tc_ = [c for c in calls_in(mc) if call_name(c) == "_FUNCTION_HASHES.clear"]
    for c in sc_:
        ok_ = bool(tc_) and gmc.every_path_from(gmc.nodes_of(c), gmc.nodes_of_all(tc_), None, skip_exc=True)
        ctx.check(ok_, c, "whenever the store is wiped the fast-path table is wiped AFTERWARDS, on every path (a function validated between the two steps would otherwise stay validated against a deleted func_code.py)",
                  "the store can be wiped without wiping _FUNCTION_HASHES (e.g. with warn=False): functions validated before the wipe skip re-writing func_code.py, so their new entries are invalid for every other process")
    m = ctx.repo.mod(MEM)
    d = [a for a in m.tree.body if isinstance(a, ast.Assign) and "_FUNCTION_HASHES" in stores_to(a)]
    ctx.check(bool(d) and call_name(d[0].value) == "weakref.WeakKeyDictionary", d[0] if d else m.tree.body[0], "the table is weak-keyed by function object")


def code_hash(ctx):
    f = M(ctx, "MemorizedFunc._hash_func")
    rets = nodes_of_type(f, ast.Return)
    ctx.need(rets and isinstance(rets[0].value, ast.Tuple), "_hash_func does not return a tuple")
    txt = [unparse(_resolve_local(e, f)) for e in rets[0].value.elts]
    whole = ("hash(getattr(self.func, '__code__', None))", "hash(self.func.__code__)", "hash(self.func.__code__) if hasattr(self.func, '__code__') else None")
    def resolved(t_):
        # one level of local definitions inside the hashed expression (`code = getattr(...)`; `hash(code)`)
        return t_
    elts = []
    for e in rets[0].value.elts:
        e2 = _resolve_local(e, f)
        if isinstance(e2, ast.Call) and call_name(e2) == "hash" and e2.args and isinstance(e2.args[0], ast.Name):
            inner = _resolve_local(e2.args[0], f)
            elts.append("hash(%s)" % unparse(inner))
        else:
            elts.append(str(unparse(e2)))
    ctx.check(any(t in whole for t in elts), rets[0], "the fast-path key includes a hash of the whole code object func.__code__ (a swapped code object is detected, also when only its constants or names differ)",
              "fast-path key %s does not hash the code object itself: a code object that differs only in a constant or a referenced name has the same bytecode, so the swap goes unnoticed" % elts)
    ctx.check("id(self.func)" in txt, rets[0], "and the identity of the function object")
    p = M(ctx, "MemorizedFunc.func_code_info")
    tests = [n for n in ast.walk(p) if isinstance(n, ast.Compare) and "id(self.func.__code__)" in unparse(n) and isinstance(n.ops[0], ast.NotEq)]
    ctx.check(bool(tests), tests[0] if tests else p, "func_code_info drops its memo when the code object changed")
    resets = [a for a in assigns_to(p, "self._func_code_info") if is_const(a.value, None)]
    ctx.check(bool(resets), resets[0] if resets else p, "memoised source is reset to None in that case")
    # the memo belongs to ONE code object: when it is dropped for a new code object, the id it is compared with must become
    # that object's id - otherwise swapping back to the first code object finds "same id as recorded" and keeps the source
    # that was read for the second one
    gp = cfg_of(p)
    for r_ in resets:
        upd = [a for a in assigns_to(p, "self._func_code_id") if unparse(a.value) == "id(self.func.__code__)" and
               (gp.every_path_from(gp.nodes_of(r_), gp.nodes_of(a), None, skip_exc=True) or gp.every_path_to(gp.nodes_of(r_), gp.nodes_of(a))) and
               any(i_ is t_ for (i_, t, pol) in gp.conditions_at(gp.nodes_of(a)) for t_ in [enclosing_if(r_)] if t_ is not None)]
        ctx.check(bool(upd), r_, "and the recorded id becomes the id of the new code object",
                  "func_code_info drops the memoised source when func.__code__ was swapped but keeps the OLD id on record: after swapping back (A -> B -> A) the ids match again and the source read "
                  "for B is kept for A, so values cached for B are served under A's code", key=MEM + "::MemorizedFunc.func_code_info::recorded code id follows the swap")
    gs = [c for c in calls_in(p) if call_name(c) == "get_func_code"]
    ctx.check(bool(gs) and dotted(gs[0].args[0]) == "self.func", gs[0] if gs else p, "source is (re)read through get_func_code(self.func)")


def enclosing_if(node):
    for a in ancestors(node):
        if isinstance(a, ast.If):
            return a
        if isinstance(a, (ast.FunctionDef, ast.AsyncFunctionDef)):
            return None
    return None


def _resolve_local(e, fn):
    if isinstance(e, ast.Name):
        d = _local_def(fn, e.id)
        if len(d) == 1:
            return d[0].value
    return e


def fresh_source(ctx):
    f = ctx.repo.func(FI, "get_func_code")
    m = ctx.repo.mod(FI)
    imp = [n for n in m.tree.body if isinstance(n, ast.ImportFrom) and n.module == "tokenize" and any(a.name == "open" and a.asname == "open_py_source" for a in n.names)]
    ctx.check(bool(imp), imp[0] if imp else m.tree.body[0], "open_py_source is tokenize.open")
    op = [w for w in nodes_of_type(f, ast.With) if any(isinstance(i.context_expr, ast.Call) and call_name(i.context_expr) == "open_py_source" for i in w.items)]
    ctx.check(bool(op), op[0] if op else f, "existing source files are read from disk at call time (no inspect/linecache cache)", "get_func_code no longer reads the file itself")
    # the fingerprint describes the callable that was handed in: the parameter is never re-bound to something it wraps
    # (partial.func, __wrapped__, __func__) - a wrapper that freezes arguments or adds behaviour is different code
    p0 = f.args.args[0].arg
    rebinds = [n for n in ast.walk(f) if isinstance(n, ast.Name) and n.id == p0 and isinstance(n.ctx, (ast.Store, ast.Del))]
    ctx.check(not rebinds, enclosing_stmt(rebinds[0]) if rebinds else f, "get_func_code fingerprints the object it was given (`%s` is never re-bound)" % p0,
              "get_func_code re-binds `%s` (`%s`): the fingerprint is that of a wrapped / inner function - wrappers differing only in what they add (the frozen arguments of a "
              "functools.partial) look like the same code and share cached results" % (p0, unparse(enclosing_stmt(rebinds[0]), 60) if rebinds else ""))
    g = cfg_of(f)
    for c in calls_in(f):
        if call_name(c) in ("inspect.getsource", "inspect.getsourcelines", "linecache.getlines"):
            conds = g.conditions_at(g.nodes_of(c))
            ctx.check(any(unparse(t) == "not os.path.exists(source_file)" and pol for (_, t, pol) in conds), c, "%s is used only when the source file does not exist" % call_name(c),
                      "%s (linecache-backed, stale after an edit) is used for existing files" % call_name(c))
    for h in [h for t in nodes_of_type(f, ast.Try) for h in t.handlers]:
        for r in [n for s_ in h.body for n in walk_local(s_) if isinstance(n, ast.Return)]:
            first = r.value.elts[0] if isinstance(r.value, ast.Tuple) else r.value
            if isinstance(first, ast.Name):
                d_ = [x for s2 in h.body for x in walk_local(s2) if isinstance(x, ast.Assign) and first.id in stores_to(x)]
                first = d_[0].value if len(d_) == 1 else first
            txt = unparse(first)
            if "__code__" in txt:
                ctx.check(txt in ("str(func.__code__.__hash__())", "str(hash(func.__code__))"), r, "source-less functions are fingerprinted by the hash of the whole code object (constants and names included)",
                          "source-less functions are fingerprinted by %s, which does not cover the whole code object: a redefinition that only changes constants is not detected" % txt)
    for r in nodes_of_type(f, ast.Return):
        txt = ast.unparse(r.value)
        if "func.args" in txt or "func.func" in txt or "func.keywords" in txt:
            ctx.check("func.args" in txt and "func.keywords" in txt and "func.func" in ast.unparse(f), r, "a partial is fingerprinted by its function, positional AND keyword arguments",
                      "a functools.partial is fingerprinted by %s only: partials differing in the other frozen arguments look like the same code and share cached results" % (
                          [x for x in ("func.func", "func.args", "func.keywords") if x in txt]))
    fl = [a for a in nodes_of_type(f, ast.Assign) if "first_line" in stores_to(a)]
    ctx.check(bool(fl) and unparse(fl[0].value) == "code.co_firstlineno", fl[0] if fl else f, "the block is taken from the function's current first line")


# ---------------------------------------------------------------------------
# C18
# ---------------------------------------------------------------------------

def _sel_loop(ctx):
    f = S(ctx, "StoreBackendMixin._get_items_to_delete")
    loops = [l for l in nodes_of_type(f, ast.For) if any(call_attr(c) == "append" for c in calls_in(l))]
    if not loops:
        cand = [l for l in nodes_of_type(f, ast.For) if dotted(l.iter) == "items"]
        if cand:
            ctx.bad(cand[0], "the selection loop of _get_items_to_delete no longer collects the items it selects: nothing is ever evicted", key=SB + "::StoreBackendMixin._get_items_to_delete::selection loop collects")
    ctx.need(loops, "selection loop not found in _get_items_to_delete")
    return f, loops[0]


def lru_order(ctx):
    f, lp = _sel_loop(ctx)
    g = cfg_of(f)
    seq = dotted(lp.iter)
    ctx.need(seq is not None, "selection loop does not iterate a plain sequence variable")
    sorts = [c for c in calls_in(f) if call_name(c) == "%s.sort" % seq]
    sorted_defs = [a for a in nodes_of_type(f, ast.Assign) if seq in stores_to(a) and isinstance(a.value, ast.Call) and call_name(a.value) == "sorted"]
    srt = sorts + [a.value for a in sorted_defs]
    if not srt:
        ctx.bad(lp, "the list iterated by the selection loop is never sorted by last access: eviction order is directory-walk order")
        return
    for c in srt:
        k = kwarg(c, "key")
        ktxt = unparse(k) if k is not None else None
        okk = ktxt in ("operator.attrgetter('last_access')", "attrgetter('last_access')") or (isinstance(k, ast.Lambda) and isinstance(k.body, ast.Attribute) and k.body.attr == "last_access")
        ctx.check(okk, c, "sorted by the last_access field", "sort key is %s, not last_access" % ktxt)
        rv = kwarg(c, "reverse")
        ctx.check(rv is None or is_const(rv, False), c, "ascending (least recently used first)", "sorted with reverse=%s: the most recently used entries are evicted first" % (unparse(rv) if rv is not None else None))
        ctx.check(g.every_path_to(g.nodes_of(lp), g.nodes_of(c)), c, "the sort precedes the selection loop on every path")
    # nothing re-orders between sort and loop
    for c in calls_in(f):
        if call_name(c) in ("%s.reverse" % seq, "random.shuffle", "reversed") or (call_name(c) == "%s.sort" % seq and c not in srt):
            ctx.bad(c, "the item list is re-ordered after the LRU sort")
    gi = [a for a in nodes_of_type(f, ast.Assign) if seq in stores_to(a)]
    ctx.check(any(isinstance(a.value, ast.Call) and call_name(a.value) == "self.get_items" for a in gi), gi[0] if gi else f, "the list is the store inventory (get_items)")


def prefix(ctx):
    f, lp = _sel_loop(ctx)
    g = cfg_of(f)
    apps = [c for c in calls_in(lp) if call_attr(c) == "append"]
    ctx.check(len(apps) == 1 and enclosing_stmt(apps[0]) in lp.body and apps[0].args and dotted(apps[0].args[0]) == dotted(lp.target), apps[0] if apps else lp,
              "each taken item is appended once, unconditionally after the stop test, in iteration order")
    stops = [n for n in lp.body if isinstance(n, ast.If) and any(isinstance(s, ast.Break) for s in n.body)]
    if not stops:
        ctx.bad(lp, "the selection loop has no stop test: everything is evicted")
        return
    st = stops[0]
    ctx.check(lp.body.index(st) < lp.body.index(enclosing_stmt(apps[0])) if apps else False, st, "test-before-take: the stop test precedes the append (no item beyond the minimal prefix is taken)",
              "the stop test comes after the append: one entry too many is evicted")
    ctx.check(not any(isinstance(n, ast.Continue) for s in lp.body for n in walk_local(s)), lp, "no `continue`: an item is never skipped in favour of a later one")
    ctx.check(not lp.orelse, lp, "no else clause")
    rets = nodes_of_type(f, ast.Return)
    last = rets[-1]
    ctx.check(apps and dotted(last.value) == dotted(apps[0].func.value), last, "the selected prefix is what is returned")
    # accumulators
    for acc, inc in (("size_so_far", "item.size"), ("items_so_far", "1")):
        a = [n for n in lp.body if isinstance(n, ast.AugAssign) and dotted(n.target) == acc]
        ctx.check(len(a) == 1 and isinstance(a[0].op, ast.Add) and unparse(a[0].value) == inc.replace("item", dotted(lp.target)), a[0] if a else lp, "%s += %s for every taken item" % (acc, inc),
                  "accumulator %s is not updated by %s per taken item" % (acc, inc))
        z = [d for d in _local_def(f, acc)]
        ctx.check(len(z) == 1 and is_const(z[0].value, 0), z[0] if z else f, "%s starts at 0" % acc)


def _conj(test):
    return list(test.values) if isinstance(test, ast.BoolOp) and isinstance(test.op, ast.And) else [test]


def all_limits(ctx):
    f, lp = _sel_loop(ctx)
    # an empty inventory (a concurrent clear emptied the store, or nothing was ever cached) is answered before anything is
    # computed FROM the items: min()/max() of an empty sequence raise ValueError, items[0] raises IndexError
    g_e = cfg_of(f)
    inv_name = None
    for a_ in nodes_of_type(f, ast.Assign):
        if isinstance(a_.value, ast.Call) and call_name(a_.value) == "self.get_items" and isinstance(a_.targets[0], ast.Name):
            inv_name = a_.targets[0].id
    if inv_name:
        risky = [c_ for c_ in calls_in(f) if call_name(c_) in ("min", "max") and len(c_.args) == 1 and not c_.keywords and inv_name in names_in(c_.args[0])]
        risky += [n_ for n_ in ast.walk(f) if isinstance(n_, ast.Subscript) and isinstance(n_.ctx, ast.Load) and dotted(n_.value) == inv_name and isinstance(n_.slice, ast.Constant)]
        for r_ in risky:
            facts = g_e.fact_set(g_e.nodes_of(r_))
            ok_ = (inv_name, True) in facts or ("len(%s) == 0" % inv_name, False) in facts or ("0 < len(%s)" % inv_name, True) in facts
            ctx.check(ok_, r_, "`%s` is evaluated only for a non-empty inventory" % unparse(r_, 50),
                      "`%s` is evaluated without the inventory having been tested for emptiness: on an empty store (a concurrent clear, nothing cached yet) reduce_size raises instead of doing nothing" % unparse(r_, 60))
    stops = [n for n in lp.body if isinstance(n, ast.If) and any(isinstance(s, ast.Break) for s in n.body)]
    ctx.need(stops, "no stop test")
    conj = [unparse(c) for c in _conj(stops[0].test)]
    item = dotted(lp.target)
    want_stop = {
        "bytes": ["size_so_far >= to_delete_size", "to_delete_size <= size_so_far"],
        "items": ["items_so_far >= to_delete_items", "to_delete_items <= items_so_far"],
        "age": ["deadline is None or deadline < %s.last_access" % item, "deadline is None or %s.last_access > deadline" % item],
    }
    for k, forms in want_stop.items():
        ctx.check(any(c in forms for c in conj), stops[0], "the stop test requires the %s limit to be met (%s)" % (k, forms[0]),
                  "the stop test %s does not require the %s limit: reduce_size may return with it violated, or evict too much" % (conj, k))
    ctx.check(len(conj) == 3, stops[0], "exactly the three limits are conjoined")
    early = [n for n in nodes_of_type(f, ast.If) if any(isinstance(s, ast.Return) for s in n.body) and "to_delete_size" in unparse(n.test)]
    if not early:
        # the early return is a shortcut: without it the selection loop stops at its first item under the same three tests
        ctx.ok(f, "no early return: the selection loop alone decides (its stop test holds at the first item when nothing is to be evicted)", key=SB + "::StoreBackendMixin._get_items_to_delete::early return")
    for e_ in early:
        ec = [unparse(c) for c in _conj(e_.test)]
        for form in ("to_delete_size <= 0", "to_delete_items <= 0", "deadline is None or older_item > deadline"):
            ctx.check(form in ec, e_, "nothing is evicted only if `%s`" % form, "early return %s lost `%s`" % (ec, form))
    defs = {
        "to_delete_size": ("bytes_limit", "size - bytes_limit"),
        "to_delete_items": ("items_limit", "len(items) - items_limit"),
        "deadline": ("age_limit", "datetime.datetime.now() - age_limit"),
    }
    g = cfg_of(f)
    for var, (lim, expr) in defs.items():
        ds = _local_def(f, var)
        ctx.check(len(ds) == 2, ds[0] if ds else f, "%s has a limit branch and a no-limit branch" % var)
        for d in ds:
            conds = g.conditions_at(g.nodes_of(d))
            has = any(unparse(t) == "%s is not None" % lim and pol for (_, t, pol) in conds)
            if has:
                ctx.check(unparse(d.value) == expr, d, "%s = %s when %s is given" % (var, expr, lim), "%s is computed as %s" % (var, unparse(d.value)))
            else:
                ctx.check(unparse(d.value) in ("0", "None"), d, "%s is neutral when %s is None" % (var, lim))
    sz = _local_def(f, "size")
    ctx.check(len(sz) == 1 and unparse(sz[0].value) == "sum((item.size for item in items))", sz[0] if sz else f, "total size = sum of all item sizes")
    ol = _local_def(f, "older_item")
    ctx.check(len(ol) == 1 and unparse(ol[0].value) == "min((item.last_access for item in items))", ol[0] if ol else f, "oldest access = min over all items")
    mb = [n for n in nodes_of_type(f, ast.If) if unparse(n.test) == "isinstance(bytes_limit, str)"]
    ctx.check(bool(mb) and any(call_name(c) == "memstr_to_bytes" for c in calls_in(mb[0])), mb[0] if mb else f, "string sizes go through memstr_to_bytes")
    ms = ctx.repo.func(DISK, "memstr_to_bytes")
    u = _local_def(ms, "units")
    ok = False
    if u:
        items = dict_items(u[0].value) or {}
        kilo = _local_def(ms, "kilo")
        kv = const_value(kilo[0].value) if kilo else None
        ok = kv == 1024 and {k: unparse(v) for k, v in items.items()} == {"K": "kilo", "M": "kilo ** 2", "G": "kilo ** 3"}
    ctx.check(ok, u[0] if u else ms, "units table is K=1024, M=1024**2, G=1024**3")
    conv = [a for a in nodes_of_type(ms, ast.Assign) if "size" in stores_to(a)]
    ctx.check(bool(conv) and unparse(conv[0].value) == "int(units[text[-1]] * float(text[:-1]))", conv[0] if conv else ms, "size = int(units[last char] * float(rest))")
    rs = M(ctx, "Memory.reduce_size")
    es = [c for c in calls_in(rs) if call_name(c) == "self.store_backend.enforce_store_limits"]
    ctx.check(bool(es) and [dotted(a) for a in es[0].args] == ["bytes_limit", "items_limit", "age_limit"], es[0] if es else rs, "reduce_size forwards the three limits in order")
    # ... and gives up early only when NO limit was given (0 is a limit: "keep nothing"), decided over the fact table of
    # (limit given?) x (limit is zero?) for the three limits
    if es:
        from ..table import taken, Unknown
        grs = cfg_of(rs)
        import itertools as _it
        lim = ["bytes_limit", "items_limit", "age_limit"]
        wrong = None
        try:
            for vals in _it.product(("none", "zero", "positive"), repeat=3):
                env = {"self.store_backend is None": False, "self.store_backend": "<backend>"}
                for nme, v in zip(lim, vals):
                    env[nme] = None if v == "none" else (0 if v == "zero" else 7)
                    env["%s is None" % nme] = v == "none"
                    env["%s is not None" % nme] = v != "none"
                reached = taken(grs, es[0], env, rs)
                if reached != any(v != "none" for v in vals):
                    wrong = dict(zip(lim, vals))
                    break
        except Unknown as e:
            raise Undecidable("reduce_size: early-exit tests not understood: %s" % e)
        ctx.check(wrong is None, es[0], "the limits are enforced whenever at least one is given (27 rows of the fact table)",
                  "with %s reduce_size %s: a limit of 0 (keep nothing) must still be enforced, and no limit at all means nothing to do" % (
                      wrong, "does nothing" if wrong and any(v != "none" for v in wrong.values()) else "runs the eviction"))
    en = S(ctx, "StoreBackendMixin.enforce_store_limits")
    gd = [c for c in calls_in(en) if call_name(c) == "self._get_items_to_delete"]
    ctx.check(bool(gd) and [dotted(a) for a in gd[0].args] == ["bytes_limit", "items_limit", "age_limit"], gd[0] if gd else en, "enforce_store_limits forwards the three limits in order")


def delete_all(ctx):
    en = S(ctx, "StoreBackendMixin.enforce_store_limits")
    loops = [l for l in nodes_of_type(en, ast.For)]
    wl = [l for l in nodes_of_type(en, ast.While)]
    item_var = None
    if not loops and wl:
        # consuming form: `while L: item = L.pop(k)` - the selection is least-recently-used first, so only popping from
        # the FRONT keeps the evicted set an LRU prefix at every moment (an interruption leaves older entries behind otherwise)
        lp = wl[0]
        seq = dotted(lp.test)
        pops = [a for a in lp.body if isinstance(a, ast.Assign) and isinstance(a.value, ast.Call) and call_name(a.value) == "%s.pop" % seq]
        ctx.check(bool(seq) and bool(pops), lp, "the loop consumes the selected items one by one", "enforce_store_limits' while loop does not consume the selected items")
        if pops:
            item_var = dotted(pops[0].targets[0])
            ctx.check(bool(pops[0].value.args) and const_value(pops[0].value.args[0]) == 0, pops[0], "items are taken from the front of the selection (least recently used first)",
                      "`%s` takes the selected items from the END of the selection: entries are evicted most-recent-first, so an interrupted or partly failing eviction leaves an older entry while a newer one is gone" % unparse(pops[0]))
        src = _local_def(en, seq or "")
    else:
        ctx.need(loops, "enforce_store_limits has no loop")
        lp = loops[0]
        it = lp.iter
        rev = isinstance(it, ast.Call) and call_name(it) == "reversed" or (isinstance(it, ast.Subscript) and isinstance(it.slice, ast.Slice) and it.slice.step is not None)
        ctx.check(not rev, lp, "items are visited in selection order (least recently used first)", "the eviction loop visits the selection in reverse: most recently used entries go first")
        src = _local_def(en, dotted(lp.iter) or "")
        item_var = dotted(lp.target)
    ctx.check(bool(src) and isinstance(src[0].value, ast.Call) and call_name(src[0].value) == "self._get_items_to_delete", lp, "the loop runs over exactly the selected items")
    cl = [c for c in calls_in(lp) if call_name(c) == "self.clear_location"]
    rel_form = False
    if not cl:
        # equivalent form: the item is addressed relatively to the store, clear_item(<item.path minus the root prefix>).
        # Sound only if the prefix that is cut off is the very expression the inventory walk starts from.
        ci = [c for c in calls_in(lp) if call_name(c) == "self.clear_item" and c.args]
        gi_ = S(ctx, "FileSystemStoreBackend.get_items")
        wk_ = [l for l in nodes_of_type(gi_, ast.For) if isinstance(l.iter, ast.Call) and call_name(l.iter) == "os.walk" and l.iter.args]
        root2 = unparse(wk_[0].iter.args[0]) if wk_ else None
        for c in ci:
            a0 = c.args[0]
            sub = a0.func.value if isinstance(a0, ast.Call) and call_attr(a0) == "split" and isinstance(a0.func, ast.Attribute) else None
            ok_ = isinstance(sub, ast.Subscript) and unparse(sub.value) == "%s.path" % item_var and isinstance(sub.slice, ast.Slice) and sub.slice.lower is not None and sub.slice.upper is None \
                and unparse(sub.slice.lower) in ("len(%s) + 1" % root2, "1 + len(%s)" % root2) and unparse(a0.args[0]) == "os.sep"
            ctx.check(bool(ok_), c, "every selected item is deleted through clear_item(<its path relative to %s>), the root the inventory walks" % root2,
                      "items are deleted through clear_item(%s), but the inventory builds their paths from `%s`: the prefix cut off is not the prefix they have, so clear_item finds nothing and no limit is enforced" % (unparse(a0, 80), root2))
            rel_form = True
            cl = [c]
    if not rel_form:
        ctx.check(len(cl) == 1 and unparse(cl[0].args[0]) == "%s.path" % item_var, cl[0] if cl else lp, "every selected item's directory is deleted", "selected items are not all deleted")
    if cl:
        st = enclosing_stmt(cl[0])
        chain = [a for a in ancestors(st) if a is not lp and not isinstance(a, ast.FunctionDef)]
        conds = [a for a in ancestors(st) if isinstance(a, ast.If) and in_block(a, lp.body)]
        ctx.check(not conds, cl[0], "deletion is unconditional")
        ctx.check(not any(isinstance(n, (ast.Break, ast.Continue, ast.Return)) for s in lp.body for n in walk_local(s)), lp, "the loop never stops early")
        per_item = [a for a in ancestors(cl[0]) if isinstance(a, ast.Try) and in_block(cl[0], a.body) and in_block(a, lp.body)
                    and any(handler_catches(h, ["OSError"]) and not any(isinstance(n, ast.Raise) for s in h.body for n in walk_local(s)) for h in a.handlers)]
        ctx.check(bool(per_item), cl[0], "an OSError while deleting one item is tolerated per item (the remaining items are still deleted)",
                  "the OSError of one deletion is not handled inside the loop: the first vanished/stale item stops the eviction and the limits are not met")


def inventory(ctx):
    gi = S(ctx, "FileSystemStoreBackend.get_items")
    rx = [c for c in calls_in(gi) if call_name(c) in ("re.match", "re.fullmatch")]
    ctx.need(rx and isinstance(rx[0].args[0], ast.Constant), "entry-directory regex not found")
    pat = rx[0].args[0].value
    import re as _re
    m = _re.fullmatch(r"\[a-f0-9\]\{(\d+)\}\$?", pat)
    ga = M(ctx, "MemorizedFunc._get_args_id")
    hc = [c for c in calls_in(ga) if call_name(c) == "hashing.hash"]
    ctx.need(hc, "_get_args_id no longer uses hashing.hash")
    hname = const_value(kwarg(hc[0], "hash_name")) if kwarg(hc[0], "hash_name") is not None else None
    if hname is None:
        hf = ctx.repo.func(HS, "hash")
        a = hf.args
        names = [x.arg for x in a.args]
        i = names.index("hash_name")
        hname = const_value(a.defaults[i - (len(names) - len(a.defaults))])
    hexlen = {"md5": 32, "sha1": 40}.get(hname)
    ctx.check(m is not None and hexlen is not None and int(m.group(1)) == hexlen, rx[0], "inventory regex quantifier %s = hex length of the %s digest that names entries" % (m.group(1) if m else "?", hname),
              "inventory regex %r does not match the %s digest length %s: entries are invisible to reduce_size" % (pat, hname, hexlen))
    ctx.check(unparse(rx[0].args[1]) == "os.path.basename(dirpath)", rx[0], "matched against the directory's base name")
    walk = [l for l in nodes_of_type(gi, ast.For) if isinstance(l.iter, ast.Call) and call_name(l.iter) == "os.walk"]
    root_ = unparse(walk[0].iter.args[0]) if walk and walk[0].iter.args else None
    ctx.check(root_ in ("self.location", "os.path.abspath(self.location)", "os.path.normpath(self.location)", "os.path.realpath(self.location)"), walk[0] if walk else gi, "the whole store is walked (root %s)" % root_,
              "the inventory walks %s, not the store location" % root_)
    # entry size = the sum of getsize(join(dirpath, f)) over EVERY file name of the walk's listing (no filter, no slice)
    listing = walk[0].target.elts[2].id if walk and isinstance(walk[0].target, ast.Tuple) and len(walk[0].target.elts) == 3 and isinstance(walk[0].target.elts[2], ast.Name) else None
    dpath = walk[0].target.elts[0].id if listing and isinstance(walk[0].target.elts[0], ast.Name) else None
    sums = [c for c in calls_in(gi) if call_name(c) == "sum" and len(c.args) == 1 and isinstance(c.args[0], (ast.GeneratorExp, ast.ListComp)) and len(c.args[0].generators) == 1
            and any(call_name(x) == "os.path.getsize" for x in ast.walk(c.args[0].elt) if isinstance(x, ast.Call))]
    def joined(e, var):
        return isinstance(e, ast.Call) and call_name(e) == "os.path.join" and len(e.args) == 2 and dotted(e.args[0]) == dpath and dotted(e.args[1]) == var
    ok_size = False
    why = "no sum of getsize over the listing"
    for c in sums:
        comp = c.args[0]
        gen = comp.generators[0]
        var = gen.target.id if isinstance(gen.target, ast.Name) else None
        elt = comp.elt
        arg = elt.args[0] if isinstance(elt, ast.Call) and call_name(elt) == "os.path.getsize" and elt.args else None
        if gen.ifs or arg is None or var is None:
            why = "the sum is filtered or not a plain getsize: %s" % unparse(c, 80)
            continue
        src = gen.iter
        if dotted(src) == listing and joined(arg, var):
            ok_size = True
        elif isinstance(src, ast.Name) and dotted(arg) == var:
            d_ = _local_def(gi, src.id)
            if len(d_) == 1 and isinstance(d_[0].value, (ast.ListComp, ast.GeneratorExp)) and len(d_[0].value.generators) == 1:
                g2 = d_[0].value.generators[0]
                v2 = g2.target.id if isinstance(g2.target, ast.Name) else None
                if not g2.ifs and dotted(g2.iter) == listing and joined(d_[0].value.elt, v2):
                    ok_size = True
                else:
                    why = "the files summed are `%s`, not every file of the listing" % unparse(d_[0].value, 80)
        else:
            why = "the sum runs over `%s`" % unparse(src, 60)
    ctx.check(ok_size, sums[0] if sums else gi, "entry size = sum of getsize(join(dirpath, f)) over every file of the entry directory", "entry size is not the size of all files of the entry: %s" % why)
    # ... measured NOW for every entry: the size recorded for an item is that sum and nothing remembered from an earlier listing
    ggi = cfg_of(gi)
    for c in [c for c in calls_in(gi) if call_name(c) == "CacheItemInfo" and len(c.args) >= 2]:
        sz = c.args[1]
        if isinstance(sz, ast.Call) and sz in sums:
            ctx.ok(c, "the recorded size is the sum itself")
            continue
        nm = dotted(sz)
        defs_ = [n for n in ast.walk(gi) if isinstance(n, (ast.Assign, ast.AugAssign, ast.For, ast.With)) and nm in stores_to(n)] if nm else []
        tuple_defs = [n for n in ast.walk(gi) if isinstance(n, ast.Assign) and isinstance(n.targets[0], (ast.Tuple, ast.List)) and nm in [dotted(e) for e in n.targets[0].elts]] if nm else []
        fresh = [n for n in defs_ if isinstance(n, ast.Assign) and isinstance(n.value, ast.Call) and n.value in sums]
        ok_ = bool(nm) and bool(fresh) and len(fresh) == len(defs_) and not tuple_defs and ggi.every_path_to(ggi.nodes_of(c), ggi.nodes_of_all(fresh))
        ctx.check(ok_, c, "the size recorded for an entry is measured on this listing, on every path",
                  "the size recorded for an entry (`%s`) does not come from a fresh measurement on every path: an entry rewritten since an earlier listing keeps its old size, and reduce_size "
                  "selects from stale totals" % unparse(sz, 40))
    la = [a for a in _local_def(gi, "last_access") if isinstance(a.value, ast.Call) and call_name(a.value) == "os.path.getatime"]
    ctx.check(len(la) == 2 and dotted(la[0].value.args[0]) == "output_filename" and _path_const(la[0].value.args[0], gi) == "output.pkl", la[0] if la else gi, "last access = atime of output.pkl (fallback: the directory)")
    if walk:
        conts = [x for s_ in walk[0].body for x in walk_local(s_) if isinstance(x, (ast.Continue, ast.Break))]
        stray = [x for x in conts if not any(isinstance(a_, ast.ExceptHandler) for a_ in ancestors(x))]
        ctx.check(not stray, stray[0] if stray else walk[0], "an entry directory is skipped only when it vanished while being inspected (continue inside an OSError handler)",
                  "the inventory skips entry directories on another condition (%s): they are never counted nor evicted, so the limits are not met" % (
                      unparse(enclosing_stmt(stray[0]) if stray else walk[0], 60)))
    ap = [c for c in calls_in(gi) if call_name(c) == "items.append"]
    ctx.check(len(ap) == 1 and unparse(ap[0].args[0]) == "CacheItemInfo(dirpath, dirsize, last_access)", ap[0] if ap else gi, "one CacheItemInfo(path, size, last_access) per entry directory")
    m_ = ctx.repo.mod(SB)
    ci = [a for a in m_.tree.body if isinstance(a, ast.Assign) and "CacheItemInfo" in stores_to(a)]
    ctx.check(bool(ci) and "path size last_access" in unparse(ci[0].value), ci[0] if ci else m_.tree.body[0], "CacheItemInfo fields are (path, size, last_access)")


# ---------------------------------------------------------------------------
# C02 / C06
# ---------------------------------------------------------------------------

def key_flow(ctx):
    f = M(ctx, "MemorizedFunc._get_args_id")
    rets = nodes_of_type(f, ast.Return)
    ctx.need(rets, "_get_args_id has no return")
    n_ok = 0
    for r in rets:
        vals = [r.value]
        if isinstance(r.value, ast.Name):
            vals = [d.value for d in _local_def(f, r.value.id)] or [r.value]
        for h in vals:
            if not (isinstance(h, ast.Call) and call_name(h) == "hashing.hash"):
                ctx.bad(r, "_get_args_id returns %s, which is not the digest of this call's canonical arguments (values that compare equal - 1, 1.0, True - or a stale "
                        "entry would share a cache key)" % unparse(h))
                continue
            fa = h.args[0] if h.args else None
            if isinstance(fa, ast.Name):
                d = _local_def(f, fa.id)
                fa = d[0].value if len(d) == 1 else fa
            ok = isinstance(fa, ast.Call) and call_name(fa) == "filter_args" and [dotted(a) for a in fa.args] == ["self.func", "self.ignore", "args", "kwargs"]
            n_ok += bool(ok)
            ctx.check(ok, h, "the key is hashing.hash(filter_args(self.func, self.ignore, args, kwargs)): all positional and keyword arguments reach the digest",
                      "digest input is %s: some arguments do not reach the cache key" % (unparse(fa) if fa is not None else None))
    ctx.need(n_ok or ctx.violations(), "_get_args_id shape not recognised")
    ctx.check(f.args.vararg is not None and f.args.vararg.arg == "args" and f.args.kwarg is not None and f.args.kwarg.arg == "kwargs", f, "_get_args_id receives *args and **kwargs")
    bi = ctx.repo.func(MEM, "_build_func_identifier")
    r = nodes_of_type(bi, ast.Return)
    ctx.check(bool(r) and unparse(r[0].value) == "os.path.join(*modules, funcname)", r[0] if r else bi, "function id = module path parts + function name")
    gn = [a for a in nodes_of_type(bi, ast.Assign) if isinstance(a.value, ast.Call) and call_name(a.value) == "get_func_name"]
    ctx.check(bool(gn), gn[0] if gn else bi, "from get_func_name(func)")
    init = M(ctx, "MemorizedFunc.__init__")
    st = assigns_to(init, "self.func_id")
    ctx.check(bool(st) and unparse(st[0].value) == "_build_func_identifier(func)", st[0] if st else init, "func_id is computed from the wrapped function")
    ig = assigns_to(init, "self.ignore")
    ctx.check(bool(ig) and unparse(ig[0].value) == "ignore if ignore is not None else []", ig[0] if ig else init, "ignore list defaults to empty")
    fn_ = assigns_to(init, "self.func")
    ctx.check(bool(fn_) and dotted(fn_[0].value) == "func", fn_[0] if fn_ else init, "the wrapped function is stored unchanged")


def one_id(ctx):
    f = M(ctx, "MemorizedFunc._cached_call")
    d = _local_def(f, "call_id")
    ctx.check(len(d) == 1 and unparse(d[0].value) == "(self.func_id, args_id)", d[0] if d else f, "one call_id definition: (func_id, args_id)", "call_id is defined %d times in _cached_call" % len(d))
    a = _local_def(f, "args_id")
    ctx.check(len(a) == 1 and unparse(a[0].value) == "self._get_args_id(*args, **kwargs)", a[0] if a else f, "args_id = _get_args_id(*args, **kwargs)")
    users = [c for c in calls_in(f) if call_name(c) in ("self._is_in_cache_and_valid", "self._load_item", "self._get_memorized_result", "self._call")]
    ctx.floor(len(users), 4, "users of call_id in _cached_call")
    for c in users:
        ctx.check(c.args and dotted(c.args[0]) == "call_id", c, "%s uses that call_id" % call_name(c), "%s is given %s" % (call_name(c), unparse(c.args[0]) if c.args else None))
    for q in ("MemorizedFunc.call", "MemorizedFunc.check_call_in_cache"):
        fn = M(ctx, q)
        dd = _local_def(fn, "call_id")
        ctx.check(len(dd) == 1 and unparse(dd[0].value) == "(self.func_id, self._get_args_id(*args, **kwargs))", dd[0] if dd else fn, "%s builds the id with the same expression" % q)
    cc = M(ctx, "MemorizedFunc._call")
    ac = [c for c in calls_in(cc) if call_name(c) == "self._after_call"]
    fc = [c for c in calls_in(cc) if call_name(c) == "self.func"]
    ctx.check(bool(fc) and len(fc[0].args) == 1 and isinstance(fc[0].args[0], ast.Starred) and dotted(fc[0].args[0].value) == "args" and fc[0].keywords and dotted(fc[0].keywords[0].value) == "kwargs", fc[0] if fc else cc,
              "the function is executed with exactly the caller's arguments")
    ctx.check(bool(ac) and [dotted(x) for x in ac[0].args[:3]] == ["call_id", "args", "kwargs"] and "output" in [dotted(x) for x in ac[0].args], ac[0] if ac else cc, "the output is stored under that call_id")
    af = M(ctx, "MemorizedFunc._after_call")
    rets = [r for r in nodes_of_type(af, ast.Return)]
    ctx.check(any(isinstance(r.value, ast.Tuple) and dotted(r.value.elts[0]) == "output" for r in rets), af, "the computed output is what is returned")


def paths(ctx):
    roles = {
        "StoreBackendMixin.load_item": "output.pkl", "StoreBackendMixin.dump_item": "output.pkl", "StoreBackendMixin.contains_item": "output.pkl",
        "StoreBackendMixin.get_metadata": "metadata.json", "StoreBackendMixin.store_metadata": "metadata.json",
        "StoreBackendMixin.store_cached_func_code": "func_code.py", "StoreBackendMixin.get_cached_func_code": "func_code.py",
    }
    for q, base in roles.items():
        fn = S(ctx, q)
        consts = {n.value for n in ast.walk(fn) if isinstance(n, ast.Constant) and isinstance(n.value, str) and n.value in FINAL_NAMES}
        ctx.check(consts == {base}, fn, "%s uses the base name %r" % (q, base), "%s uses base names %s (expected %r): writer and reader of the entry disagree" % (q, sorted(consts), base))
        joins = [c for c in calls_in(fn) if call_name(c) == "os.path.join" and c.args and dotted(c.args[0]) == "self.location"]
        ok = bool(joins) and all(len(c.args) >= 2 and isinstance(c.args[1], ast.Starred) and dotted(c.args[1].value) == "call_id" for c in joins)
        ctx.check(ok, joins[0] if joins else fn, "%s derives the entry directory as join(self.location, *call_id)" % q, "%s derives the entry directory differently" % q)
    for q in ("StoreBackendMixin.clear_item", "StoreBackendMixin.clear_path"):
        fn = S(ctx, q)
        joins = [c for c in calls_in(fn) if call_name(c) == "os.path.join"]
        ctx.check(bool(joins) and unparse(joins[0]) == "os.path.join(self.location, *call_id)", joins[0] if joins else fn, "%s addresses join(self.location, *call_id)" % q)
    li = S(ctx, "StoreBackendMixin.load_item")
    lo = [c for c in calls_in(li) if call_name(c) == "numpy_pickle.load"]
    ctx.floor(len(lo), 2, "load sites in load_item")
    for c in lo:
        a0 = c.args[0]
        ok = dotted(a0) == "filename" or any(isinstance(w, ast.With) and any(dotted(i.optional_vars) == dotted(a0) and isinstance(i.context_expr, ast.Call) and dotted(i.context_expr.args[0]) == "filename" for i in w.items) for w in ancestors(c))
        ctx.check(ok, c, "what is loaded is the entry's output.pkl")
    rets = nodes_of_type(li, ast.Return)
    def _is_loaded(v):
        # the load call itself, or a local every definition of which is a load call
        if isinstance(v, ast.Call):
            return any(v is c for c in lo)
        if isinstance(v, ast.Name):
            dd = [a for a in nodes_of_type(li, (ast.Assign, ast.AugAssign, ast.AnnAssign)) if v.id in stores_to(a)]
            return bool(dd) and all(isinstance(a, ast.Assign) and any(a.value is c for c in lo) for a in dd)
        return False
    ctx.check(rets and all(_is_loaded(r.value) for r in rets), rets[0] if rets else li, "the loaded object is returned unchanged")


def shelve(ctx):
    g_ = M(ctx, "MemorizedResult.get")
    lo = [c for c in calls_in(g_) if call_name(c) == "self.store_backend.load_item"]
    ctx.check(bool(lo) and dotted(lo[0].args[0]) == "self._call_id", lo[0] if lo else g_, "a shelved reference loads the call id it was constructed with")
    # every value get() returns was loaded from the store by THIS call of get(): a value kept on the reference is the very
    # object handed to an earlier caller - edits made to it (results are usually mutable: lists, arrays) come back as "the
    # cached value", and it survives a recomputation of the entry
    loaded = {t for a in nodes_of_type(g_, ast.Assign) if any(c in lo for c in calls_in(a.value)) for t in stores_to(a)}
    for r in nodes_of_type(g_, ast.Return):
        v = r.value
        ok = v is not None and ((isinstance(v, ast.Call) and v in lo) or (isinstance(v, ast.Name) and v.id in loaded and len([a for a in nodes_of_type(g_, ast.Assign) if v.id in stores_to(a)]) == 1))
        ctx.check(ok, r, "get() returns what this very call loaded from the store", "get() returns `%s`, which is not the value loaded by this call: a value remembered on the reference is shared with "
                  "earlier callers (their in-place edits are served as the cached result)" % unparse(v, 60))
    kept = [a for a in nodes_of_type(g_, (ast.Assign, ast.AugAssign)) if any(t.startswith("self.") for t in stores_to(a)) and (any(c in lo for c in calls_in(a)) or names_in(a.value) & loaded)]
    ctx.check(not kept, kept[0] if kept else g_, "nothing loaded is kept on the reference", "the loaded value is stored on the reference (`%s`)" % (unparse(kept[0], 60) if kept else ""))
    init = M(ctx, "MemorizedResult.__init__")
    st = assigns_to(init, "self._call_id")
    ctx.check(bool(st) and dotted(st[0].value) == "call_id", st[0] if st else init, "the call id is stored unchanged")
    gm = M(ctx, "MemorizedFunc._get_memorized_result")
    c = [c for c in calls_in(gm) if call_name(c) == "MemorizedResult"]
    ctx.check(bool(c) and len(c[0].args) >= 2 and dotted(c[0].args[0]) == "self.store_backend" and dotted(c[0].args[1]) == "call_id", c[0] if c else gm, "the reference is built on the same store and call id")
    cs = M(ctx, "MemorizedFunc.call_and_shelve")
    r = nodes_of_type(cs, ast.Return)
    def through(fn_, want):
        g_ = cfg_of(fn_)
        cc_ = [c for c in calls_in(fn_) if call_name(c) == "self._cached_call" and len(c.args) >= 2 and [dotted(a) for a in c.args[:2]] == ["args", "kwargs"] and is_const(kwarg(c, "shelving", 2), want)]
        others = [c for c in calls_in(fn_) if call_name(c) in ("self._cached_call", "self._call", "self.func", "self.call") and c not in cc_]
        return bool(cc_) and not others and g_.every_path_from([g_.entry], g_.nodes_of_all(cc_), None, skip_exc=True), (cc_ or [fn_])[0]
    ok_, at_ = through(cs, True)
    ctx.check(ok_, at_, "call_and_shelve goes through _cached_call(shelving=True)")
    cl = M(ctx, "MemorizedFunc.__call__")
    r = nodes_of_type(cl, ast.Return)
    ok_, at_ = through(cl, False)
    ctx.check(ok_, at_, "__call__ goes through _cached_call(shelving=False)")


def hit_sibling(ctx):
    f = M(ctx, "MemorizedFunc._cached_call")
    g = cfg_of(f)
    t = [n for n in nodes_of_type(f, ast.If) if isinstance(n.test, ast.Call) and call_name(n.test) == "self._is_in_cache_and_valid"]
    ctx.need(t, "_cached_call no longer branches on _is_in_cache_and_valid")
    tn = g.nodes_of(t[0])[0]
    true_succ = g.label_succ(tn, "T")
    calls = [c for c in calls_in(f) if call_name(c) == "self._call"]
    ctx.need(calls, "no recompute call")
    loads = [c for c in calls_in(f) if call_name(c) == "self._load_item"]
    # on the valid branch, _call is reached only through the load-failure handler
    hs = []
    for c in loads:
        for a in ancestors(c):
            if isinstance(a, ast.Try) and in_block(c, a.body):
                hs += a.handlers
    r = g.reach(true_succ, avoid=g.nodes_of_all(hs))
    ctx.check(not (r & g.nodes_of_all(calls)), t[0], "on a valid hit the function body is executed only if loading the entry raised",
              "on a valid hit the function can be executed again although the entry loaded fine (or is never loaded)")
    ctx.check(bool(loads) and all(set(g.nodes_of(c)) & g.reach(true_succ) for c in loads), loads[0] if loads else t[0], "a valid hit loads the stored result")
    rets = [x for x in nodes_of_type(f, ast.Return) if isinstance(x.value, ast.Tuple) and dotted(x.value.elts[0]) == "output"]
    ctx.check(bool(rets), rets[0] if rets else f, "and returns it")


def cache_forward(ctx):
    """Memory.cache hands every option over to the MemorizedFunc it builds."""
    f = M(ctx, "Memory.cache")
    cs = [c for c in calls_in(f) if call_name(c) == "cls" and len(c.keywords) >= 5]
    ctx.need(cs, "MemorizedFunc construction not found in Memory.cache")
    c = cs[0]
    want = {"location": "self.store_backend", "backend": "self.backend", "ignore": "ignore", "mmap_mode": "mmap_mode", "compress": "self.compress",
            "verbose": "verbose", "timestamp": "self.timestamp", "cache_validation_callback": "cache_validation_callback"}
    for k, v in want.items():
        got = kwarg(c, k)
        ctx.check(got is not None and unparse(got) == v, c, "Memory.cache passes %s=%s" % (k, v), "Memory.cache passes %s=%s (expected %s): the option given by the user is lost" % (k, unparse(got) if got is not None else None, v),
                  key=MEM + "::Memory.cache::forwarding of " + k)
    ctx.check(c.args and dotted(c.args[0]) == "func", c, "the function itself is wrapped")
    part = [x for x in calls_in(f) if call_name(x) == "functools.partial"]
    for x in part:
        for k in ("ignore", "mmap_mode", "verbose", "cache_validation_callback"):
            ctx.check(dotted(kwarg(x, k)) == k, x, "decorator form (func=None) keeps %s" % k, "decorator form drops %s" % k)
    init = M(ctx, "MemorizedFunc.__init__")
    for attr, src in (("self.cache_validation_callback", "cache_validation_callback"), ("self.mmap_mode", "mmap_mode"), ("self.compress", "compress")):
        st = assigns_to(init, attr)
        ctx.check(bool(st) and dotted(st[0].value) == src, st[0] if st else init, "MemorizedFunc stores %s" % src)


def dump_always_writes(ctx):
    """Recomputing a damaged entry repairs it: dump_item writes (temp + rename) on every path, also when a
    file already sits under the final name."""
    f = S(ctx, "StoreBackendMixin.dump_item")
    g = cfg_of(f)
    csw = [c for c in calls_in(f) if call_name(c) == "self._concurrency_safe_write"]
    ctx.need(csw, "dump_item no longer writes through _concurrency_safe_write")
    early = [r for r in nodes_of_type(f, ast.Return) if not g.every_path_to(g.nodes_of(r), g.nodes_of_all(csw))]
    ctx.check(not early and g.every_path_from([g.entry], g.nodes_of_all(csw), skip_exc=True), csw[0], "dump_item publishes the result on every normal path (an existing, possibly damaged output.pkl is replaced)",
              "dump_item can return without writing (%s): a damaged entry that was just recomputed stays damaged and fails again on the next load" % (
                  unparse(enclosing_stmt(early[0]) if early else csw[0], 50)))
    ac = M(ctx, "MemorizedFunc._after_call")
    d = [c for c in calls_in(ac) if call_name(c) == "self.store_backend.dump_item"]
    ga = cfg_of(ac)
    ctx.check(bool(d) and ga.every_path_from([ga.entry], ga.nodes_of_all(d)), d[0] if d else ac, "every recomputation stores its result")


def expires(ctx):
    """expires_after(...): the entry is valid iff its age is below the WHOLE duration given by the caller."""
    f = M(ctx, "expires_after")
    cb = M(ctx, "expires_after.cache_validation_callback")
    params = [a.arg for a in f.args.args + f.args.kwonlyargs]
    td = [c for c in calls_in(f) if (call_name(c) or "").endswith("timedelta")]
    ctx.need(td, "expires_after no longer builds a timedelta")
    kws = {k.arg: dotted(k.value) for k in td[0].keywords if k.arg}
    okd = not td[0].args and set(kws) == set(params) and all(kws[k] == k for k in kws) and set(params) == {"days", "seconds", "microseconds", "milliseconds", "minutes", "hours", "weeks"}
    ctx.check(okd, td[0], "the duration is timedelta(<every parameter under its own name>)", "the duration is built as %s: a part of what the caller asked for is dropped or misplaced" % unparse(td[0], 120))
    dn = enclosing_stmt(td[0])
    dname = dn.targets[0].id if isinstance(dn, ast.Assign) and isinstance(dn.targets[0], ast.Name) else None
    cmps = [c for r in nodes_of_type(cb, ast.Return) if r.value is not None for c in ast.walk(r.value) if isinstance(c, ast.Compare)]
    ctx.need(cmps, "the validation callback of expires_after no longer compares an age with the duration")
    def resolve(e, depth=0):
        if isinstance(e, ast.Name) and depth < 4:
            for scope in (cb, f):
                ds = [a for a in nodes_of_type(scope, ast.Assign) if e.id in stores_to(a)]
                if len(ds) == 1:
                    return resolve(ds[0].value, depth + 1)
        return e
    for c in cmps:
        sides = [resolve(c.left), resolve(c.comparators[0])]
        total = [x for x in sides if isinstance(x, ast.Call) and dname and unparse(x) == "%s.total_seconds()" % dname]
        age = [x for x in sides if isinstance(x, ast.BinOp) and isinstance(x.op, ast.Sub) and unparse(x.left) == "time.time()" and unparse(x.right) == "%s['time']" % cb.args.args[0].arg]
        ctx.check(len(total) == 1 and len(age) == 1 and len(c.ops) == 1, c, "valid iff time.time() - metadata['time'] < duration.total_seconds()",
                  "the age test is `%s` (resolved: %s vs %s): it no longer compares the entry's age with the whole duration in seconds" % (unparse(c, 80), unparse(sides[0], 60), unparse(sides[1], 60)))
        if len(total) == 1 and len(age) == 1 and len(c.ops) == 1:
            # after the loader's normalisation comparisons are written with < / <=: age on the small side
            small_is_age = sides[0] is age[0]
            ctx.check(small_is_age and isinstance(c.ops[0], (ast.Lt, ast.LtE)), c, "younger than the duration => valid", "the comparison is the wrong way round: old entries are valid and fresh ones expire")


def meta_dual(ctx):
    """metadata.json: what store_metadata writes, get_metadata can read back (codec agreement)."""
    w = S(ctx, "StoreBackendMixin.store_metadata")
    r = S(ctx, "StoreBackendMixin.get_metadata")
    enc = [c for c in ast.walk(w) if isinstance(c, ast.Call) and call_attr(c) == "encode"]
    dec = [c for c in ast.walk(r) if isinstance(c, ast.Call) and call_attr(c) == "decode"]
    dumps = [c for c in ast.walk(w) if isinstance(c, ast.Call) and call_name(c) in ("json.dumps", "json.dump")]
    loads = [c for c in ast.walk(r) if isinstance(c, ast.Call) and call_name(c) in ("json.loads", "json.load")]
    ctx.check(bool(dumps) and bool(loads), w, "metadata is written and read as JSON", "metadata is no longer written and read with the same serialiser (json)")
    def codec(c):
        a = c.args[0] if c.args else kwarg(c, "encoding")
        return (const_value(a) or "utf-8").lower().replace("_", "-") if a is None or isinstance(a, ast.Constant) else None
    if enc and dec:
        ce, cd = codec(enc[0]), codec(dec[0])
        ascii_only = not any(k.arg == "ensure_ascii" and not is_const(k.value, True) for c in dumps for k in c.keywords)
        superset = {"ascii": {"ascii", "utf-8", "utf8", "latin-1", "latin1", "iso-8859-1", "cp1252"}, "utf-8": {"utf-8", "utf8"}, "utf8": {"utf-8", "utf8"}}
        written = "ascii" if ascii_only and ce in ("utf-8", "utf8", "ascii", "latin-1", "latin1") else ce
        ok = ce is not None and cd is not None and cd in superset.get(written, {written})
        ctx.check(ok, dec[0], "the reader's codec (%s) decodes everything the writer emits (%s%s)" % (cd, ce, ", ASCII-only JSON" if ascii_only else ""),
                  "the writer emits %s text%s but the reader decodes %s: metadata containing non-ASCII text is written and can never be read back (get_metadata answers {})" % (ce, "" if ascii_only else " with non-ASCII characters kept (ensure_ascii=False)", cd))
    else:
        ctx.check(not enc and not dec, (enc or dec or [w])[0], "text mode on both sides", "only one side of the metadata file encodes/decodes explicitly")


def table_race(ctx):
    """Check-then-act on the shared in-memory table: `k in T` followed by `T[k]` is not atomic; another thread running
    Memory.clear() (T.clear()) or a writer's eviction (T.pop) in between makes the read raise KeyError out of a cached
    call. Reads of the table must be single operations (`T.get(k)`) or sit in a handler that covers KeyError."""
    m = ctx.repo.mod(MEM)
    mutators = [q for q, fn in m.funcs.items() for n in ast.walk(fn)
                if isinstance(n, ast.Call) and call_name(n) in ("_FUNCTION_HASHES.clear", "_FUNCTION_HASHES.pop", "_FUNCTION_HASHES.popitem")]
    ctx.floor(len(mutators), 1, "functions that remove entries from _FUNCTION_HASHES")
    n = 0
    for q, fn in m.funcs.items():
        for sub in [x for x in ast.walk(fn) if isinstance(x, ast.Subscript) and dotted(x.value) == "_FUNCTION_HASHES" and isinstance(x.ctx, ast.Load)]:
            n += 1
            ok = False
            for a in ancestors(sub):
                if isinstance(a, ast.Try) and in_block(sub, a.body) and any(handler_catches(h, ["KeyError"]) for h in a.handlers):
                    ok = True
                if isinstance(a, (ast.FunctionDef, ast.AsyncFunctionDef)):
                    break
            ctx.check(ok, sub, "the subscript read of the shared table tolerates a concurrent removal (KeyError handled)",
                      "`%s` in %s is read after a separate membership test and outside any KeyError handler, while %s can empty the table from another thread: "
                      "a concurrent Memory.clear() makes the cached call raise KeyError" % (unparse(sub, 60), q, ", ".join(sorted(set(mutators))[:3])),
                      key=MEM + "::" + q + "::unprotected read of _FUNCTION_HASHES")
    if n == 0:
        ctx.ok(m.tree.body[0], "the shared table is only read through single operations (.get / membership)")
