"""C05 - killing the process at any instant never corrupts the Memory cache."""

from . import mem

PROPERTY = "C05"
EXPLANATION = (
    "Static decision of the structural clauses of C05. The crash-point quantifier collapses, in the mechanism, to an "
    "ownership fact and a tolerance fact, both shapes of code: (1) who-may-write: every open-for-write of a final store "
    "name (output.pkl, metadata.json, func_code.py) is the write function handed to the temp-and-rename helper, which "
    "closes the file before os.replace; the temporary name extends the final name; (2) every reader of a half-published "
    "entry falls back: load failure => recompute, get_metadata => {} and every consumer of metadata tolerates missing "
    "keys, unreadable func_code.py => rewrite + miss, vanished entries are skipped; the result is published before its "
    "metadata and presence keys on output.pkl only. Atomicity of rename(2) and torn-write behaviour of the file system "
    "are assumed, not decided."
    " metadata.json: the reader's codec decodes everything the writer emits; expires_after compares the age with the whole duration; the new source is never stored ahead of the wipe of the old entries."
    " The stored source (func_code.py) is the label of every result of the function's directory: it is written only after the directory was wiped (C05.LABEL-AFTER-WIPE, defect D-M7 repaired)."
)
ASSUMPTIONS = [
    "os.replace is atomic on the same file system; a killed process leaves either the old or the new file under a final name",
    "files written through `with open(...)` are complete once the with block exits",
]


def run(ctx):
    ctx.run("C05.ATOMIC-OWNERSHIP", "R-WHO", mem.atomic_ownership)
    ctx.run("C05.PUBLISH-ORDER", "R-ORDER", mem.publish_order)
    ctx.run("C05.TEMP-NAME", "R-FLOW", mem.temp_name)
    ctx.run("C05.LOAD-TOLERANT", "R-ERRDISC", mem.load_tolerant)
    ctx.run("C05.META-TOLERANT", "R-FLOW", mem.meta_tolerant)
    ctx.run("C05.RESULT-BEFORE-META", "R-ORDER", mem.result_before_meta)
    ctx.run("C05.CODE-READER", "R-ERRDISC", mem.code_reader)
    ctx.run("C05.DELETE-TOLERANT", "R-ERRDISC", mem.delete_tolerant)
    ctx.run("C05.INVALIDATE-ORDER", "R-ORDER", mem.invalidate_order)
    ctx.run("C05.LABEL-AFTER-WIPE", "R-ORDER", mem.label_after_wipe)
    ctx.run("C14.REWRITE", "R-ORDER", mem.dump_always_writes)
    ctx.run("C05.META-DUAL", "R-DUAL", mem.meta_dual)
    ctx.run("C06.EXPIRES", "R-ARITH", mem.expires)
